#!/usr/bin/env python3
"""Regenerates MANIFEST.json from the table below (keeps the file valid by construction)."""
import json, os
HERE = os.path.dirname(os.path.abspath(__file__))
BASE = "cd /repo && /venv/bin/python -m pytest -ra -q -p no:cacheprovider --timeout=900 --continue-on-collection-errors"
CHECKS = {}
def add(pid, cat, technique, text, note, ref):
    CHECKS[pid] = dict(cat=cat, technique=technique, text=text, note=note, ref=ref)

exec(open(os.path.join(HERE, "manifest_table.py")).read())

props = [json.loads(l)["id"] for l in open(os.path.join(HERE, "properties.jsonl"))]
checks = []
for pid in props:
    if pid not in CHECKS:
        continue
    c = CHECKS[pid]
    checks.append({
        "property_id": pid,
        "quick_cmd": f"./check {pid} quick",
        "thorough_cmd": f"./check {pid} thorough",
        "evidence_file": f"evidence/{pid}.json",
        "replay_cmd_template": f"./check {pid} --replay {{path}}",
        "engine": "rvmon",
        "level_claimed": {"category": c["cat"], "text": c["text"], "design_ref": c["ref"]},
        "level_note": c["note"],
        "technique": c["technique"],
    })
na = [{"property_id": p, "reason": NOT_APPLICABLE.get(p, "check not built yet (work in progress); no claim is made")}
      for p in props if p not in CHECKS]
m = {
    "version": 1,
    "setup_cmd": "./setup.sh",
    "hooks": {
        "guard": "RVMON_MONITORS",
        "enable": "no source hooks: monitors are attached to the live rv classes from outside by rvmon.monitors.install() (RVMON_MONITORS=1 makes the pytest plugin attach them); /repo is imported fresh from its working tree by every check",
        "baseline_off_cmd": BASE,
        "source_commits": [],
        "add_only": True,
    },
    "engines": [{"name": "rvmon", "path": "rvmon/", "serves_properties": sorted(CHECKS),
                 "kind_free_text": "runtime monitors (contracts, reference models, history checkers, fault injection) over generated workloads against the real rv package"}],
    "checks": checks,
    "not_applicable": na,
    "notes": NOTES,
}
json.dump(m, open(os.path.join(HERE, "MANIFEST.json"), "w"), indent=1)
print("MANIFEST.json:", len(checks), "checks,", len(na), "not claimed")
