#!/bin/bash
# Offline set-up: contracts library beside the repo's interpreter (re-creatable, git-ignored).
set -u
cd "$(dirname "$0")"
mkdir -p evidence
(
  flock 9
  if [ ! -d .deps/icontract ]; then
    /venv/bin/pip install -q --no-index --find-links /opt/veriftools/wheels --target .deps icontract >/dev/null 2>&1 \
      || echo "setup: icontract not installed; monitors fall back to the builtin contract wrapper"
  fi
) 9>.deps.lock
# The independent oracle modules must not import the code under test.
if grep -nE '^\s*(from|import)\s+(rv|genrv)\b' rvmon/spec.py rvmon/refcodec.py 2>/dev/null; then
  echo "setup: oracle module imports rv" >&2; exit 1
fi
/venv/bin/python -B -c "import sys; sys.path.insert(0,'.'); import rvmon.env as e; e.setup(); print('setup ok: rv from', e.SRC)"
