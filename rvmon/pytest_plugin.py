"""pytest plugin: run the repository's own test suite with the ambient monitors attached.

Enabled only when RVMON_MONITORS=1 (the guard recorded in MANIFEST.hooks); with it unset the plugin does
nothing and the repository runs exactly as shipped.  Results (evaluation counters and monitor failures)
are written as JSON to $RVMON_PLUGIN_OUT at session end.
"""
import json
import os


def pytest_configure(config):
    if os.environ.get("RVMON_MONITORS") != "1":
        return
    from . import env, monitors, snapshot
    env.setup()
    import logging
    logging.disable(logging.NOTSET)  # leave the repository's logging alone under its own tests

    def snap(obj):
        from rv.project import Project
        return snapshot.snap_project(obj) if isinstance(obj, Project) else snapshot.snap_synth(obj)
    monitors.install(raise_on_failure=False, snapshot_fn=snap)


def pytest_sessionfinish(session, exitstatus):
    if os.environ.get("RVMON_MONITORS") != "1":
        return
    from . import monitors
    out = os.environ.get("RVMON_PLUGIN_OUT")
    if out:
        with open(out, "w") as f:
            json.dump({"counters": monitors.COUNTERS, "failures": monitors.FAILURES[:50], "backend": monitors.BACKEND,
                       "exitstatus": int(exitstatus)}, f)
