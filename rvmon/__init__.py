"""rvmon - runtime monitors for radiant-voices (see /verif/DESIGN.md)."""
