"""Mutation self-test (development tool, not a registered check).

  python -m rvmon.selftest.run [--only ID,...] [--checks C01,...] [--tests] [--jobs N]

Each mutant is a textual replacement in a scratch copy of /repo (rsync under ${TMPDIR:-/var/tmp}),
checked with RVMON_REPO=<scratch> and removed afterwards.  A mutant is CAUGHT when at least one of
its target checks exits 1 with a VIOLATION line.
"""
import argparse
import concurrent.futures as cf
import json
import os
import shutil
import subprocess
import sys
import tempfile

HERE = os.path.dirname(os.path.abspath(__file__))
VERIF = os.path.dirname(os.path.dirname(HERE))


def load_mutants():
    ns = {}
    exec(open(os.path.join(HERE, "mutants.py")).read(), ns)
    return ns["MUTANTS"]


def run_one(m, checks_filter, run_tests, tier):
    base = tempfile.mkdtemp(prefix="rvmon-mut.", dir=os.environ.get("TMPDIR", "/var/tmp"))
    out = {"id": m["id"], "targets": m["checks"], "results": {}, "applied": False}
    try:
        scratch = os.path.join(base, "repo")
        subprocess.run(["rsync", "-a", "--exclude", ".git", "--exclude", "node_modules", "--exclude", "__pycache__",
                        "/repo/", scratch + "/"], check=True)
        for rel, old, new in m["edits"]:
            p = os.path.join(scratch, rel)
            s = open(p).read()
            if old not in s:
                out["error"] = f"pattern not found in {rel}: {old[:60]!r}"
                return out
            s = s.replace(old, new, 1)
            open(p, "w").write(s)
        out["applied"] = True
        envv = dict(os.environ, RVMON_REPO=scratch, RVMON_EVIDENCE_DIR=os.path.join(base, "ev"),
                    RVMON_REPLAY_DIR=os.path.join(base, "rp"), PYTHONHASHSEED="0")
        if run_tests:
            p = subprocess.run(["/venv/bin/python", "-m", "pytest", "-q", "-p", "no:cacheprovider", "-x", "--timeout=600",
                                "--continue-on-collection-errors", "tests/python"], cwd=scratch, env=dict(os.environ, PYTHONPATH=os.path.join(scratch, "src/python")),
                               capture_output=True, text=True)
            out["suite"] = p.stdout.strip().splitlines()[-1] if p.stdout.strip() else f"rc={p.returncode}"
        for c in m["checks"]:
            if checks_filter and c not in checks_filter:
                continue
            p = subprocess.run([os.path.join(VERIF, "check"), c, tier], cwd=VERIF, env=envv, capture_output=True, text=True, timeout=3600)
            keys = [l.split("key=", 1)[1].split(":", 3)[:3] for l in p.stdout.splitlines() if l.strip().startswith("witness key=")]
            out["results"][c] = {"rc": p.returncode, "violation": "VIOLATION property=" in p.stdout,
                                 "keys": sorted({":".join(k) for k in keys})[:4],
                                 "tail": p.stdout.strip().splitlines()[-1][:200] if p.stdout.strip() else p.stderr[-300:]}
        out["caught"] = any(r["rc"] == 1 and r["violation"] for r in out["results"].values())
        return out
    finally:
        shutil.rmtree(base, ignore_errors=True)


def main():
    ap = argparse.ArgumentParser()
    ap.add_argument("--only")
    ap.add_argument("--checks")
    ap.add_argument("--tests", action="store_true")
    ap.add_argument("--jobs", type=int, default=4)
    ap.add_argument("--tier", default="quick")
    ap.add_argument("--out")
    a = ap.parse_args()
    muts = load_mutants()
    if a.only:
        want = set(a.only.split(","))
        muts = [m for m in muts if m["id"] in want or any(m["id"].startswith(w) for w in want)]
    cfilter = set(a.checks.split(",")) if a.checks else None
    if cfilter:
        muts = [m for m in muts if cfilter & set(m["checks"])]
    results = []
    with cf.ThreadPoolExecutor(max_workers=a.jobs) as ex:
        for r in ex.map(lambda m: run_one(m, cfilter, a.tests, a.tier), muts):
            results.append(r)
            status = "ERROR " + r.get("error", "") if not r["applied"] else ("CAUGHT" if r.get("caught") else "MISSED")
            detail = "; ".join(f"{c}:rc{v['rc']} {','.join(v['keys'][:2])}" for c, v in r["results"].items())
            print(f"{status:7} {r['id']:40} {r.get('suite', '')} {detail}", flush=True)
    if a.out:
        json.dump(results, open(a.out, "w"), indent=1)
    missed = [r["id"] for r in results if r["applied"] and not r.get("caught")]
    print(f"{len(results)} mutants, {len(missed)} missed: {missed}")
    return 0


if __name__ == "__main__":
    sys.exit(main())
