# Seeded property-breaking mutants for the self-test.  Each: id, target checks, edits [(path, old, new)].
# Paths are relative to the repository root.  The first occurrence of `old` is replaced.
P = "src/python/rv/"
MUTANTS = []


def M(id, checks, *edits):
    MUTANTS.append({"id": id, "checks": checks, "edits": [(P + e[0] if not e[0].startswith(("specs/", "src/")) else e[0], e[1], e[2]) for e in edits]})


# ---------------------------------------------------------------- reverts of the fixes (F1..F12 and later ones)
M("revert-F1-snam-boundary", ["C01"], ("modules/module.py",
  'name = self.name.encode(ENCODING)[:32].decode(ENCODING, "ignore")\n        yield b"SNAM", name.encode(ENCODING).ljust(32, b"\\0")',
  'yield b"SNAM", self.name.encode(ENCODING)[:32].ljust(32, b"\\0")'))
M("revert-F2-set_raw-lenient", ["C05"], ("modules/module.py", "            value = from_raw_value(raw_value)\n        self.controller_values[name] = value",
  "            value = raw_value\n        self.controller_values[name] = value"))
M("revert-F3-legacy-length", ["C06"], ("modules/sampler.py", "len(data) > 0x190", "len(data) >= 0x190"))
M("revert-F4-notemap-pad", ["C16", "C03", "C01"], ("modules/sampler.py", 'f.write(self.note_samples.bytes.ljust(128, b"\\0"))', "f.write(self.note_samples.bytes)"))
M("revert-F5-connect-return", ["C07"], ("project.py", "                if from_mod_idx in in_links:  # Already connected?\n                    continue",
  "                if from_mod_idx in in_links:  # Already connected?\n                    return"))
M("revert-F5-loopvar", ["C07"], ("project.py", "        for from_item in from_modules:\n            for to_item in to_modules:\n                disconnect = False\n                from_module, to_module = from_item, to_item",
  "        for from_module in from_modules:\n            for to_module in to_modules:\n                disconnect = False"))
M("revert-F6-smooth-scale", ["C09", "C04"], ("modules/module.py", '        self.mod_scale = kw.get("scale", 256)', '        self.scale = kw.get("scale", 256)'),
  ("modules/module.py", '        yield b"SSCL", pack("<I", self.mod_scale)', '        yield b"SSCL", pack("<I", self.scale)'),
  ("readers/module.py", "(self.object.mod_scale,) = unpack", "(self.object.scale,) = unpack"),
  ("modules/module.py", "    @property\n    def scale(self):", "    @property\n    def scale_disabled(self):"),
  ("modules/module.py", "    @scale.setter\n    def scale(self, v):", "    @scale_disabled.setter\n    def scale_disabled(self, v):"))
M("revert-F7-spectravoice-defaults", ["C09"], ("modules/spectravoice.py", "        self._volume = module.harmonic_volumes.values[index]", "        self._volume = 0"))
M("revert-F8-option-bounds", ["C11", "C13"], ("modules/base/metamodule.py", "        min=0,\n        max=96,\n", ""))
M("revert-F9-note-setter", ["C12"], ("note.py", "        self.ctl = (self.ctl & 0x00FF) | ((value & 0xFF) << 8)", "        self.ctl |= (value & 0xFF) << 8"))
M("revert-F10-bulk-ownership", ["C19"], ("pattern.py", "            for note in line:\n                note.pattern = self\n", "            for note in line:\n                pass\n"))
M("revert-F11-macro-arity", ["C20"], ("modules/multictl.py", "mappings.append((mapmin, mapmax, ctl.number, 0, 0, 0, 0, 0))", "mappings.append((mapmin, mapmax, ctl.number))"))
M("revert-F12-unset-mapping", ["C20"], ("modules/multictl.py", "            if mapping.controller == 0:  # no destination controller mapped\n                continue\n", ""))
M("revert-F13-slot-trim", ["C05"], ("readers/module.py", "        del self.object.in_link_slots[len(self.object.in_links) :]\n", ""))

# ---------------------------------------------------------------- C01 / C02 / C03 codec mutants
M("c01-drop-TGD2", ["C01", "C03"], ("project.py", '        yield b"TGD2", pack("<I", self.time_grid2)\n', ""))
M("c01-reader-syyy-into-x", ["C01", "C04"], ("readers/module.py", "(self.object.y,) = unpack(\"<i\", data)", "(self.object.x,) = unpack(\"<i\", data)"))
M("c01-pend-only-nonempty", ["C01", "C03"], ("project.py", "            if pattern is not None:\n                yield from pattern.iff_chunks()\n            yield b\"PEND\", b\"\"",
  "            if pattern is not None:\n                yield from pattern.iff_chunks()\n                yield b\"PEND\", b\"\""))
M("c01-mxof-unsigned-reader", ["C01", "C04"], ("readers/sunvox.py", '(self.object.modules_x_offset,) = unpack("<i", data)', '(self.object.modules_x_offset,) = unpack("<I", data)'))
M("c01-cmid-reversed", ["C01", "C02", "C03"], ("project.py", "                            for name in controllers\n", "                            for name in reversed(controllers)\n"))
M("c02-array-drops-last", ["C02", "C01"], ("chunks/array.py", "        length = len(value) // self.element_size\n", "        length = max(0, len(value) // self.element_size - 1)\n"))
M("c02-synth-cmid-all-controllers", ["C02", "C03"], ("synth.py", "mod.controller_midi_maps[name].cmid_data for name, _ in controllers", "mod.controller_midi_maps[name].cmid_data for name in mod.controllers"))
M("c02-multisynth-swap-chnm", ["C02", "C01"], ("modules/multisynth.py", "        elif chunk.chnm == 2:\n            self.vv_curve.bytes = chunk.chdt\n        elif chunk.chnm == 3:\n            self.np_curve.bytes = chunk.chdt",
  "        elif chunk.chnm == 3:\n            self.vv_curve.bytes = chunk.chdt\n        elif chunk.chnm == 2:\n            self.np_curve.bytes = chunk.chdt"))
M("c02-empty-synth-check-removed", ["C02"], ("synth.py", "        if self.module is None:\n            raise EmptySynthError(\"Cannot serialize a synth with no module\")\n", ""))
M("c03-swap-sfin-srel-both-sides", ["C03", "C04"], ("modules/module.py", 'yield b"SFIN", pack("<i", self.mod_finetune)\n        yield b"SREL", pack("<i", self.mod_relative_note)',
  'yield b"SFIN", pack("<i", self.mod_relative_note)\n        yield b"SREL", pack("<i", self.mod_finetune)'),
  ("readers/module.py", "    def process_SFIN(self, data):\n        (self.object.mod_finetune,)", "    def process_SFIN(self, data):\n        (self.object.mod_relative_note,)"),
  ("readers/module.py", "    def process_SREL(self, data):\n        (self.object.mod_relative_note,)", "    def process_SREL(self, data):\n        (self.object.mod_finetune,)"))
M("c03-option-bits-shifted-both-sides", ["C03", "C11"], ("modules/module.py", "            option_value <<= option.bit\n", "            option_value <<= (option.bit + 1) % 8 if option.size == 1 else option.bit\n"),
  ("modules/module.py", "            option_value >>= option.bit\n", "            option_value >>= (option.bit + 1) % 8 if option.size == 1 else option.bit\n"))
M("c03-sample-header-swap-both-sides", ["C03"], ("modules/sampler.py", "        # uint8_t volume;\n        w.uint8(sample.volume)\n        # int8_t finetune;\n        w.int8(sample.finetune)",
  "        # int8_t finetune;\n        w.int8(sample.finetune)\n        # uint8_t volume;\n        w.uint8(sample.volume)"),
  ("modules/sampler.py", "        # uint8_t volume;\n        sample.volume = r.uint8()\n        # int8_t finetune;\n        sample.finetune = r.int8()",
   "        # int8_t finetune;\n        sample.finetune = r.int8()\n        # uint8_t volume;\n        sample.volume = r.uint8()"))

# ---------------------------------------------------------------- C04
M("c04-unknown-chunk-raises", ["C04"], ("readers/reader.py", '                    log.warning(_F("no {}.{} method", *log_args))', '                    raise KeyError(method_name)'))
M("c04-attach-fills-gaps-while-loading", ["C04", "C01", "C14"], ("project.py", "            if not loading and None in self.modules:", "            if None in self.modules:"))
M("c04-bver-fixup-removed", ["C04"], ("readers/sunvox.py", "            self.object.based_on_version = (1, 7, 0, 0)", "            pass"))
M("c04-smii-shift2", ["C04", "C12", "C01"], ("readers/module.py", "        self.object.midi_in_channel = x >> 1", "        self.object.midi_in_channel = x >> 2"))
M("c04-slnk-stops-at-middle-hole", ["C04", "C08"], ("readers/module.py", "        links.extend(unpack(structure, data))\n        while links[-1:] == [-1]:\n            links.pop()",
  "        links.extend(unpack(structure, data))\n        if -1 in links:\n            del links[links.index(-1):]"))

# ---------------------------------------------------------------- C05
M("c05-writer-strips-live-links", ["C05"], ("project.py", "                links = module.in_links\n", "                while module.in_links[-1:] == [-1]:\n                    module.in_links.pop()\n                    module.in_link_slots.pop()\n                links = module.in_links\n"))
M("c05-writer-bumps-counter", ["C05", "C01"], ("project.py", '        yield self.MAGIC_CHUNK\n        yield b"VERS", pack("BBBB", *reversed(self.sunvox_version))', '        yield self.MAGIC_CHUNK\n        self.current_line += 1\n        yield b"VERS", pack("BBBB", *reversed(self.sunvox_version))'))

# ---------------------------------------------------------------- C06
M("c06-metamodule-replays-loaded-project", ["C06"], ("modules/metamodule.py", "    def load_project(self, chunk):\n        self.project = read_sunvox_file(BytesIO(chunk.chdt))",
  "    def load_project(self, chunk):\n        self.project = read_sunvox_file(BytesIO(chunk.chdt))\n        self._loaded_project_bytes = chunk.chdt"),
  ("modules/metamodule.py", '        yield b"CHDT", self.project.read()', '        yield b"CHDT", getattr(self, "_loaded_project_bytes", None) or self.project.read()'))
M("c06-pattern-caches-raw-at-load", ["C06"], ("readers/pattern.py", "        self.object.raw_data = self._raw_data\n", "        self.object.raw_data = self._raw_data\n        self.object._cached_raw = self._raw_data\n"),
  ("pattern.py", '        yield b"PDTA", self.raw_data', '        yield b"PDTA", getattr(self, "_cached_raw", None) or self.raw_data'))
M("c06-options-written-from-load-copy", ["C06"], ("modules/module.py", "            self.option_values[option.name] = option_value\n\n    def finalize_load", "            self.option_values[option.name] = option_value\n        self._loaded_options = dict(self.option_values)\n\n    def finalize_load"),
  ("modules/module.py", "            option_value = self.option_values.get(option.name)\n", "            option_value = getattr(self, '_loaded_options', self.option_values).get(option.name)\n"))

# ---------------------------------------------------------------- C07 / C08
M("c07-disconnect-in-side-only", ["C07"], ("project.py", "                    out_links[out_link_idx] = -1\n", ""))
M("c07-slots-swapped-on-append", ["C07", "C08"], ("project.py", "                in_link_slots.append(out_link_idx)\n                out_link_slots.append(in_link_idx)", "                in_link_slots.append(in_link_idx)\n                out_link_slots.append(out_link_idx)"))
M("c07-already-connected-wrong-table", ["C07"], ("project.py", "                if from_mod_idx in in_links:  # Already connected?", "                if to_mod_idx in in_links:  # Already connected?"))
M("c07-cross-project-not-refused", ["C07"], ("project.py", "                except ValueError:\n                    raise ModuleOwnershipError(\n                        \"Modules must have same parent to be connected or disconnected\"\n                    )",
  "                except ValueError:\n                    continue"))
M("c08-never-write-slnk2", ["C08"], ("project.py", "                    if any(s not in (-1, 0) for s in module.in_link_slots):", "                    if False:"))
M("c08-slnk-compacts-holes", ["C08", "C01"], ("readers/module.py", "        links.extend(unpack(structure, data))\n", "        links.extend(x for x in unpack(structure, data) if x != -1)\n"))
M("c08-writer-emits-out-slots", ["C08"], ("project.py", "                    link_slots = pack(structure, *link_slots)", "                    link_slots = pack(structure, *(module.out_link_slots + [0] * len(links))[: len(links)])"))
M("c08-slnk2-elision-too-eager", ["C08", "C01"], ("project.py", "any(s not in (-1, 0) for s in module.in_link_slots)", "any(s not in (-1, 0, 1) for s in module.in_link_slots)"))

# ---------------------------------------------------------------- C09 / C10
M("c09-validate-ge", ["C09"], ("controller.py", "        if value < self.min or value > self.max:", "        if value < self.min or value >= self.max:"))
M("c09-store-before-validate", ["C09"], ("controller.py", "            try:\n                value = t(value)\n            except RangeValidationError as e:", "            try:\n                instance.controller_values[self.name] = value\n                value = t(value)\n            except RangeValidationError as e:"))
M("c09-default-edited", ["C09", "C13"], ("modules/base/amplifier.py", "    stereo_width = Controller((0, 256), 128)", "    stereo_width = Controller((0, 256), 127)"))
M("c09-strict-flag-ignored", ["C09"], ("errors.py", "    if RAISE_CONTROLLER_VALUE_ERRORS:\n        raise ControllerValueError", "    if RAISE_CONTROLLER_VALUE_ERRORS and 'Amplifier' not in str(args):\n        raise ControllerValueError"))
M("c09-enum-by-name-removed", ["C09"], ("controller.py", "        if isinstance(value, str) and isinstance(t, type) and issubclass(t, Enum):\n            value = t[value]", "        if False:\n            value = t[value]"))
M("c10-offset-only-below-128", ["C10"], ("controller.py", "        return raw_value + self.min if self.min < 0 else raw_value", "        return raw_value + self.min if self.min < -128 else raw_value"))
M("c10-pattern-scale-32767", ["C10"], ("controller.py", "        return int(shifted / (shifted_max / 32768))", "        return int(shifted / (shifted_max / 32767))"))
M("c10-nooffset-dropped", ["C10", "C13"], ("modules/base/vorbisplayer.py", "    finetune = Controller(NoOffsetRange(-128, 128), 0)", "    finetune = Controller((-128, 128), 0)"))

# ---------------------------------------------------------------- C11 / C12 / C13
M("c11-mask-off-by-one", ["C11"], ("modules/module.py", "            option_value &= (2**option.size) - 1\n            option_value <<= option.bit", "            option_value &= (2**option.size)\n            option_value <<= option.bit"))
M("c11-record-length-short", ["C11", "C03"], ("modules/module.py", "            bytes = max(bytes, option.byte + 1)", "            bytes = max(bytes, option.byte)"))
M("c11-exclusive-ignored", ["C11"], ("option.py", "        for other in self.exclusive_of:\n            instance.option_values[other] = False", "        for other in ():\n            instance.option_values[other] = False"))
M("c11-inversion-dropped-in-get", ["C11"], ("option.py", "        if self.inverted:\n            return not value\n        else:\n            return value", "        return value"))
M("c12-pattern-offset-uses-lines", ["C12", "C01"], ("pattern.py", "                offset = (line_no * self.tracks * 8) + (track_no * 8)", "                offset = (line_no * self.lines * 8) + (track_no * 8)"))
M("c12-bg-transparency-shift25", ["C12"], ("modules/module.py", "        return self.value >> 24 & 3", "        return self.value >> 25 & 3"))
M("c12-sfgs-shift2", ["C12", "C01"], ("project.py", "self.receive_sync_midi | (self.receive_sync_other << 3)", "self.receive_sync_midi | (self.receive_sync_other << 2)"))
M("c13-swap-two-controllers", ["C13"], ("modules/base/amplifier.py", "    balance = Controller((-128, 128), 0)\n    dc_offset = Controller((-128, 128), 0)", "    dc_offset = Controller((-128, 128), 0)\n    balance = Controller((-128, 128), 0)"))
M("c13-drop-inverted", ["C13", "C11"], ("modules/base/analoggenerator.py", "        inverted=True,\n", ""))
M("c13-spec-edited-not-regenerated", ["C13"], ("specs/fileformat.yaml", "      - stereo_width: { min: 0, max: 256, default: 128 }", "      - stereo_width: { min: 0, max: 255, default: 128 }"))

# ---------------------------------------------------------------- C14
M("c14-fill-last-gap", ["C14"], ("project.py", "                module.index = self.module_index(None)\n", "                module.index = len(self.modules) - 1 - self.modules[::-1].index(None)\n"))
M("c14-reparent-instead-of-refuse", ["C14"], ("project.py", "        elif module.parent is not None and module.parent is not self:\n            raise ModuleOwnershipError(\"Module is already attached to another project.\")", "        elif False:\n            pass"))
M("c14-index-not-updated-on-gap-fill", ["C14"], ("project.py", "                module.index = self.module_index(None)\n                self.modules[module.index] = module", "                self.modules[self.module_index(None)] = module"))
M("c14-note-module-off-by-one", ["C14"], ("note.py", "        return None if self.module == 0 else self.module - 1", "        return None if self.module == 0 else self.module"))

# ---------------------------------------------------------------- C15 / C16
M("c15-labels-at-7", ["C15", "C03"], ("modules/metamodule.py", "        for i, controller in enumerate(self.user_defined, 8):", "        for i, controller in enumerate(self.user_defined, 7):"))
M("c15-attach-n-plus-1", ["C15"], ("modules/metamodule.py", "        attached_values = [True] * ctl_count + [False] * (", "        attached_values = [True] * (ctl_count + 1) + [False] * ("))
M("c15-mappings-not-reset", ["C15", "C17"], ("modules/metamodule.py", "        self.mappings = self.MappingArray()\n", "        self.mappings = self.MappingArray()\n        self.mappings.values = MetaModule._shared_map if hasattr(MetaModule, '_shared_map') else setattr(MetaModule, '_shared_map', self.mappings.values) or self.mappings.values\n"))
M("c16-envelope-y-sign", ["C16"], ("modules/sampler.py", "                points.append((x, y + min_y))", "                points.append((x, y - min_y))"))
M("c16-panning-bias-7f", ["C16", "C04"], ("modules/sampler.py", "        sample.panning = r.uint8() - 0x80", "        sample.panning = r.uint8() - 0x7F"))
M("c16-sample-slot-shift-both-sides", ["C16", "C03"], ("modules/sampler.py", "        index = (chunk.chnm - 1) // 2\n", "        index = (chunk.chnm - 3) // 2\n"),
  ("modules/sampler.py", "        index = (chunk.chnm - 2) // 2\n", "        index = (chunk.chnm - 4) // 2\n"),
  ("modules/sampler.py", '        yield b"CHNM", pack("<I", i * 2 + 1)', '        yield b"CHNM", pack("<I", i * 2 + 3)'),
  ("modules/sampler.py", '        yield b"CHNM", pack("<I", i * 2 + 2)', '        yield b"CHNM", pack("<I", i * 2 + 4)'))
M("c16-loop-sustain-dropped", ["C16", "C03"], ("modules/sampler.py", "        sustain_flag = 4 if sample.loop_sustain else 0", "        sustain_flag = 0"))

# ---------------------------------------------------------------- C17
M("c17-array-reset-no-copy", ["C17"], ("chunks/array.py", "            self.values = self.default.copy()", "            self.values = self.default"))
M("c17-waveform-no-copy", ["C17"], ("chunks/waveform.py", "        self.samples = self.default[:] if self.default is not None else []", "        self.samples = self.default if self.default is not None else []"))
M("c17-envelope-no-copy", ["C17"], ("modules/sampler.py", "            self.points = self.initial_points[:]", "            self.points = self.initial_points"))
M("c17-controller-values-class-level", ["C17"], ("modules/module.py", "        self.controller_values = {}\n", "        self.controller_values = self.__class__._shared_cv\n"),
  ("modules/module.py", "    controllers: Dict[str, Controller] = {}\n", "    controllers: Dict[str, Controller] = {}\n    _shared_cv: dict = {}\n"))
M("c17-in-links-class-level", ["C17", "C07"], ("modules/module.py", "        self.in_links = []\n", "        self.in_links = Module._il\n"),
  ("modules/module.py", "    controllers: Dict[str, Controller] = {}\n", "    controllers: Dict[str, Controller] = {}\n    _il: list = []\n"))
M("c17-midi-maps-shared-default", ["C17"], ("modules/module.py", "        self.controller_midi_maps = defaultdict(ControllerMidiMap)", "        self.controller_midi_maps = defaultdict(lambda: _SHARED_CMID)"),
  ("modules/module.py", "log = logging.getLogger(__name__)\n", "log = logging.getLogger(__name__)\n_SHARED_CMID = ControllerMidiMap()\n"))

# ---------------------------------------------------------------- C18 / C19 / C20
M("c18-override-no-finally", ["C18"], ("errors.py", "    try:\n        yield\n    finally:\n        RAISE_CONTROLLER_VALUE_ERRORS = old_raise_errors", "    yield\n    RAISE_CONTROLLER_VALUE_ERRORS = old_raise_errors"))
M("c18-close-not-in-finally", ["C18"], ("readers/reader.py", "        try:\n            reader = InitialReader(file_or_name)\n            return reader.object\n        finally:\n            if close:\n                file_or_name.close()",
  "        reader = InitialReader(file_or_name)\n        obj = reader.object\n        if close:\n            file_or_name.close()\n        return obj"))
M("c19-assign-before-loop", ["C19"], ("pattern.py", "        new = deepcopy(self.data)\n        for line in range(self.lines):", "        new = deepcopy(self.data)\n        self._data = new\n        for line in range(self.lines):"))
M("c19-loop-on-live-data", ["C19"], ("pattern.py", "        new = deepcopy(self.data)\n        for line, track, note in gen(self, new):", "        new = self.data\n        for line, track, note in gen(self, new):"))
M("c20-limit-17", ["C20"], ("modules/multictl.py", "        if len(mod_ctl_pairs) > 16:", "        if len(mod_ctl_pairs) > 17:"))
M("c20-window-swap-omitted", ["C20"], ("modules/multictl.py", "                if smin > smax:\n                    smin, smax = smax, smin\n                    dmin, dmax = dmax, dmin", "                if smin > smax:\n                    smin, smax = smax, smin"))

# ---------------------------------------------------------------- second batch (replacements for equivalent mutants)
M("c12-note-ctl-val-swapped-both-sides", ["C12", "C03"], ("note.py", 'return pack("<BBHHH", self.note, self.vel, self.module, self.ctl, self.val)', 'return pack("<BBHHH", self.note, self.vel, self.module, self.val, self.ctl)'),
  ("note.py", "        self.note, self.vel, self.module, self.ctl, self.val = unpack(", "        self.note, self.vel, self.module, self.val, self.ctl = unpack("))
M("c18-override-saves-in-module-global", ["C18"], ("errors.py", "    global RAISE_CONTROLLER_VALUE_ERRORS\n    old_raise_errors = RAISE_CONTROLLER_VALUE_ERRORS\n    RAISE_CONTROLLER_VALUE_ERRORS = new_value\n    try:\n        yield\n    finally:\n        RAISE_CONTROLLER_VALUE_ERRORS = old_raise_errors",
  "    global RAISE_CONTROLLER_VALUE_ERRORS, _SAVED\n    _SAVED = RAISE_CONTROLLER_VALUE_ERRORS\n    RAISE_CONTROLLER_VALUE_ERRORS = new_value\n    try:\n        yield\n    finally:\n        RAISE_CONTROLLER_VALUE_ERRORS = _SAVED"))
M("c18-restore-only-on-success", ["C18"], ("errors.py", "    try:\n        yield\n    finally:\n        RAISE_CONTROLLER_VALUE_ERRORS = old_raise_errors", "    try:\n        yield\n    except Exception:\n        raise\n    else:\n        RAISE_CONTROLLER_VALUE_ERRORS = old_raise_errors"))
M("c20-gain-clamp-removed", ["C20"], ("modules/multictl.py", "    value = min(value, 32768)\n", ""))
M("c20-dup-module-check-removed", ["C20"], ("modules/multictl.py", "        if len(mods) != len(set(mods)):", "        if False:"))

# ---------------------------------------------------------------- reverts of later fixes
M("revert-F14-multictl-mapping-beyond-controllers", ["C20", "C06"], ("modules/multictl.py", "            if mapping.controller > len(controllers):  # names a controller the target lacks\n                continue\n", ""))
M("revert-F15-slot-conflicts-on-load", ["C05"], ("readers/sunvox.py", "                if out_link_idx == -1 or (\n                    out_links[out_link_idx] != -1\n                    and (out_links[out_link_idx], out_link_slots[out_link_idx])\n                    != (mod.index, in_link_idx)\n                ):", "                if False:"))
M("revert-F19-macro-forwards-name-none", ["C01", "C20"], ("modules/multictl.py", "        if name is not None:\n            kwargs[\"name\"] = name\n", "        kwargs[\"name\"] = name\n"))
M("revert-F16-duplicate-links-share-a-slot", ["C05"], ("readers/sunvox.py", "                    and (out_links[out_link_idx], out_link_slots[out_link_idx])\n                    != (mod.index, in_link_idx)\n", "                    and out_links[out_link_idx] != mod.index\n"))
M("revert-F17-multictl-freed-slot-writes-last-module", ["C20"], ("modules/multictl.py", "            if to_mod == -1:  # freed link\n                continue\n", ""))
M("revert-F18-unmapped-slot-keeps-former-type", ["C06", "C15"], ("modules/metamodule.py", "                user_defined_controller.value_type = Range(0, 44100)\n                user_defined_controller.default = 0\n", ""))
