"""Workload + oracle for the MetaModule `u_<label>` attribute aliases (shared by C06, C09, C17).

A MetaModule exposes K user-defined controllers, each mapped onto a distinct ranged controller (minimum 0) of a module
of the embedded project; a random subset carries labels.  The alias `u_<label>` is documented as another name of the
controller that carries the label, so through it:

    * an in-range assignment is readable through `user_defined_<n>` of THAT slot and through the alias, and no other
      exposed slot of this or of any other MetaModule changes                                             (C06, C17)
    * an out-of-range assignment raises ControllerValueError and the previous value stays                    (C09)

The expected slot, range and alias name come from the script that built the object and from specs/fileformat.yaml
(rvmon.spec); `user_defined_aliases` of the library is never consulted.  Labels are plain ASCII words so the alias
name is `u_` + label.lower() without needing a slug function.
"""
from . import spec

SYMBOL_LABELS = ["%", "->", "***", "\u266a", "-", "_", " ", "...", "(!)", "\u00b1"]
WORDS = ["Cutoff", "Reso", "Drive", "Mix", "Depth", "Rate", "Width", "Tone", "Gain", "Amount", "Shape", "Speed"]
EMBED_TYPES = ["Amplifier", "Filter", "Delay", "Distortion", "Flanger", "Reverb", "Compressor", "Eq"]


def build(rng, labels=None, k=None):
    """Returns (metamodule, slots) where slots[i] = dict(label, alias, lo, hi, target)."""
    import rv.api as api
    sp = spec.load()
    mm = api.m.MetaModule()
    mods = []
    for T in rng.sample([t for t in EMBED_TYPES if t in sp], rng.randint(1, 3)):
        mod = mm.project.new_module(getattr(api.m, sp[T].cls_name))
        mm.project.connect(mod, mm.project.output)
        mods.append((mod, T))
    pool = []
    for mod, T in mods:
        for i, c in enumerate(sp[T].controllers):
            if c.kind in ("range", "compact") and c.min == 0 and c.max > 3:  # min 0 only: pushing a value down adds the target minimum (DESIGN decision 12)
                pool.append((mod.index, i, c.min, c.max, f"{T}.{c.name}"))
    rng.shuffle(pool)
    k = min(k or rng.randint(2, 6), len(pool))
    if labels is None:
        words = rng.sample(WORDS, k)
        labels = [w if rng.random() < 0.55 else None for w in words]
        if all(l is None for l in labels):
            labels[-1] = words[-1]
        if rng.random() < 0.7 and labels[0] is not None and k > 1:
            labels[0] = None        # an unlabelled controller in front of the labelled ones
    labels = list(labels)[:k] + [None] * max(0, k - len(labels))
    # controllers that are not addressed through an alias may carry any text as label, also text without a single letter
    quiet = [None if l is not None or rng.random() < 0.6 else rng.choice(SYMBOL_LABELS) for l in labels]
    mm.user_defined_controllers = k
    slots = []
    for i in range(k):
        mi, ci, lo, hi, name = pool[i]
        mm.mappings.values[i] = mm.Mapping((mi, ci))
        mm.user_defined[i].label = labels[i] if labels[i] is not None else quiet[i]
        slots.append({"label": labels[i], "alias": None if labels[i] is None else "u_" + labels[i].lower(), "lo": lo, "hi": hi, "target": name,
                      "text": labels[i] if labels[i] is not None else quiet[i]})
    mm.update_user_defined_controllers()
    return mm, slots


def values(mm, k):
    return [getattr(mm, f"user_defined_{i + 1}") for i in range(k)]


def probe(res, prop, mm, slots, rng, desc, others=(), domain=False, where="constructed"):
    """Assign through every alias; `others` are (metamodule, slots) pairs that must not notice."""
    from rv.errors import ControllerValueError
    k = len(slots)
    order = [i for i, s in enumerate(slots) if s["alias"]]
    rng.shuffle(order)
    seen = set()
    for i in order:
        s = slots[i]
        if s["alias"] in seen:
            continue
        seen.add(s["alias"])
        first = next(j for j, t in enumerate(slots) if t["alias"] == s["alias"])   # the first carrier of a label answers to it
        s = slots[first]
        before = values(mm, k)
        before_others = [values(o, len(os_)) for o, os_ in others]
        v = rng.randint(s["lo"], s["hi"])
        if v == before[first]:
            v = s["lo"] if v != s["lo"] else s["hi"]
        case = dict(desc, where=where, labels=[t["label"] for t in slots], alias=s["alias"], slot=first + 1, value=v, target=s["target"])
        res.count("alias_assignments")
        res.hist("alias_slot_position", first)
        try:
            setattr(mm, s["alias"], v)
        except ControllerValueError as e:
            res.violation(f"{prop}:alias-in-range-rejected", f"{where}: {s['alias']}={v} (slot {first + 1} -> {s['target']} {s['lo']}..{s['hi']}) raised {e!r}", case)
            continue
        after = values(mm, k)
        try:
            back = getattr(mm, s["alias"])
        except AttributeError:
            back = "<AttributeError>"
        want = list(before)
        want[first] = v
        if after != want or back != v:
            moved = [j + 1 for j in range(k) if after[j] != before[j]]
            res.violation(f"{prop}:alias-wrong-controller", f"{where}: {s['alias']}={v} should land on user_defined_{first + 1} only; slots changed: {moved}, "
                                                          f"alias reads {back!r} (labels {case['labels']})", case)
            continue
        for (o, os_), b in zip(others, before_others):
            if values(o, len(os_)) != b:
                res.violation(f"{prop}:alias-crosstalk", f"{where}: assigning {s['alias']} on one MetaModule changed the exposed values of another", case)
        if domain:
            for bad in (s["hi"] + 1, s["lo"] - 1, s["hi"] + 1000):
                res.count("alias_out_of_range_assignments")
                try:
                    setattr(mm, s["alias"], bad)
                except ControllerValueError:
                    if values(mm, k) != after:
                        res.violation(f"{prop}:alias-rejected-but-stored", f"{where}: rejected {s['alias']}={bad} changed {after} -> {values(mm, k)}", dict(case, bad=bad))
                except Exception as e:
                    res.violation(f"{prop}:alias-wrong-exception:{type(e).__name__}", f"{where}: {s['alias']}={bad} raised {e!r}", dict(case, bad=bad))
                else:
                    res.violation(f"{prop}:alias-out-of-range-accepted", f"{where}: {s['alias']}={bad} outside {s['lo']}..{s['hi']} ({s['target']}) accepted; "
                                                                       f"slots now {values(mm, k)}", dict(case, bad=bad))
                    try:
                        setattr(mm, s["alias"], v)
                    except Exception:
                        pass
    # a label is changed afterwards (the number of exposed controllers stays): the NEW word is the alias from now on
    if order:
        from rv.errors import ControllerValueError as _CVE
        i = order[0]
        s = slots[i]
        first = next(j for j, t in enumerate(slots) if t["alias"] == s["alias"])
        s = slots[first]
        new_word = "Renamed" + str(first)
        mm.user_defined[first].label = new_word
        v = (s["lo"] + s["hi"]) // 2 + 1
        case = dict(desc, where=where, relabelled_slot=first + 1, new_label=new_word)
        res.count("alias_relabel_probes")
        try:
            setattr(mm, "u_" + new_word.lower(), v)
            got = getattr(mm, f"user_defined_{first + 1}")
        except Exception as e:
            res.violation(f"{prop}:alias-after-relabel:{type(e).__name__}", f"{where}: slot {first + 1} relabelled {new_word!r}; u_{new_word.lower()} = {v} raised {e!r}", case)
        else:
            if got != v:
                res.violation(f"{prop}:alias-wrong-controller", f"{where}: slot {first + 1} relabelled {new_word!r}; u_{new_word.lower()} = {v} left user_defined_{first + 1} at {got}", case)
            elif domain:
                try:
                    setattr(mm, "u_" + new_word.lower(), s["hi"] + 1000000)
                except _CVE:
                    pass
                except Exception:
                    pass
                else:
                    res.violation(f"{prop}:alias-out-of-range-accepted", f"{where}: after relabelling, u_{new_word.lower()} = {s['hi'] + 1000000} (range {s['lo']}..{s['hi']}) is accepted", case)
        mm.user_defined[first].label = s.get("text", s["label"])
    # the module's own controllers stay what they are, whatever the labels look like
    try:
        v = rng.randint(0, 1024)
        mm.volume = v
        if mm.volume != v:
            res.violation(f"{prop}:readback:MetaModule.volume:with-labels", f"{where}: MetaModule.volume = {v} reads {mm.volume} on a module with labels {[t['label'] for t in slots]}", dict(desc, where=where))
    except Exception as e:
        res.violation(f"{prop}:inrange-raised:MetaModule.volume:with-labels", f"{where}: MetaModule.volume = {v} raised {e!r} (labels on the module: {[c.label for c in mm.user_defined[:k]]})", dict(desc, where=where))
    # a name that is nobody's label is not an alias
    for ghost in ("u_nosuchlabel",):
        try:
            getattr(mm, ghost)
        except AttributeError:
            res.count("alias_unknown_names_refused")
        else:
            res.violation(f"{prop}:alias-unknown-name-resolves", f"{where}: {ghost} resolved although no controller carries that label", dict(desc, where=where))


def reloaded(mm):
    import rv.api as api
    from . import workload
    return workload.load(api.Synth(mm).read()).module


def run(res, prop, rng, n, domain=False, pairs=False):
    """n scenarios; with `pairs`, two MetaModules whose equal labels sit on different slots are probed alternately."""
    for s in range(n):
        mm, slots = build(rng)
        desc = {"scenario": s, "workload": "alias"}
        res.case(("alias", tuple(t["label"] for t in slots), tuple(t["target"] for t in slots)))
        others = []
        if pairs:
            # the partner carries the same labels, rotated to other slots
            labs = [t["label"] for t in slots]
            rot = labs[1:] + labs[:1] if len(labs) > 1 else labs
            mm2, slots2 = build(rng, labels=rot, k=len(labs))
            others = [(mm2, slots2)]
            probe(res, prop, mm, slots, rng, desc, others=others, domain=domain)
            probe(res, prop, mm2, slots2, rng, desc, others=[(mm, slots)], domain=domain, where="constructed-partner")
            probe(res, prop, mm, slots, rng, desc, others=others, domain=domain, where="constructed-again")
        else:
            probe(res, prop, mm, slots, rng, desc, domain=domain)
        if s % 2 == 0:
            try:
                mm_l = reloaded(mm)
            except Exception:
                res.count("alias_reload_failed")
                continue
            if [c.label for c in mm_l.user_defined[:len(slots)]] == [t.get("text", t["label"]) for t in slots]:
                probe(res, prop, mm_l, slots, rng, desc, others=others, domain=domain, where="loaded")
            else:
                res.count("alias_labels_not_restored")
