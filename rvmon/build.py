"""AD -> real rv objects through randomised histories of PUBLIC API calls.

Every choice (constructor keyword vs later setattr, new_module vs attach_module vs +=,
operator vs method for links, ...) is drawn from the supplied rng and recorded in ``history``.
"""
import struct

from . import spec


def _enum_arg(rng, cls, sc, value):
    """An enum controller value as int, member or name (all three are accepted by the API)."""
    c = rng.random()
    ecls = getattr(cls, sc.enum)
    if c < 0.34:
        return value
    if c < 0.67:
        return ecls(value)
    return ecls(value).name


COLLIDING = {"finetune", "relative_note", "scale"}


def build_module(ad, ctx, rng, history=None, depth=0):
    import rv.api  # noqa
    from rv.cmidmap import MidiMessageType, Slope
    from rv.modules import MODULE_CLASSES

    history = history if history is not None else []
    mtype = ad["type"]
    cls = MODULE_CLASSES[mtype]
    t = spec.by_mtype()[mtype]
    ctl_names = set(ad["controllers"])
    kw, later = {}, []
    # ---- controllers: keyword or later setattr
    for sc in t.controllers:
        if sc.name not in ad["controllers"]:
            continue
        v = ad["controllers"][sc.name]
        arg = _enum_arg(rng, cls, sc, v) if sc.kind == "enum" else v
        if rng.random() < 0.5:
            kw[sc.name] = arg
        else:
            later.append((sc.name, arg))
    rng.shuffle(later)
    # ---- options: exclusive groups always by setattr, False before True (see DESIGN 6)
    opt_later = []
    group = set()
    for o in t.options:
        if o.exclusive_of:
            group.add(o.name)
            group.update(o.exclusive_of)
    for o in t.options:
        v = ad["options"][o.name]
        if o.name in group or rng.random() < 0.5:
            opt_later.append((o.name, v))
        else:
            kw[o.name] = v
    opt_later.sort(key=lambda nv: (nv[0] in group and bool(nv[1])))
    # ---- common fields
    common_later = []
    for f in ("name", "color", "midi_in_always", "midi_in_channel", "midi_out_name", "midi_out_channel",
              "midi_out_bank", "midi_out_program") + (("x", "y", "layer", "visualization") if ctx == "project" else ()):
        if f == "name" and mtype == "Output":
            continue
        if rng.random() < 0.5:
            kw[f] = ad[f]
        else:
            common_later.append((f, ad[f]))
    for f, attr in (("finetune", "mod_finetune"), ("relative_note", "mod_relative_note"), ("scale", "scale")):
        if f in ctl_names:
            common_later.append((("mod_scale" if f == "scale" else attr), ad[f]))  # a same-named controller shadows the keyword
        elif rng.random() < 0.5:
            kw[f] = ad[f]
        else:
            common_later.append((attr, ad[f]))
    # ---- payload keywords
    pl = ad.get("payload") or {}
    payload_later = True
    if mtype == "MetaModule":
        emb = build_project(pl["project"], rng, history, depth + 1)
        kw["project"] = emb
        for i, v in pl["unmapped_values"].items():
            if pl["mappings"][i][0] == 0:
                kw[f"user_defined_{i + 1}"] = v
    if mtype == "Vorbis player" and rng.random() < 0.5:
        kw["data"] = pl["data"] if pl["data"] or rng.random() < 0.5 else None
        payload_later = False
    if mtype == "MultiSynth" and rng.random() < 0.4:
        kw["nv_values"] = list(pl["nv_curve"])
        kw["vv_values"] = list(pl["vv_curve"])
    if mtype == "WaveShaper" and rng.random() < 0.4:
        kw["values"] = list(pl["curve"])
    if mtype == "FMX" and rng.random() < 0.4:
        kw["custom_waveform_values"] = list(pl["custom_waveform"])
    if mtype == "MultiCtl" and rng.random() < 0.4:
        kw["curve"] = list(pl["curve"])
        kw["mappings"] = [tuple(m) for m in pl["mappings"]]
    if mtype == "Generator" and rng.random() < 0.4:
        kw["samples"] = list(pl["drawn_waveform"])
    history.append(("construct", mtype, sorted(kw)))
    if mtype == "Output":
        raise ValueError("Output is built by the project")
    m = cls(**kw)
    for name, v in later:
        setattr(m, name, v)
    for name, v in opt_later:
        setattr(m, name, v)
    for name, v in common_later:
        setattr(m, name, v)
    m.flags = ad["flags"]
    history.append(("setattr", [n for n, _ in later + opt_later + common_later]))
    # ---- controller MIDI bindings
    for name, (mt, ch, sl, par) in ad["cmid"].items():
        if (mt, ch, sl, par) == (0, 0, 0, 0) and rng.random() < 0.7:
            continue
        cm = m.controller_midi_maps[name]
        cm.message_type = MidiMessageType(mt)
        cm.channel = ch
        cm.slope = Slope(sl)
        cm.message_parameter = par
    # ---- payload
    apply_payload(m, mtype, pl, rng, history, depth)
    return m


def put_values(chunk, values, rng, history):
    """Fill an array chunk the ways applications do: a new list, or the existing list edited in place (possibly after the
    chunk's own reset())."""
    how = rng.randrange(8)
    if how == 0:
        chunk.reset()
        for i, v in enumerate(values):
            chunk.values[i] = v
        history.append(("array-reset-then-in-place",))
    elif how == 1:
        chunk.values[:] = values
        history.append(("array-slice-assign",))
    elif how == 2:
        chunk.reset()
        chunk.values = values
    else:
        chunk.values = values


def apply_payload(m, mtype, pl, rng, history, depth):
    if mtype == "MultiSynth":
        put_values(m.nv_curve, list(pl["nv_curve"]), rng, history)
        put_values(m.vv_curve, list(pl["vv_curve"]), rng, history)
        put_values(m.np_curve, list(pl["np_curve"]), rng, history)
    elif mtype == "MultiCtl":
        put_values(m.curve, list(pl["curve"]), rng, history)
        for i, mp in enumerate(pl["mappings"]):
            m.mappings.values[i] = m.Mapping(tuple(mp))
    elif mtype == "WaveShaper":
        put_values(m.curve, list(pl["curve"]), rng, history)
    elif mtype == "SpectraVoice":
        H = m.HarmonicType
        if rng.random() < 0.5:
            if rng.random() < 0.4:
                # the table OBJECTS are replaced by new ones first (a preset loader swapping whole chunks in)
                for attr in rng.sample(["harmonic_freqs", "harmonic_volumes", "harmonic_widths", "harmonic_types"], rng.randint(1, 4)):
                    setattr(m, attr, type(getattr(m, attr))())
                history.append(("harmonic-table-objects-replaced",))
            for i in range(16):
                h = m.harmonics[i]
                h.freq_hz = pl["harmonic_freqs"][i]
                h.volume = pl["harmonic_volumes"][i]
                h.width = pl["harmonic_widths"][i]
                h.type = H(pl["harmonic_types"][i])
            history.append(("harmonics-via-proxies",))
        else:
            put_values(m.harmonic_freqs, list(pl["harmonic_freqs"]), rng, history)
            put_values(m.harmonic_volumes, list(pl["harmonic_volumes"]), rng, history)
            put_values(m.harmonic_widths, list(pl["harmonic_widths"]), rng, history)
            put_values(m.harmonic_types, [H(v) for v in pl["harmonic_types"]], rng, history)
            if rng.random() < 0.5:
                # ... and afterwards one harmonic is set through its proxy object again
                i = rng.randrange(16)
                h = m.harmonics[i]
                h.freq_hz, h.volume, h.width, h.type = pl["harmonic_freqs"][i], pl["harmonic_volumes"][i], pl["harmonic_widths"][i], H(pl["harmonic_types"][i])
                pl["harmonic_volumes"][i] = (pl["harmonic_volumes"][i] + 1) % 256
                h.volume = pl["harmonic_volumes"][i]
                history.append(("harmonic-proxy-after-array", i))
            history.append(("harmonics-via-arrays",))
    elif mtype in ("Analog generator", "Generator"):
        m.drawn_waveform.samples = list(pl["drawn_waveform"])
    elif mtype == "FMX":
        put_values(m.custom_waveform, list(pl["custom_waveform"]), rng, history)
    elif mtype == "Vorbis player":
        m.data = pl["data"] if pl["data"] or rng.random() < 0.5 else None
    elif mtype == "MetaModule":
        n = pl["count"]
        for i, (mod, ctl) in enumerate(pl["mappings"]):
            m.mappings.values[i] = m.Mapping((mod, ctl))
        if m.user_defined_controllers != n:
            m.user_defined_controllers = n
        for i, label in pl["labels_all"].items():
            if label is not None and rng.random() < 0.3:
                label = _Text(label)            # text is text, whatever str subclass carries it
            m.user_defined[i].label = label
        m.update_user_defined_controllers()
        m.recompute_controller_attachment()
    elif mtype == "Sampler":
        apply_sampler(m, pl, rng, history, depth)


class _Text(str):
    """A str subclass whose str() is NOT its text (like a (str, Enum) member): the text is what counts."""

    def __str__(self):
        return "Text<" + str.__str__(self) + ">"

    __repr__ = __str__


def apply_envelope(e, d):
    only = d.pop("only", None)
    if only is not None:
        # "pristine but one field": the description is completed from the freshly constructed envelope
        for f in ("sustain_point", "loop_start_point", "loop_end_point", "enable", "sustain", "loop", "ctl_index", "gain_pct", "velocity"):
            if f != only:
                d[f] = getattr(e, f)
        if only != "points":
            d["points"] = [tuple(p) for p in e.points]
    e.points = [tuple(p) for p in d["points"]]
    for f in ("sustain_point", "loop_start_point", "loop_end_point", "enable", "sustain", "loop", "ctl_index", "gain_pct", "velocity"):
        setattr(e, f, d[f])


def apply_sampler(m, pl, rng, history, depth):
    import rv.api as api
    for i, sd in pl["samples"].items():
        s = m.Sample()
        s.data = sd["data"]
        s.format = m.Format(sd["format"])
        s.channels = m.Channels(sd["channels"])
        s.loop_type = m.LoopType(sd["loop_type"])
        for f in ("loop_start", "loop_len", "volume", "finetune", "rate", "loop_sustain", "panning", "relative_note",
                  "reserved2", "name", "start_pos"):
            setattr(s, f, sd[f])
        m.samples[i] = s
    if pl["samples"] and rng.random() < 0.12:
        # one Sample OBJECT serving two slots (a shared fallback sample); the description gets the second slot too
        src = rng.choice(sorted(pl["samples"]))
        free = [i for i in range(128) if i not in pl["samples"]]
        if free:
            dst = rng.choice(free)
            m.samples[dst] = m.samples[src]
            pl["samples"][dst] = dict(pl["samples"][src])
            history.append(("sample-object-shared", src, dst))
    apply_envelope(m.volume_envelope, pl["volume_envelope"])
    apply_envelope(m.panning_envelope, pl["panning_envelope"])
    apply_envelope(m.pitch_envelope, pl["pitch_envelope"])
    for e, d in zip(m.effect_control_envelopes, pl["effect_control_envelopes"]):
        apply_envelope(e, d)
    for k, v in zip(list(m.note_samples), pl["note_samples"]):
        m.note_samples[k] = v
    m.vibrato_type = m.VibratoType(pl["vibrato_type"])
    for f in ("vibrato_attack", "vibrato_depth", "vibrato_rate", "volume_fadeout", "instrument_name", "volume_old",
              "ins_finetune", "ins_relative_note", "editor_cursor", "editor_selected_size", "version", "max_version",
              "unused1", "unused2", "unused3", "unused4", "unused5", "unused6"):
        setattr(m, f, pl[f])
    if pl["effect"] is not None:
        em = build_module(pl["effect"]["module"], "synth", rng, history, depth + 1)
        syn = api.Synth(em)
        syn.sunsynth_version = tuple(pl["effect"]["sunsynth_version"])
        m.effect = syn


def build_pattern(ad, rng):
    import rv.api as api
    if ad is None:
        return None
    if ad["kind"] == "clone":
        q = api.PatternClone(source=ad["source"])
        q.flags_PFFF = ad["flags_PFFF"]
        if rng.random() < 0.5:
            q = api.PatternClone(source=ad["source"], flags_PFFF=ad["flags_PFFF"], x=ad["x"], y=ad["y"])
        else:
            q.x, q.y = ad["x"], ad["y"]
        return q
    kw = {"tracks": ad["tracks"], "lines": ad["lines"]}
    later = []
    for f in ("name", "y_size", "flags_PFLG", "icon", "fg_color", "bg_color", "flags_PFFF", "x", "y"):
        if rng.random() < 0.5:
            kw[f] = ad[f]
        else:
            later.append(f)
    if rng.random() < 0.25:
        # constructed with the default size, the real size assigned afterwards (nothing has looked at the cells yet)
        kw.pop("tracks"), kw.pop("lines")
        q = api.Pattern(**kw)
        if rng.random() < 0.5:
            # ... but the new object has been printed / logged (formatting is looking, not touching)
            rng.choice((repr, str, lambda o: f"{o}", lambda o: "%s %r" % (o, o), lambda o: (hash(o) if o.__hash__ else None, o == o, bool(o))))(q)
        if rng.random() < 0.5:
            q.tracks, q.lines = ad["tracks"], ad["lines"]
        else:
            q.lines, q.tracks = ad["lines"], ad["tracks"]
    else:
        q = api.Pattern(**kw)
    for f in later:
        setattr(q, f, ad[f])
    cells = ad["cells"]
    if rng.random() < 0.5:
        q.raw_data = cells
    else:
        from rv.note import NOTECMD
        for ln in range(ad["lines"]):
            for tr in range(ad["tracks"]):
                off = (ln * ad["tracks"] + tr) * 8
                note, vel, module, ctl, val = struct.unpack("<BBHHH", cells[off:off + 8])
                n = q.data[ln][tr]
                if rng.random() < 0.5:
                    n.note, n.vel, n.module, n.ctl, n.val = NOTECMD(note), vel, module, ctl, val
                else:
                    n.note, n.vel, n.module = NOTECMD(note), vel, module
                    n.controller, n.effect = ctl >> 8, ctl & 0xFF
                    n.val_xx, n.val_yy = val >> 8, val & 0xFF
    return q


def apply_common(m, ad, ctx):
    for f in ("color", "midi_in_always", "midi_in_channel", "midi_out_name", "midi_out_channel", "midi_out_bank", "midi_out_program"):
        setattr(m, f, ad[f])
    m.mod_finetune = ad["finetune"]
    m.mod_relative_note = ad["relative_note"]
    m.scale = ad["scale"]
    m.flags = ad["flags"]
    if ctx == "project":
        m.x, m.y, m.layer, m.visualization = ad["x"], ad["y"], ad["layer"], ad["visualization"]


def build_project(ad, rng, history=None, depth=0):
    import rv.api as api
    history = history if history is not None else []
    p = api.Project()
    for f in ("name", "initial_bpm", "initial_tpl", "global_volume", "time_grid", "time_grid2", "flags", "sunvox_version",
              "based_on_version", "modules_scale", "modules_zoom", "modules_x_offset", "modules_y_offset", "modules_layer_mask",
              "modules_current_layer", "timeline_position", "restart_position", "selected_module", "selected_generator",
              "current_pattern", "current_track", "current_line", "receive_sync_midi", "receive_sync_other"):
        setattr(p, f, ad[f])
    apply_common(p.output, ad["modules"][0], "project")
    gap = False
    for i, mad in enumerate(ad["modules"][1:], 1):
        if mad is None:
            p.attach_module(None)
            gap = True
            history.append(("attach_module", None))
            continue
        m = build_module(mad, "project", rng, history, depth)
        if gap:
            p.attach_module(m, loading=True)  # keeps the interior empty position (public parameter)
            how = "attach_module(loading=True)"
        else:
            how = rng.choice(("attach_module", "iadd"))
            if how == "attach_module":
                p.attach_module(m)
            else:
                p += m
        history.append((how, mad["type"]))
        assert m.index == i, (m.index, i)
    # links
    for f, t, dis in ad.get("link_ops", []):
        fm, tm = p.modules[f], p.modules[t]
        form = rng.choice(("method", "rshift", "lshift"))
        if form == "method":
            if not dis:
                p.connect(fm, tm)
            else:
                side = rng.choice(("f", "t", "both"))
                p.connect(~fm if side in ("f", "both") else fm, ~tm if side in ("t", "both") else tm)
        elif form == "rshift":
            fm >> (~tm if dis else tm)
        else:
            tm << (~fm if dis else fm)
        history.append(("link", f, t, dis, form))
    # patterns
    for pad in ad["patterns"]:
        q = build_pattern(pad, rng)
        if q is None or rng.random() < 0.5:
            p.attach_pattern(q)
        else:
            p += q
    return p


# ------------------------------------------------------------------ expectations
def utf8_prefix(name, limit=32):
    """Longest prefix of ``name`` whose UTF-8 form fits ``limit`` bytes (documented module-name limit)."""
    out = ""
    n = 0
    for ch in name:
        k = len(ch.encode("utf8"))
        if n + k > limit:
            break
        out += ch
        n += k
    return out


def model_links(n_modules, ops):
    """Link tables denoted by a sequence of single-pair requests (append on connect, blank on disconnect)."""
    tabs = [{"in": [], "in_slots": [], "out": [], "out_slots": []} for _ in range(n_modules)]
    for f, t, dis in ops:
        ti, fo = tabs[t], tabs[f]
        if dis:
            if f in ti["in"]:
                a = ti["in"].index(f)
                b = fo["out"].index(t)
                ti["in"][a] = -1
                ti["in_slots"][a] = -1
                fo["out"][b] = -1
                fo["out_slots"][b] = -1
        elif f not in ti["in"]:
            a, b = len(ti["in"]), len(fo["out"])
            ti["in"].append(f)
            fo["out"].append(t)
            ti["in_slots"].append(b)
            fo["out_slots"].append(a)
    return tabs


def expected_module(mad, ctx):
    """AD -> the snapshot the built module must show (fields the AD determines)."""
    d = {k: v for k, v in mad.items() if k not in ("payload",)}
    if mad["type"] == "Output":
        d["name"] = "Output"
    pl = mad.get("payload")
    if mad["type"] == "MetaModule":
        n = pl["count"]
        d["payload"] = {"project": expected_project(pl["project"]),
                        "mappings": [tuple(x) for x in pl["mappings"]],
                        "labels": {i: s for i, s in pl["labels_all"].items() if i < n},
                        "attached_user_controllers": list(range(n)),
                        "count": n}
    elif mad["type"] == "Sampler":
        d["payload"] = dict(pl)
        if pl["effect"] is not None:
            d["payload"]["effect"] = {"kind": "synth", "sunsynth_version": tuple(pl["effect"]["sunsynth_version"]),
                                      "module": expected_module(pl["effect"]["module"], "synth")}
    else:
        d["payload"] = pl
    return d


def expected_project(ad):
    d = {k: v for k, v in ad.items() if k not in ("modules", "patterns", "link_ops")}
    tabs = model_links(len(ad["modules"]), ad.get("link_ops", []))
    mods = []
    for i, m in enumerate(ad["modules"]):
        if m is None:
            mods.append(None)
            continue
        e = expected_module(m, "project")
        e["links"] = tabs[i]
        mods.append(e)
    d["modules"] = mods
    d["patterns"] = list(ad["patterns"])
    return d


GATE_IGNORE = ("user_values_raw", "loaded_sunvox_version", "loaded_sunsynth_version", "/grid")


def gate_diff(expected, observed):
    """Differences between what the AD asked for and what the built object shows (ignoring derived fields)."""
    from .snapshot import diff
    out = []
    for path, a, b in diff(expected, observed, limit=40):
        if any(ig in path for ig in GATE_IGNORE):
            continue
        if "/controllers/user_defined_" in path:
            continue
        out.append((path, a, b))
    return out


# ------------------------------------------------------------------ normalisation for round trips
def norm(s, side):
    """Apply exactly the storage limits the properties name (DESIGN 1.4). side: 'before' | 'after'."""
    if s is None:
        return None
    kind = s.get("kind")
    if kind == "project":
        d = dict(s)
        d["file_version"] = tuple(s["sunvox_version"] if side == "before" else s["loaded_sunvox_version"])
        d.pop("sunvox_version")
        d.pop("loaded_sunvox_version")
        mods = [norm_module(m, side) for m in s["modules"]]
        while mods and mods[-1] is None:
            mods.pop()
        d["modules"] = mods
        # the shape of the live cell grid is an in-memory observation (purity checks); files carry lines/tracks/cells
        d["patterns"] = [({k: v for k, v in q.items() if k != "grid"} if isinstance(q, dict) else q) for q in s["patterns"]]
        return d
    if kind == "synth":
        d = dict(s)
        d["file_version"] = tuple(s["sunsynth_version"] if side == "before" else s["loaded_sunsynth_version"])
        d.pop("sunsynth_version")
        d.pop("loaded_sunsynth_version")
        d["module"] = norm_module(s["module"], side)
        return d
    raise ValueError(kind)


def _trim(a, b):
    a, b = list(a), list(b)
    while a and a[-1] == -1 and (not b or len(b) < len(a) or b[-1] == -1):
        a.pop()
        if len(b) > len(a):
            b.pop()
    return a, b


def norm_module(m, side):
    if m is None:
        return None
    d = dict(m)
    d["name"] = utf8_prefix(m["name"])
    d["midi_out_name"] = m["midi_out_name"] or None
    if "links" in m:
        i, isl = _trim(m["links"]["in"], m["links"]["in_slots"])
        o, osl = _trim(m["links"]["out"], m["links"]["out_slots"])
        d["links"] = {"in": i, "in_slots": isl, "out": o, "out_slots": osl}
    pl = m.get("payload") or {}
    if m["type"] == "MetaModule":
        pl = dict(pl)
        pl["project"] = norm(pl["project"], side)
        d["payload"] = pl
    elif m["type"] == "Sampler":
        pl = dict(pl)
        if pl.get("effect") is not None:
            pl["effect"] = norm(pl["effect"], side)
        # the two text fields of the instrument are 22 bytes wide: the file holds the first 22 bytes, NUL-stripped
        if isinstance(pl.get("instrument_name"), (bytes, bytearray)):
            pl["instrument_name"] = bytes(pl["instrument_name"][:22]).rstrip(b"\0")
        if isinstance(pl.get("samples"), dict):
            ss = {}
            for k, v in pl["samples"].items():
                if isinstance(v, dict) and isinstance(v.get("name"), (bytes, bytearray)):
                    v = dict(v, name=bytes(v["name"][:22]).rstrip(b"\0"))
                ss[k] = v
            pl["samples"] = ss
        d["payload"] = pl
    return d


# ------------------------------------------------------------------ further API use after the description has been built
def api_noise(p, rng, history, max_module=0xFFFF):
    """Random additional public-API calls on a built project (the state they reach is captured by the snapshot
    taken afterwards): cloned modules attached, MultiCtl.macro bundles, bulk pattern edits, Note.mod, list
    connects, layout.  Returns the number of calls made."""
    import rv.api as api
    from rv.note import NOTECMD
    from rv.modules.multictl import MultiCtl
    n = 0
    for _ in range(rng.randint(1, 5)):
        live = [m for m in p.modules if m is not None and m.index != 0]
        kind = rng.choice(("clone-attach", "macro", "bulk-fn", "bulk-gen", "note-mod", "list-connect", "layout", "reflect", "fresh-in-place"))
        try:
            if kind == "fresh-in-place":
                # a brand-new module whose list payloads (never assigned) are changed element by element
                cls = rng.choice([api.m.Generator, api.m.AnalogGenerator, api.m.MultiSynth, api.m.WaveShaper, api.m.SpectraVoice, api.m.MultiCtl])
                fm = p.new_module(cls)
                if hasattr(fm, "drawn_waveform"):
                    for i in rng.sample(range(32), 3):
                        fm.drawn_waveform.samples[i] = rng.randint(-128, 127)
                for attr in ("nv_curve", "vv_curve", "curve"):
                    ch = getattr(fm, attr, None)
                    if ch is not None and hasattr(ch, "values") and ch.values:
                        ch.values[rng.randrange(len(ch.values))] = rng.randint(0, 200)
                if hasattr(fm, "harmonics"):
                    fm.harmonics[rng.randrange(16)].volume = rng.randint(0, 255)
            elif kind == "clone-attach" and live:
                m = rng.choice(live)
                c = m.clone()
                if rng.random() < 0.5:
                    p += c
                else:
                    p.attach_module(c)
                c.x, c.y, c.layer = rng.randint(-1000, 1000), rng.randint(-1000, 1000) | 1, rng.randint(0, 7)
            elif kind == "macro" and live:
                # generated MultiCtls carry arbitrary 32-bit mapping windows (legal file content, but outside the
                # window domain of C20): driving them could legitimately raise, so they are not used as macro targets
                cands = [m for m in live if not isinstance(m, MultiCtl)]
                picks = rng.sample(cands, min(len(cands), rng.randint(1, 3)))
                pairs = []
                for m in picks:
                    names = [k for k, c in type(m).controllers.items() if c.attached(m) and not k.startswith("user_defined")]
                    if names:
                        pairs.append((m, rng.choice(names)))
                if pairs:
                    mkw = dict(x=rng.randint(-500, 500), y=rng.randint(-500, 500) | 1, initial=rng.choice([None, 0, 32768, rng.randint(0, 32768)]))
                    if rng.random() < 0.5:
                        mkw["name"] = "macro"           # every keyword of the helper is optional
                    MultiCtl.macro(p, *pairs, **mkw)
            elif kind in ("bulk-fn", "bulk-gen"):
                pats = [q for q in p.patterns if isinstance(q, api.Pattern)]
                if pats:
                    q = rng.choice(pats)
                    def mk():
                        return api.Note(note=NOTECMD(rng.choice([0, 1, 61, 120, 128, 140])), vel=rng.randint(0, 129),
                                        module=rng.randint(0, max_module), ctl=rng.randrange(65536), val=rng.randrange(65536))
                    if kind == "bulk-fn":
                        q.set_via_fn(lambda pat, ln, tr: mk())
                    else:
                        cells = [(ln, tr) for ln in range(q.lines) for tr in range(q.tracks)]
                        rng.shuffle(cells)
                        cells = cells[:rng.randint(0, min(len(cells), 12))]
                        q.set_via_gen(lambda pat, new: ((ln, tr, mk()) for ln, tr in cells))
            elif kind == "note-mod":
                pats = [q for q in p.patterns if isinstance(q, api.Pattern)]
                if pats and live:
                    q = rng.choice(pats)
                    q.data[rng.randrange(q.lines)][rng.randrange(q.tracks)].mod = rng.choice(live)
            elif kind == "list-connect" and len(live) >= 2:
                a = rng.sample(live, rng.randint(1, min(3, len(live))))
                b = rng.sample(live + [p.output], rng.randint(1, min(3, len(live))))
                if rng.random() < 0.5:
                    p.connect(a, [~x if rng.random() < 0.3 else x for x in b])
                else:
                    a[0] >> b
            elif kind == "layout":
                if any(m is not None and m.in_links for m in p.modules):
                    p.layout(seed=rng.randrange(1000))
            elif kind == "reflect":
                mcs = [m for m in live if isinstance(m, MultiCtl) and m.out_links]
                if mcs:
                    mc = rng.choice(mcs)
                    try:
                        mc.reflect(0, propagate=False)
                    except (IndexError, ZeroDivisionError, TypeError):
                        pass
        except api.m.MultiCtl.__mro__[0].__class__ if False else Exception as e:  # noqa
            history.append(("noise-raised", kind, repr(e)[:80]))
            raise
        history.append(("noise", kind))
        n += 1
    return n
