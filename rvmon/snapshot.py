"""Real rv objects -> abstract description (AD): the observable-state catalogue.

Reads PUBLIC attributes only; never calls rv serialisation.  The AD is a nest of dict / list /
tuple / int / bool / str / bytes / float, comparable with ``==``.  Only authoritative serialised
state is recorded (no redundant views such as SpectraVoice harmonic proxies or Note sub-fields).
"""
import enum


def _v(x):
    return x.value if isinstance(x, enum.Enum) else x


PROJECT_FIELDS = [
    "name", "initial_bpm", "initial_tpl", "global_volume", "time_grid", "time_grid2", "flags",
    "sunvox_version", "based_on_version", "modules_scale", "modules_zoom", "modules_x_offset",
    "modules_y_offset", "modules_layer_mask", "modules_current_layer", "timeline_position",
    "restart_position", "selected_module", "selected_generator", "current_pattern", "current_track",
    "current_line", "receive_sync_midi", "receive_sync_other",
]

COMMON_FIELDS = ["name", "flags", "color", "midi_in_always", "midi_in_channel", "midi_out_channel",
                 "midi_out_bank", "midi_out_program"]
PROJECT_ONLY_FIELDS = ["x", "y", "layer"]

PATTERN_FIELDS = ["name", "tracks", "lines", "y_size", "flags_PFLG", "icon", "fg_color", "bg_color", "flags_PFFF", "x", "y"]
CLONE_FIELDS = ["source", "flags_PFFF", "x", "y"]

SAMPLE_FIELDS = ["loop_start", "loop_len", "volume", "finetune", "rate", "loop_sustain", "panning",
                 "relative_note", "reserved2", "name", "start_pos"]
ENV_FIELDS = ["sustain_point", "loop_start_point", "loop_end_point", "enable", "sustain", "loop",
              "ctl_index", "gain_pct", "velocity"]
SAMPLER_SCALARS = ["vibrato_attack", "vibrato_depth", "vibrato_rate", "volume_fadeout", "instrument_name",
                   "volume_old", "ins_finetune", "ins_relative_note", "editor_cursor", "editor_selected_size",
                   "version", "max_version", "unused1", "unused2", "unused3", "unused4", "unused5", "unused6"]


def snap_project(p, loaded_version=False):
    d = {"kind": "project"}
    for f in PROJECT_FIELDS:
        v = getattr(p, f)
        if isinstance(v, list):
            v = tuple(v)
        d[f] = _v(v) if not isinstance(v, tuple) else tuple(v)
    d["loaded_sunvox_version"] = tuple(p.loaded_sunvox_version)
    d["modules"] = [None if m is None else snap_module(m, "project") for m in p.modules]
    d["patterns"] = [snap_pattern(q) for q in p.patterns]
    return d


def snap_synth(s):
    return {"kind": "synth", "sunsynth_version": tuple(s.sunsynth_version),
            "loaded_sunsynth_version": tuple(s.loaded_sunsynth_version),
            "module": None if s.module is None else snap_module(s.module, "synth")}


def snap_pattern(q):
    if q is None:
        return None
    if hasattr(q, "tracks"):
        d = {"kind": "pattern"}
        for f in PATTERN_FIELDS:
            v = getattr(q, f)
            d[f] = tuple(v) if isinstance(v, (list, tuple)) else v
        # shape of the live cell grid, looked at BEFORE the byte image is asked for (producing the image must not reshape it)
        rows = q.data
        d["grid"] = (len(rows), tuple(sorted({len(r) for r in rows})))
        d["cells"] = q.raw_data
        return d
    d = {"kind": "clone"}
    for f in CLONE_FIELDS:
        d[f] = _v(getattr(q, f))
    return d


def scale_of(m):
    """The module display scale (kept beside a same-named controller on Smooth)."""
    if hasattr(m, "mod_scale"):
        return m.mod_scale
    return m.scale


def snap_cmid(cm):
    return (_v(cm.message_type), cm.channel, _v(cm.slope), cm.message_parameter)


def snap_module(m, ctx="project"):
    d = {"type": m.mtype}
    for f in COMMON_FIELDS:
        v = getattr(m, f)
        d[f] = tuple(v) if isinstance(v, (list, tuple)) else _v(v)
    d["midi_out_name"] = m.midi_out_name or None
    d["finetune"] = m.mod_finetune
    d["relative_note"] = m.mod_relative_note
    d["scale"] = scale_of(m)
    if ctx == "project":
        for f in PROJECT_ONLY_FIELDS:
            d[f] = getattr(m, f)
        d["visualization"] = int(m.visualization)
        d["links"] = {"in": list(m.in_links), "in_slots": list(m.in_link_slots),
                      "out": list(m.out_links), "out_slots": list(m.out_link_slots)}
    ctl, cmid = {}, {}
    for name, c in m.controllers.items():
        if c.attached(m):
            ctl[name] = _v(getattr(m, name))
            cmid[name] = snap_cmid(m.controller_midi_maps[name])
    d["controllers"] = ctl
    d["cmid"] = cmid
    d["options"] = {name: _v(getattr(m, name)) for name in m.options}
    d["payload"] = snap_payload(m)
    return d


def snap_envelope(e):
    d = {"points": [tuple(pt) for pt in e.points]}
    for f in ENV_FIELDS:
        d[f] = getattr(e, f)
    return d


def snap_sample(s):
    d = {"data": bytes(s.data), "format": _v(s.format), "channels": _v(s.channels), "loop_type": _v(s.loop_type)}
    for f in SAMPLE_FIELDS:
        d[f] = getattr(s, f)
    return d


def snap_payload(m):
    t = m.mtype
    if t == "MultiSynth":
        return {"nv_curve": list(m.nv_curve.values), "vv_curve": list(m.vv_curve.values), "np_curve": list(m.np_curve.values)}
    if t == "MultiCtl":
        return {"mappings": [(x.min, x.max, x.controller, x.flags, x.future_use2, x.future_use3, x.future_use4, x.future_use5)
                             for x in m.mappings.values],
                "curve": list(m.curve.values)}
    if t == "WaveShaper":
        return {"curve": list(m.curve.values)}
    if t == "SpectraVoice":
        return {"harmonic_freqs": list(m.harmonic_freqs.values), "harmonic_volumes": list(m.harmonic_volumes.values),
                "harmonic_widths": list(m.harmonic_widths.values), "harmonic_types": [_v(x) for x in m.harmonic_types.values]}
    if t in ("Analog generator", "Generator"):
        dw = m.drawn_waveform
        return {"drawn_waveform": list(dw.samples), "drawn_waveform_format": _v(dw.format), "drawn_waveform_freq": dw.freq}
    if t == "FMX":
        return {"custom_waveform": list(m.custom_waveform.values)}
    if t == "Vorbis player":
        return {"data": bytes(m.data or b"")}
    if t == "MetaModule":
        n = m.user_defined_controllers
        return {"project": snap_project(m.project),
                "mappings": [(x.module, x.controller) for x in m.mappings.values],
                "labels": {i: c.label for i, c in enumerate(m.user_defined) if c.attached(m) and c.label is not None},
                "attached_user_controllers": [i for i, c in enumerate(m.user_defined) if c.attached(m)],
                "user_values_raw": {f"user_defined_{i + 1}": m.get_raw(f"user_defined_{i + 1}")
                                    for i, c in enumerate(m.user_defined) if c.attached(m)},
                "count": n}
    if t == "Sampler":
        d = {"samples": {i: snap_sample(s) for i, s in enumerate(m.samples) if s is not None},
             "volume_envelope": snap_envelope(m.volume_envelope),
             "panning_envelope": snap_envelope(m.panning_envelope),
             "pitch_envelope": snap_envelope(m.pitch_envelope),
             "effect_control_envelopes": [snap_envelope(e) for e in m.effect_control_envelopes],
             "note_samples": [m.note_samples[k] for k in m.note_samples],
             "vibrato_type": _v(m.vibrato_type),
             "effect": None if not m.effect else snap_synth(m.effect)}
        for f in SAMPLER_SCALARS:
            d[f] = getattr(m, f)
        return d
    return {}


# ------------------------------------------------------------------ comparison helpers
def diff(a, b, path="", out=None, limit=12):
    """List of (path, a, b) where the two ADs differ."""
    if out is None:
        out = []
    if len(out) >= limit:
        return out
    if isinstance(a, dict) and isinstance(b, dict):
        for k in sorted(set(a) | set(b), key=str):
            if k not in a:
                out.append((f"{path}/{k}", "<absent>", _short(b[k])))
            elif k not in b:
                out.append((f"{path}/{k}", _short(a[k]), "<absent>"))
            else:
                diff(a[k], b[k], f"{path}/{k}", out, limit)
            if len(out) >= limit:
                break
        return out
    if isinstance(a, (list, tuple)) and isinstance(b, (list, tuple)) and not (_scalar_seq(a) and _scalar_seq(b)):
        if len(a) != len(b):
            out.append((f"{path}#len", len(a), len(b)))
            return out
        for i, (x, y) in enumerate(zip(a, b)):
            diff(x, y, f"{path}[{i}]", out, limit)
            if len(out) >= limit:
                break
        return out
    if isinstance(a, float) or isinstance(b, float):
        if not (a == b or (a != a and b != b)):
            out.append((path, _short(a), _short(b)))
        return out
    if a != b or (type(a) is bool) != (type(b) is bool):
        out.append((path, _short(a), _short(b)))
    return out


def _scalar_seq(x):
    return all(isinstance(e, (int, float, str, bytes, bool, type(None))) for e in x)


def _short(x):
    if isinstance(x, (bytes, bytearray)):
        return f"bytes[{len(x)}]:{bytes(x[:24]).hex()}"
    r = repr(x)
    return r if len(r) <= 160 else r[:157] + "..."


def field_key(path):
    """Normalise a diff path into a mechanism key: drop indices, keep field names."""
    import re
    p = re.sub(r"\[\d+\]", "[]", path)
    p = re.sub(r"/user_defined_\d+", "/user_defined_N", p)
    p = re.sub(r"/samples/\d+", "/samples/N", p)
    p = re.sub(r"/labels/\d+", "/labels/N", p)
    return p
