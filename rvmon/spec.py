"""Independent reader of specs/fileformat.yaml.  MUST NOT import rv or genrv.

It yields plain data describing every module type: controllers (kind, bounds,
enum members after the documented identifier mangling, default, unit tables),
options (byte/bit/size/...), array chunks.  All oracles that need "what the
specification says" go through this module.
"""
import yaml

from . import env

_cache = {}


def mangle(key: str) -> str:
    """The documented identifier mangling of enum keys (re-implemented, not imported)."""
    key = str(key)
    for a, b in (("/", "_div_"), ("*", "_mul_"), (".", "_"), ("+", "_plus_"),
                 ("-", "_neg_"), ("^", "_pow_")):
        key = key.replace(a, b)
    if key[0].isdigit():
        key = "_" + key
    elif key[0] == "_":
        key = key[1:]
    while "__" in key:
        key = key.replace("__", "_")
    return key.lower()


class Ctl:
    __slots__ = ("name", "number", "kind", "min", "max", "enum", "members", "default",
                 "depends_on", "ranges", "attached")

    def __repr__(self):
        return f"<Ctl {self.name} #{self.number} {self.kind}>"

    # ---- independent arithmetic of the stored / pattern encodings (C10) ----
    def bounds(self, unit_member=None):
        if self.kind == "dependent":
            if unit_member is None:
                return next(iter(self.ranges.values()))
            return self.ranges[unit_member]
        return (self.min, self.max)

    def domain(self, unit_member=None):
        """All legal user values as a list (python ints / bools / enum int values)."""
        if self.kind == "bool":
            return [False, True]
        if self.kind == "enum":
            return [v for _n, v in self.members]
        lo, hi = self.bounds(unit_member)
        return range(lo, hi + 1)

    def stored(self, v, unit_member=None):
        if self.kind == "bool":
            return int(v)
        if self.kind == "enum":
            return int(v)
        if self.kind == "no_offset":
            return v
        lo, _hi = self.bounds(unit_member)
        return v - lo if lo < 0 else v

    def default_value(self):
        """Default as a comparable python value (enum -> int value)."""
        if self.kind == "enum":
            d = mangle(self.default)
            for n, v in self.members:
                if n == d:
                    return v
            raise KeyError((self.name, self.default))
        if self.kind == "bool":
            return bool(self.default)
        return self.default


class Opt:
    __slots__ = ("name", "byte", "bit", "size", "default", "number", "min", "max",
                 "inverted", "exclusive_of", "enum", "members")

    def __repr__(self):
        return f"<Opt {self.name} {self.byte}.{self.bit}/{self.size}>"


class MType:
    __slots__ = ("cls_name", "mtype", "group", "default_flags", "enums", "controllers",
                 "options", "options_chnm", "chunks")

    def ctl(self, name):
        for c in self.controllers:
            if c.name == name:
                return c
        raise KeyError(name)


def load(path=None):
    path = path or env.SPEC_PATH
    if path in _cache:
        return _cache[path]
    with open(path) as f:
        raw = yaml.safe_load(f)
    out = {}
    for cls_name, m in raw["module_types"].items():
        t = MType()
        t.cls_name = cls_name
        t.mtype = m.get("type") or cls_name
        t.group = m.get("group")
        t.default_flags = m.get("defaultFlags") or 0
        t.enums = {}
        for ename, e in (m.get("enums") or {}).items():
            t.enums[ename] = [(mangle(k), v) for k, v in e.items()]
        t.controllers = []
        raw_ctls = {}
        for item in m.get("controllers") or []:
            for cname, cdef in item.items():
                raw_ctls[cname] = cdef
        number = 0
        for item in m.get("controllers") or []:
            for cname, cdef in item.items():
                number += 1
                c = Ctl()
                c.name = "in_" if cname == "in" else cname
                c.number = number
                c.min = c.max = c.enum = c.members = c.depends_on = c.ranges = None
                c.default = cdef.get("default")
                c.attached = cdef.get("attached", True)
                if "min" in cdef and "max" in cdef:
                    c.min, c.max = cdef["min"], cdef["max"]
                    c.kind = ("compact" if cdef.get("compact") else
                              "no_offset" if cdef.get("no_offset") else "range")
                elif "enum" in cdef:
                    c.kind = "enum"
                    c.enum = cdef["enum"]
                    c.members = t.enums[c.enum]
                elif "bool" in cdef:
                    c.kind = "bool"
                elif "depends_on" in cdef:
                    c.kind = "dependent"
                    c.depends_on = cdef["depends_on"]
                    c.ranges = {mangle(k): (r["min"], r["max"])
                                for k, r in cdef["ranges"].items()}
                    c.enum = raw_ctls[c.depends_on]["enum"]  # unit enum name
                else:
                    raise ValueError(f"{cls_name}.{cname}: unknown controller kind {cdef}")
                t.controllers.append(c)
        t.options = []
        for item in m.get("options") or []:
            for oname, od in item.items():
                o = Opt()
                o.name = oname
                o.byte, o.bit, o.size = od["byte"], od["bit"], od["size"]
                o.default = od.get("default")
                o.number = od.get("number")
                o.min, o.max = od.get("min"), od.get("max")
                o.inverted = bool(od.get("inverted", False))
                o.exclusive_of = list(od.get("exclusive_of") or [])
                o.enum = od.get("enum")
                o.members = t.enums[o.enum] if o.enum else None
                t.options.append(o)
        t.options_chnm = m.get("options_chnm")
        t.chunks = list(m.get("chunks") or [])
        out[cls_name] = t
    _cache[path] = out
    return out


def by_mtype(path=None):
    return {t.mtype: t for t in load(path).values()}


def raw(path=None):
    with open(path or env.SPEC_PATH) as f:
        return yaml.safe_load(f)
