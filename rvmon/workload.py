"""Shared workloads: generated projects / synths built through the public API, with their snapshots."""
import random
import traceback
from io import BytesIO

from . import build, env, gen, snapshot


def exc_key(e):
    """Mechanism name for an exception: type + innermost rv function on the traceback."""
    tb = traceback.extract_tb(e.__traceback__)
    where, line = "?", ""
    for fr in tb:
        if fr.filename.startswith(env.SRC):
            where, line = fr.name, (fr.line or "").strip()
    return f"{type(e).__name__}:{where}:{line[:70]}"


class Case:
    __slots__ = ("index", "seed", "ad", "obj", "snap", "history", "kind", "tier", "extra", "gate", "noise")

    def describe(self):
        return {"case_seed": self.seed, "kind": self.kind, "index": self.index, "tier": self.tier}


def case_rng(seed, index):
    return random.Random(seed * 1000003 + index)


def project_case(seed, index, tier, noise=True, **kw):
    """One generated project: AD, real object, snapshot.  Deterministic in (seed, index)."""
    rng = case_rng(seed, index)
    g = gen.Gen(rng, tier)
    c = Case()
    c.index, c.seed, c.kind, c.tier = index, seed, "project", tier
    c.ad = g.project(**kw)
    c.history = []
    c.obj = build.build_project(c.ad, rng, c.history)
    c.snap = snapshot.snap_project(c.obj)
    # the build is gated against the description BEFORE any further API use
    c.gate = build.gate_diff(build.expected_project(c.ad), c.snap)
    c.noise = 0
    if noise and not c.gate and rng.random() < 0.5:
        modern = tuple(c.ad["sunvox_version"]) >= (1, 9, 5, 0)
        c.noise = build.api_noise(c.obj, rng, c.history, 0xFFFF if modern else 0xFF)
        c.snap = snapshot.snap_project(c.obj)
    return c


def module_case(seed, index, tier, T, ctx="synth", **kw):
    """One generated module of type T (spec class name), stand-alone."""
    rng = case_rng(seed, index)
    g = gen.Gen(rng, tier)
    c = Case()
    c.index, c.seed, c.kind, c.tier = index, seed, f"module:{T}", tier
    c.ad = g.module(T, ctx, **kw)
    c.history = []
    c.obj = build.build_module(c.ad, ctx, rng, c.history)
    c.snap = snapshot.snap_module(c.obj, ctx)
    return c


def load(raw):
    import rv.api as api
    return api.read_sunvox_file(BytesIO(raw))


def load_path(path):
    """Load by file NAME (the library opens the file itself)."""
    import rv.api as api
    return api.read_sunvox_file(str(path))


def type_histogram(res, snap, name="module_types"):
    for m in snap.get("modules", []):
        if m is not None:
            res.hist(name, m["type"])
            if m["type"] == "MetaModule":
                type_histogram(res, m["payload"]["project"], name + "_embedded")
