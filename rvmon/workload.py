"""Shared workloads: generated projects / synths built through the public API, with their snapshots."""
import random
import traceback
from io import BytesIO

from . import build, env, gen, snapshot


def exc_key(e):
    """Mechanism name for an exception: type + innermost rv function on the traceback."""
    tb = traceback.extract_tb(e.__traceback__)
    where, line = "?", ""
    for fr in tb:
        if fr.filename.startswith(env.SRC):
            where, line = fr.name, (fr.line or "").strip()
    return f"{type(e).__name__}:{where}:{line[:70]}"


class Case:
    __slots__ = ("index", "seed", "ad", "obj", "snap", "history", "kind", "tier", "extra", "gate", "noise")

    def describe(self):
        return {"case_seed": self.seed, "kind": self.kind, "index": self.index, "tier": self.tier}


def case_rng(seed, index):
    return random.Random(seed * 1000003 + index)


def project_case(seed, index, tier, noise=True, **kw):
    """One generated project: AD, real object, snapshot.  Deterministic in (seed, index)."""
    rng = case_rng(seed, index)
    g = gen.Gen(rng, tier)
    c = Case()
    c.index, c.seed, c.kind, c.tier = index, seed, "project", tier
    c.ad = g.project(**kw)
    c.history = []
    c.obj = build.build_project(c.ad, rng, c.history)
    c.snap = snapshot.snap_project(c.obj)
    # the build is gated against the description BEFORE any further API use
    c.gate = build.gate_diff(build.expected_project(c.ad), c.snap)
    c.noise = 0
    if noise and not c.gate and rng.random() < 0.5:
        modern = tuple(c.ad["sunvox_version"]) >= (1, 9, 5, 0)
        c.noise = build.api_noise(c.obj, rng, c.history, 0xFFFF if modern else 0xFF)
        c.snap = snapshot.snap_project(c.obj)
    return c


def module_case(seed, index, tier, T, ctx="synth", **kw):
    """One generated module of type T (spec class name), stand-alone."""
    rng = case_rng(seed, index)
    g = gen.Gen(rng, tier)
    c = Case()
    c.index, c.seed, c.kind, c.tier = index, seed, f"module:{T}", tier
    c.ad = g.module(T, ctx, **kw)
    c.history = []
    c.obj = build.build_module(c.ad, ctx, rng, c.history)
    c.snap = snapshot.snap_module(c.obj, ctx)
    return c


_LOADS = [0]


class LoaderContractBroken(Exception):
    """The loader returned nothing (or the wrong kind of thing) for bytes that ARE a container when read from their start - the
    worker reports this as a violation of the running property, not as a harness fault."""


def load(raw):
    """Load from an in-memory stream; every fifth time the file sits BEHIND something else in the stream (a bundle header, an
    archive member offset) and the stream is positioned at its start, as `read_sunvox_file(f)` documents ("file f")."""
    import rv.api as api
    _LOADS[0] += 1
    if _LOADS[0] % 5 == 0:
        head = (b"BNDL\x01\x00\x00\x00hdr!", b"\0" * 7, b"SVOX\0\0\0\0"[:5])[_LOADS[0] // 5 % 3]
        f = BytesIO(head + bytes(raw))
        f.seek(len(head))
        o = api.read_sunvox_file(f)
        if o is None and api.read_sunvox_file(BytesIO(bytes(raw))) is not None:
            raise LoaderContractBroken(f"read_sunvox_file returned None for a stream positioned at the start of a container that sits {len(head)} bytes into it "
                                       f"(the same bytes load from a stream of their own)")
        return o
    return api.read_sunvox_file(BytesIO(raw))


def fresh_process_reload(res, prop, cases):
    """cases: [(bytes, normalised snapshot taken by THIS process before saving, description)].  A fresh interpreter loads the
    bytes; differences are violations `<prop>:fresh-process:<field>`."""
    import json
    import os
    import pickle
    import shutil
    import subprocess
    import sys
    import tempfile
    if not cases:
        return
    tdir = tempfile.mkdtemp(prefix="rvmon-reload-", dir=os.environ.get("TMPDIR", "/var/tmp"))
    try:
        src, out = os.path.join(tdir, "cases.pickle"), os.path.join(tdir, "out.json")
        with open(src, "wb") as f:
            pickle.dump(cases, f)
        envv = dict(os.environ)
        envv.pop("RVMON_RV_LOGLEVEL", None)
        r = subprocess.run([sys.executable, "-B", "-m", "rvmon.reload_worker", src, out], cwd=env.VERIF, env=envv, capture_output=True, timeout=900)
        if r.returncode != 0 or not os.path.exists(out):
            res.inconclusive.append(f"fresh-process reload worker failed: {r.stderr[-400:]!r}")
            return
        with open(out) as f:
            results = json.load(f)
        for item in results:
            res.count("fresh_process_reloads")
            if item.get("error"):
                res.violation(f"{prop}:fresh-process:unloadable:{item['key']}", f"a file written here does not load in a fresh interpreter: {item['error']}", item["desc"])
            for path, a, b in item.get("diff", []):
                from . import snapshot as _s
                res.violation(f"{prop}:fresh-process:{_s.field_key(path)}", f"{path}: the writing process had {a}; a fresh interpreter loads {b}", item["desc"])
    finally:
        shutil.rmtree(tdir, ignore_errors=True)


def load_path(path):
    """Load by file NAME (the library opens the file itself)."""
    import rv.api as api
    return api.read_sunvox_file(str(path))


def type_histogram(res, snap, name="module_types"):
    for m in snap.get("modules", []):
        if m is not None:
            res.hist(name, m["type"])
            if m["type"] == "MetaModule":
                type_histogram(res, m["payload"]["project"], name + "_embedded")


# ------------------------------------------------------------------ the same bytes through every kind of stream / file name
def stream_kinds(raw, tdir, tag="f"):
    """Yields (kind, open_fn) pairs; open_fn() returns (argument for read_sunvox_file, [things to close afterwards]).
    Everything is opened by the CALLER, as applications do: plain and unbuffered files, read-write files, memory maps,
    decompressing streams over real files (their fileno() is the COMPRESSED file's), pipes, socket files."""
    import bz2
    import gzip
    import lzma
    import mmap
    import os
    import socket
    import threading
    path = os.path.join(tdir, f"{tag}.bin")
    with open(path, "wb") as f:
        f.write(raw)
    for ext, mod in ((".gz", gzip), (".bz2", bz2), (".xz", lzma)):
        with mod.open(path + ext, "wb") as f:
            f.write(raw)

    def joiner(t):
        return type("J", (), {"close": staticmethod(t.join)})

    def pipe():
        r, w = os.pipe()
        wf = os.fdopen(w, "wb")

        def feed():
            try:
                wf.write(raw)
            except OSError:
                pass
            finally:
                wf.close()
        t = threading.Thread(target=feed, daemon=True)
        t.start()
        rf = os.fdopen(r, "rb")
        return rf, [rf, joiner(t)]

    def sock():
        a, b = socket.socketpair()

        def feed():
            try:
                b.sendall(raw)
            except OSError:
                pass
            finally:
                b.close()
        t = threading.Thread(target=feed, daemon=True)
        t.start()
        f = a.makefile("rb")
        return f, [f, a, joiner(t)]

    def mm():
        fh = open(path, "rb")
        m = mmap.mmap(fh.fileno(), 0, access=mmap.ACCESS_READ)
        return m, [m, fh]

    def simple(fn):
        def o():
            f = fn()
            return f, [f]
        return o
    yield "buffered", simple(lambda: open(path, "rb"))
    yield "unbuffered", simple(lambda: open(path, "rb", buffering=0))
    yield "read-write", simple(lambda: open(path, "r+b"))
    yield "small-buffer", simple(lambda: open(path, "rb", buffering=16))
    if raw:
        yield "mmap", mm
    yield "gzip.open", simple(lambda: gzip.open(path + ".gz", "rb"))
    yield "bz2.open", simple(lambda: bz2.open(path + ".bz2", "rb"))
    yield "lzma.open", simple(lambda: lzma.open(path + ".xz", "rb"))
    yield "pipe", pipe
    yield "socket", sock


ODD_FILE_NAMES = ["~autosave.sunvox", "~", " leading and trailing .sunvox ", "-n.sunvox", "a*b?[c].sunvox", "$HOME.sunvox", "%TEMP%.sunsynth", "café ♫.sunvox",
                  "x.sunvox.gz", "noext", ".hidden", "a;b&c.sunvox", "{braces}.sunvox", "~user/../q.sunvox"]


def loads_through_streams_and_names(res, prop, raw, snap_fn, desc, tdir, kinds=None):
    """Every way of handing the same bytes to the loader gives the object the plain in-memory stream gives."""
    import os
    from io import BytesIO
    from pathlib import Path
    import rv.api as api
    try:
        want = snap_fn(api.read_sunvox_file(BytesIO(raw)))
    except Exception:
        res.count("stream_kind_base_unloadable")
        return
    for kind, opener in stream_kinds(raw, tdir):
        if kinds is not None and kind not in kinds:
            continue
        closers = []
        try:
            arg, closers = opener()
            got = snap_fn(api.read_sunvox_file(arg))
        except Exception as e:
            if kind in ("pipe", "socket"):
                res.count("non_seekable_stream_refused")     # the reader seeks: streams that cannot are outside what it supports
                continue
            res.violation(f"{prop}:stream-kind:{kind}:{exc_key(e)}", f"{len(raw)} bytes that load from an in-memory stream fail through a {kind} stream: {e!r}", dict(desc, stream=kind))
            continue
        finally:
            for c in closers:
                try:
                    c.close()
                except Exception:
                    pass
        res.count("loads_through_stream_kinds")
        res.hist("stream_kinds", kind)
        if got != want:
            d = snapshot.diff(want, got)
            res.violation(f"{prop}:stream-kind:{kind}:{snapshot.field_key(d[0][0]) if d else '?'}", f"the same {len(raw)} bytes load differently through a {kind} stream: {d[:2]}", dict(desc, stream=kind))
    # by name: relative names with characters that mean something to shells / path helpers, from the directory they are in
    if kinds is not None:
        return
    cwd = os.getcwd()
    try:
        os.chdir(tdir)
        for name in ODD_FILE_NAMES:
            if "/" in name:
                os.makedirs(os.path.dirname(name), exist_ok=True)
            try:
                with open(name, "wb") as f:
                    f.write(raw)
            except OSError:
                res.count("odd_file_name_not_creatable")
                continue
            for arg in (name, Path(name), os.path.join(".", name)):
                try:
                    got = snap_fn(api.read_sunvox_file(arg))
                except Exception as e:
                    res.violation(f"{prop}:file-name:{exc_key(e)}", f"a file named {name!r} in the current directory (given as {arg!r}) does not load: {e!r}", dict(desc, name=name))
                    break
                res.count("loads_by_odd_file_names")
                if got != want:
                    res.violation(f"{prop}:file-name:differs", f"a file named {name!r} in the current directory loads differently from its bytes", dict(desc, name=name))
                    break
    finally:
        os.chdir(cwd)


_SONG = [None, 0]


def new_project(every=3):
    """`Project()` as applications make them: every `every`-th one is an instance of an application subclass that behaves as the
    sequence of its patterns (len() is the number of patterns: zero - falsy - for a new song)."""
    import rv.api as api
    if _SONG[0] is None:
        class Song(api.Project):
            def __len__(self):
                return len([q for q in self.patterns if q is not None])

            def __iter__(self):
                return iter([q for q in self.patterns if q is not None])
        _SONG[0] = Song
    _SONG[1] += 1
    return _SONG[0]() if _SONG[1] % every == 0 else api.Project()


def look_at(o):
    """Read-only helpers an application calls between loading and editing / saving: the play-order view, tabular views, printing,
    attribute listings.  Looking is not touching."""
    import rv.api as api
    done = 0
    try:
        repr(o), str(o), bool(o)
        if isinstance(o, api.Project):
            try:
                for i, _ in enumerate(o.pattern_lines()):
                    if i > 80:
                        break
                done += 1
            except Exception:
                pass
            try:
                for i, _ in enumerate(o.pattern_lines(0, 16)):
                    pass
            except Exception:
                pass
            for q in o.patterns[:8]:
                if isinstance(q, api.Pattern):
                    q.tabular_repr()
                    repr(q)
                elif q is not None:
                    try:
                        q.source_pattern
                    except Exception:
                        pass
            for m in [x for x in o.modules if x is not None][:8]:
                repr(m), dir(m), list(m.controllers), list(m.options)
            try:
                o.graph if hasattr(o, "graph") else None
            except Exception:
                pass
        else:
            m = o.module
            if m is not None:
                repr(m), dir(m), list(m.controllers), list(m.options)
    except Exception:
        pass
    return done


_CONTAINERISH = {}


def containerish_types():
    """Application module subclasses that behave as containers of what they hold: a MetaModule 'rack' whose len() is the number
    of modules inside it and that iterates over them, a Sampler 'kit' that iterates over its samples (both empty - falsy - when
    new), and a module with an explicit __bool__.  The registry of module classes is left as it was."""
    import rv.api as api
    from rv.modules import MODULE_CLASSES
    if not _CONTAINERISH:
        originals = dict(MODULE_CLASSES)

        class Rack(api.m.MetaModule):
            def __len__(self):
                return len([x for x in self.project.modules[1:] if x is not None])

            def __iter__(self):
                return iter([x for x in self.project.modules[1:] if x is not None])

        class Kit(api.m.Sampler):
            def __len__(self):
                return len([s for s in self.samples if s is not None])

            def __iter__(self):
                return iter([s for s in self.samples if s is not None])

        class Muted(api.m.Amplifier):
            def __bool__(self):
                return self.volume > 0
        MODULE_CLASSES.clear()
        MODULE_CLASSES.update(originals)
        _CONTAINERISH.update(Rack=Rack, Kit=Kit, Muted=Muted)
    return [_CONTAINERISH["Rack"], _CONTAINERISH["Kit"], lambda **kw: _CONTAINERISH["Muted"](volume=0, **kw)]


def saves_into_positioned_streams(res, prop, obj, desc, tdir=None):
    """`write_to(f)` writes the container at the stream's CURRENT position, whatever kind of stream it is: behind a header in a
    memory stream, appended to a file ("ab"), in the middle of a file opened "r+b".  What follows the header is exactly
    `obj.read()`, and it loads from there."""
    import os
    import shutil
    import tempfile
    from io import BytesIO
    import rv.api as api
    want = obj.read()
    head = b"BNDL\x01\x00\x00\x00hdr!"
    own = tdir is None
    tdir = tdir or tempfile.mkdtemp(prefix="rvmon-sinks-", dir=os.environ.get("TMPDIR", "/var/tmp"))
    try:
        for kind in ("memory-after-header", "append-mode", "read-write-positioned", "write-mode-after-header"):
            res.count("saves_into_positioned_streams")
            try:
                if kind == "memory-after-header":
                    f = BytesIO()
                    f.write(head)
                    obj.write_to(f)
                    data = f.getvalue()
                else:
                    path = os.path.join(tdir, f"sink-{kind}.bin")
                    with open(path, "wb") as f:
                        f.write(head)
                        if kind == "write-mode-after-header":
                            obj.write_to(f)
                    if kind == "append-mode":
                        with open(path, "ab") as f:
                            obj.write_to(f)
                    elif kind == "read-write-positioned":
                        with open(path, "r+b") as f:
                            f.seek(len(head))
                            obj.write_to(f)
                    with open(path, "rb") as f:
                        data = f.read()
            except Exception as e:
                res.violation(f"{prop}:save-sink:{kind}:{exc_key(e)}", f"write_to() into a stream ({kind}) raised {e!r}", dict(desc, sink=kind))
                continue
            if data[:len(head)] != head or data[len(head):] != want:
                res.violation(f"{prop}:save-sink:{kind}", f"write_to() into a stream positioned behind a {len(head)}-byte header ({kind}): the stream holds {len(data)} bytes, "
                                                          f"header intact: {data[:len(head)] == head}, container equals read(): {data[len(head):] == want}", dict(desc, sink=kind))
    finally:
        if own:
            shutil.rmtree(tdir, ignore_errors=True)
