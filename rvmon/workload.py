"""Shared workloads: generated projects / synths built through the public API, with their snapshots."""
import random
import traceback
from io import BytesIO

from . import build, env, gen, snapshot


def exc_key(e):
    """Mechanism name for an exception: type + innermost rv function on the traceback."""
    tb = traceback.extract_tb(e.__traceback__)
    where, line = "?", ""
    for fr in tb:
        if fr.filename.startswith(env.SRC):
            where, line = fr.name, (fr.line or "").strip()
    return f"{type(e).__name__}:{where}:{line[:70]}"


class Case:
    __slots__ = ("index", "seed", "ad", "obj", "snap", "history", "kind", "tier", "extra", "gate", "noise")

    def describe(self):
        return {"case_seed": self.seed, "kind": self.kind, "index": self.index, "tier": self.tier}


def case_rng(seed, index):
    return random.Random(seed * 1000003 + index)


def project_case(seed, index, tier, noise=True, **kw):
    """One generated project: AD, real object, snapshot.  Deterministic in (seed, index)."""
    rng = case_rng(seed, index)
    g = gen.Gen(rng, tier)
    c = Case()
    c.index, c.seed, c.kind, c.tier = index, seed, "project", tier
    c.ad = g.project(**kw)
    c.history = []
    c.obj = build.build_project(c.ad, rng, c.history)
    c.snap = snapshot.snap_project(c.obj)
    # the build is gated against the description BEFORE any further API use
    c.gate = build.gate_diff(build.expected_project(c.ad), c.snap)
    c.noise = 0
    if noise and not c.gate and rng.random() < 0.5:
        modern = tuple(c.ad["sunvox_version"]) >= (1, 9, 5, 0)
        c.noise = build.api_noise(c.obj, rng, c.history, 0xFFFF if modern else 0xFF)
        c.snap = snapshot.snap_project(c.obj)
    return c


def module_case(seed, index, tier, T, ctx="synth", **kw):
    """One generated module of type T (spec class name), stand-alone."""
    rng = case_rng(seed, index)
    g = gen.Gen(rng, tier)
    c = Case()
    c.index, c.seed, c.kind, c.tier = index, seed, f"module:{T}", tier
    c.ad = g.module(T, ctx, **kw)
    c.history = []
    c.obj = build.build_module(c.ad, ctx, rng, c.history)
    c.snap = snapshot.snap_module(c.obj, ctx)
    return c


def load(raw):
    import rv.api as api
    return api.read_sunvox_file(BytesIO(raw))


def fresh_process_reload(res, prop, cases):
    """cases: [(bytes, normalised snapshot taken by THIS process before saving, description)].  A fresh interpreter loads the
    bytes; differences are violations `<prop>:fresh-process:<field>`."""
    import json
    import os
    import pickle
    import shutil
    import subprocess
    import sys
    import tempfile
    if not cases:
        return
    tdir = tempfile.mkdtemp(prefix="rvmon-reload-", dir=os.environ.get("TMPDIR", "/var/tmp"))
    try:
        src, out = os.path.join(tdir, "cases.pickle"), os.path.join(tdir, "out.json")
        with open(src, "wb") as f:
            pickle.dump(cases, f)
        envv = dict(os.environ)
        envv.pop("RVMON_RV_LOGLEVEL", None)
        r = subprocess.run([sys.executable, "-B", "-m", "rvmon.reload_worker", src, out], cwd=env.VERIF, env=envv, capture_output=True, timeout=900)
        if r.returncode != 0 or not os.path.exists(out):
            res.inconclusive.append(f"fresh-process reload worker failed: {r.stderr[-400:]!r}")
            return
        with open(out) as f:
            results = json.load(f)
        for item in results:
            res.count("fresh_process_reloads")
            if item.get("error"):
                res.violation(f"{prop}:fresh-process:unloadable:{item['key']}", f"a file written here does not load in a fresh interpreter: {item['error']}", item["desc"])
            for path, a, b in item.get("diff", []):
                from . import snapshot as _s
                res.violation(f"{prop}:fresh-process:{_s.field_key(path)}", f"{path}: the writing process had {a}; a fresh interpreter loads {b}", item["desc"])
    finally:
        shutil.rmtree(tdir, ignore_errors=True)


def load_path(path):
    """Load by file NAME (the library opens the file itself)."""
    import rv.api as api
    return api.read_sunvox_file(str(path))


def type_histogram(res, snap, name="module_types"):
    for m in snap.get("modules", []):
        if m is not None:
            res.hist(name, m["type"])
            if m["type"] == "MetaModule":
                type_histogram(res, m["payload"]["project"], name + "_embedded")
