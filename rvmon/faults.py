"""Fault injection: failing file objects, source-free line failpoints, open() tracking."""
import ast
import io
import os
import sys
from pathlib import Path

from . import env


class InjectedIOError(OSError):
    pass


class InjectedFault(Exception):
    pass


class InjectedInterrupt(BaseException):
    """A fault that is not an Exception subclass (the load is interrupted the way Ctrl-C or a signal handler would)."""


class _FaultyMixin:
    """Counts read/seek/tell calls; raises InjectedIOError at call index ``fail_at``."""

    def _init_faults(self, fail_at):
        self.calls = 0
        self.fail_at = fail_at
        self.fired = False
        self.armed = True

    def _tick(self, what):
        if not self.armed:
            return
        k = self.calls
        self.calls += 1
        if self.fail_at is not None and k == self.fail_at:
            self.fired = True
            if getattr(self, "fail_with", None) is not None:
                raise self.fail_with(f"injected at I/O call {k} ({what})")
            # (the error numbers real file systems produce: a stale NFS handle, "try again", an interrupted call, a plain I/O error)
            import errno as _errno
            code = (_errno.EIO, _errno.ESTALE, _errno.EAGAIN, _errno.EINTR, _errno.ETIMEDOUT)[k % 5]
            raise InjectedIOError(code, f"injected failure at I/O call {k} ({what})")

    def read(self, *a):
        self._tick("read")
        return super().read(*a)

    def seek(self, *a):
        self._tick("seek")
        return super().seek(*a)

    def tell(self):
        self._tick("tell")
        return super().tell()


class FaultyBytesIO(_FaultyMixin, io.BytesIO):
    def __init__(self, data, fail_at=None):
        io.BytesIO.__init__(self, data)
        self._init_faults(fail_at)


class FaultyFileIO(_FaultyMixin, io.FileIO):
    """A real OS file whose read/seek/tell can be made to fail (handed out by the patched Path.open)."""

    def __init__(self, path, fail_at=None):
        io.FileIO.__init__(self, path, "rb")
        self._init_faults(fail_at)


class OpenTracker:
    """Patches pathlib.Path.open for paths under ``root`` to hand out tracked (optionally faulty) files."""

    def __init__(self):
        self.opened = []
        self.fail_at = None
        self.fail_open = False
        self._orig = None

    def __enter__(self):
        self._orig = Path.open
        tracker = self

        def open_(self_path, mode="r", *a, **kw):
            if "b" in mode and "r" in mode:
                if tracker.fail_open:
                    raise InjectedIOError("injected failure in open()")
                f = FaultyFileIO(str(self_path), tracker.fail_at)
                tracker.opened.append(f)
                return f
            return tracker._orig(self_path, mode, *a, **kw)

        Path.open = open_
        return self

    def __exit__(self, *exc):
        Path.open = self._orig
        return False

    def take(self):
        out = self.opened
        self.opened = []
        return out


# ------------------------------------------------------------------ line failpoints (sys.monitoring)
RV_PREFIX = os.path.join(env.SRC, "rv") + os.sep


def cleanup_lines():
    """(filename, line) pairs that are NOT used as failpoints.

    A line failpoint models "the statement on this line raises".  In the two mechanism functions
    themselves (rv.errors.override_raise_controller_value_errors and
    rv.readers.reader.read_sunvox_file) only statements inside a ``try`` body are failure points of
    the *load*; the remaining statements are the bookkeeping of the mechanism (saving/setting the flag,
    ``close = True``, the ``finally`` bodies): plain assignments that cannot raise, or the cleanup
    action itself.  Faulting them would model a failing global assignment or a failing close(), not a
    failing load.  Every line of every other function (including everything those try bodies call)
    is a failpoint.  The open() call is covered by the separate open-fails fault."""
    out = set()
    for rel, fname in ((("rv", "errors.py"), "override_raise_controller_value_errors"),
                       (("rv", "readers", "reader.py"), "read_sunvox_file")):
        p = os.path.join(env.SRC, *rel)
        with open(p) as f:
            tree = ast.parse(f.read())
        for node in ast.walk(tree):
            if isinstance(node, ast.FunctionDef) and node.name == fname:
                all_lines = set(range(node.lineno, (node.end_lineno or node.lineno) + 1))
                protected = set()
                for n in ast.walk(node):
                    if isinstance(n, ast.Try):
                        for st in n.body:
                            protected.update(range(st.lineno, (st.end_lineno or st.lineno) + 1))
                for ln in all_lines - protected:
                    out.add((p, ln))
    return out


class LineFailpoints:
    """Counts LINE events in rv code; raises InjectedFault at event index ``fail_at``.

    ``record=True`` keeps, per distinct (file, line), the first and last event index.
    """

    TOOL = 4

    def __init__(self):
        self.mon = sys.monitoring
        self.count = 0
        self.fail_at = None
        self.record = None
        self.fired_at = None
        self.skip = cleanup_lines()
        self.active = False

    def __enter__(self):
        m = self.mon
        try:
            m.use_tool_id(self.TOOL, "rvmon-failpoints")
        except ValueError:
            m.free_tool_id(self.TOOL)
            m.use_tool_id(self.TOOL, "rvmon-failpoints")
        m.register_callback(self.TOOL, m.events.LINE, self._cb)
        m.set_events(self.TOOL, m.events.LINE)
        return self

    def __exit__(self, *exc):
        m = self.mon
        m.set_events(self.TOOL, 0)
        m.register_callback(self.TOOL, m.events.LINE, None)
        m.free_tool_id(self.TOOL)
        return False

    def arm(self, fail_at=None, record=False):
        self.count = 0
        self.fail_at = fail_at
        self.fired_at = None
        self.record = {} if record else None
        self.active = True

    def disarm(self):
        self.active = False

    def _cb(self, code, line):
        fn = code.co_filename
        if not fn.startswith(RV_PREFIX):
            return self.mon.DISABLE
        if not self.active:
            return None
        if (fn, line) in self.skip:
            return None
        k = self.count
        self.count = k + 1
        rec = self.record
        if rec is not None:
            e = rec.get((fn, line))
            if e is None:
                rec[(fn, line)] = [k, k]
            else:
                e[1] = k
        if k == self.fail_at:
            self.fired_at = (fn, line)
            self.active = False  # one fault per load
            raise InjectedFault(f"failpoint at {os.path.relpath(fn, env.SRC)}:{line} (event {k})")
        return None
