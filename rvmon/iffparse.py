"""Independent chunk-stream tokenizer / writer (no rv import).

SunVox files are a flat sequence of chunks: 4-byte ASCII id, little-endian uint32
length, payload (no padding).  ``parse`` insists that the stream tiles the byte
string exactly.
"""
import struct


class Malformed(Exception):
    pass


def parse(data: bytes):
    """-> list of (id: bytes, payload: bytes, offset: int). Raises Malformed."""
    out = []
    pos, n = 0, len(data)
    while pos < n:
        if n - pos < 8:
            raise Malformed(f"dangling {n - pos} bytes at {pos}")
        cid = data[pos:pos + 4]
        (ln,) = struct.unpack_from("<I", data, pos + 4)
        if pos + 8 + ln > n:
            raise Malformed(f"chunk {cid!r} at {pos} claims {ln} bytes, only {n - pos - 8} left")
        out.append((cid, data[pos + 8:pos + 8 + ln], pos))
        pos += 8 + ln
    return out


def build(chunks) -> bytes:
    parts = []
    for c in chunks:
        cid, payload = c[0], c[1]
        assert len(cid) == 4
        parts.append(cid)
        parts.append(struct.pack("<I", len(payload)))
        parts.append(payload)
    return b"".join(parts)


def module_specific(chunks):
    """From a chunk list of ONE module section return {chnm: {'chdt','chff','chfr'}} (top level only)."""
    out = {}
    cur = None
    for cid, payload, _off in chunks:
        if cid == b"CHNM":
            (num,) = struct.unpack("<I", payload)
            cur = out.setdefault(num, {"chdt": None, "chff": None, "chfr": None, "count": 0})
            cur["count"] += 1
        elif cid == b"CHDT" and cur is not None:
            cur["chdt"] = payload
        elif cid == b"CHFF" and cur is not None:
            (cur["chff"],) = struct.unpack("<I", payload)
        elif cid == b"CHFR" and cur is not None:
            (cur["chfr"],) = struct.unpack("<I", payload)
    return out
