"""Deterministic schedules of several threads using the library at once, each on ITS OWN objects.

Real threads (thread-local state behaves as in an application), but only one runs at a time: a task gives up the processor at
its *yield points* (every read()/write() of the stream it loads from / saves to, and wherever the task itself calls
``yp()`` between API calls) and a seeded scheduler picks who runs next.  I/O calls are where a CPython program really
switches threads (the GIL is released there), so every schedule produced here is one the program can have.

The oracle is differential: every task is first run alone (single-threaded reference); under every schedule its result must be
the same.  A watchdog turns a stuck schedule into `inconclusive`, never into a violation.
"""
import io
import threading


class Stuck(Exception):
    pass


class Scheduler:
    def __init__(self, rng, timeout=60.0):
        self.rng = rng
        self.cv = threading.Condition()
        self.current = None
        self.alive = []
        self.timeout = timeout
        self.trace = []
        self.stuck = False

    # called by the running task
    def yield_point(self, me):
        with self.cv:
            if self.stuck:
                return
            self.trace.append(me)
            self.current = self.rng.choice(self.alive)
            self.cv.notify_all()
            self._wait_turn(me)

    def _wait_turn(self, me):
        while self.current != me and not self.stuck:
            if not self.cv.wait(self.timeout):
                self.stuck = True
                self.cv.notify_all()

    def _finish(self, me):
        with self.cv:
            self.alive.remove(me)
            if self.alive:
                self.current = self.rng.choice(self.alive)
            self.cv.notify_all()

    def run(self, tasks):
        """tasks: list of callables f(yp) -> result.  Returns (results, errors) lists in task order."""
        n = len(tasks)
        results, errors = [None] * n, [None] * n
        self.alive = list(range(n))
        self.current = self.rng.choice(self.alive)

        def body(i):
            with self.cv:
                self._wait_turn(i)
            try:
                results[i] = tasks[i](lambda: self.yield_point(i))
            except BaseException as e:  # noqa - reported to the caller
                errors[i] = e
            finally:
                self._finish(i)
        threads = [threading.Thread(target=body, args=(i,), daemon=True) for i in range(n)]
        for t in threads:
            t.start()
        for t in threads:
            t.join(self.timeout * 2)
        if self.stuck or any(t.is_alive() for t in threads):
            self.stuck = True
            with self.cv:
                self.cv.notify_all()
            raise Stuck("schedule did not finish")
        return results, errors


class YieldingReader(io.BytesIO):
    """A stream that lets other threads run before every read."""

    def __init__(self, data, yp):
        super().__init__(data)
        self._yp = yp

    def read(self, *a):
        self._yp()
        return super().read(*a)


class YieldingWriter(io.BytesIO):
    def __init__(self, yp):
        super().__init__()
        self._yp = yp

    def write(self, b):
        self._yp()
        return super().write(b)


def differential(res, prop, rng, make_tasks, n_schedules, label, describe=None):
    """make_tasks() -> list of (name, fn(yp) -> comparable).  Runs every task alone first, then all of them under
    `n_schedules` random schedules (fresh task objects each time); differences are `<prop>:threads:<label>:<task name>`."""
    ref = []
    for name, fn in make_tasks():
        ref.append(fn(lambda: None))
    seen = set()
    for s in range(n_schedules):
        tasks = make_tasks()
        sch = Scheduler(rng)
        try:
            results, errors = sch.run([fn for _n, fn in tasks])
        except Stuck:
            res.inconclusive.append(f"{prop}: a thread schedule ({label}) did not finish within the watchdog time")
            return
        res.count("thread_schedules")
        res.count("thread_schedule_yield_points", len(sch.trace))
        seen.add(tuple(sch.trace[:60]))
        for i, (name, _fn) in enumerate(tasks):
            case = {"family": "threads", "label": label, "task": name, "tasks": [n for n, _ in tasks], "schedule_prefix": sch.trace[:80]}
            if describe:
                case.update(describe)
            if errors[i] is not None:
                res.violation(f"{prop}:threads:{label}:{name}:raises:{type(errors[i]).__name__}",
                              f"{name}, run alone, completes; with {len(tasks) - 1} other thread(s) working on their own objects it raises {errors[i]!r}", case)
                return
            if results[i] != ref[i]:
                res.violation(f"{prop}:threads:{label}:{name}", f"{name} gives a different result when other threads use the library on their own objects in between "
                                                               f"(schedule of {len(sch.trace)} switches at I/O calls)", case)
                return
    res.count("distinct_thread_schedules", len(seen))
