"""Loads files written by another process in a FRESH interpreter and compares what they load as with the (normalised)
snapshot the writing process took of its objects:   python -m rvmon.reload_worker <in.pickle> <out.json>
Whatever the writing process did to class-level defaults, caches or registries is not present here."""
import json
import pickle
import sys

from . import build, env, snapshot, workload


def main():
    src, out = sys.argv[1:3]
    env.setup()
    with open(src, "rb") as f:
        cases = pickle.load(f)
    results = []
    for raw, want, desc in cases:
        try:
            o = workload.load(raw)
        except Exception as e:
            results.append({"desc": desc, "error": repr(e), "key": workload.exc_key(e)})
            continue
        import rv.api as api
        S = snapshot.snap_project(o) if isinstance(o, api.Project) else snapshot.snap_synth(o)
        d = snapshot.diff(want, build.norm(S, "after"))
        results.append({"desc": desc, "diff": [[p, repr(a)[:200], repr(b)[:200]] for p, a, b in d[:3]]})
    with open(out, "w") as f:
        json.dump(results, f)


if __name__ == "__main__":
    main()
