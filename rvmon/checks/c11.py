"""C11 - module options pack into disjoint bits and read back exactly."""
import enum
import itertools
import random
import struct
from io import BytesIO

from .. import env, spec, iffparse, workload

PROPERTY = "C11"
LEVEL = "exploration"
RULE = ("one case = one option assignment (single option over all 2^size values, every pair of options over all "
        "value combinations for size<=2 and boundary values for size 8, or a random full assignment) applied by "
        "setattr or constructor to a real module, then observed in memory, after clone(), after a project round "
        "trip and in the independently decoded options record of the written bytes; distinct by (type, assignment); "
        "non-trivial = at least one option differs from its default")
EXHAUSTIVE_AXIS = "bit-disjointness of all 49 options; every representable value of every option alone; all option pairs (size<=2: all combinations; size 8: boundary values)"
ASSUMPTIONS = [
    "model of the property: bounded options clamp into [min,max]; 1-bit options coerce to bool; setting an option clears (stored False) the options it is exclusive of; inverted options store the complement of the logical value",
    "the options record is located by the module's options chunk number from the spec (CHNM == options_chnm, following CHDT), parsed by rvmon.iffparse, independent of rv",
    "which member of a mutually exclusive group survives a constructor call, and whether assigning False to one member clears its partner, is not fixed by the statement: the model adopts what is observed there (counted as observation_*), while 'never both on' and exact read-back of the assigned option are always judged",
    "values beyond an option's bit width (unbounded size-8 options above 255) are not 'representable' and are not generated",
]
REQUIRED_COUNTERS = ["bit_pairs_checked", "records_decoded", "clones", "project_roundtrips", "exclusive_probes", "clamp_probes"]


def _opt_types():
    return sorted(T for T, t in spec.load().items() if t.options)


def plan(tier, seed):
    specs = []
    i = 0
    n_rand = 300 if tier == "quick" else 20000
    for T in _opt_types():
        specs.append({"tier": tier, "type": T, "mode": "structured", "seed": env.shard_seed(i)}); i += 1
        k = 1 if tier == "quick" else 3
        for j in range(k):
            specs.append({"tier": tier, "type": T, "mode": "random", "n": n_rand // k, "seed": env.shard_seed(i)}); i += 1
    return specs


def _ival(v):
    if isinstance(v, enum.Enum):
        return v.value
    if type(v).__module__ == "numpy":
        return v.item()
    return v


class Model:
    """The statement's reading of option assignment."""

    def __init__(self, t):
        self.t = t
        self.by = {o.name: o for o in t.options}
        self.stored = {}
        for o in t.options:
            self.assign(o.name, self.default_of(o))

    def default_of(self, o):
        d = o.default
        if o.enum:
            d = dict(o.members)[spec.mangle(d)]
        return d

    def assign(self, name, v):
        o = self.by[name]
        v = _ival(v)
        if o.min is not None and o.max is not None:
            v = max(o.min, min(o.max, v))
            s = v
        elif o.size == 1:
            v = bool(v)
            s = (not v) if o.inverted else v
        else:
            s = v
        self.stored[name] = s
        if self.logical(name):
            # the statement only demands "never both on": a truthy assignment forces the partners off
            for other in o.exclusive_of:
                self.stored[other] = False

    def group_names(self):
        g = set()
        for o in self.t.options:
            if o.exclusive_of:
                g.add(o.name)
                g.update(o.exclusive_of)
        return g

    def sync_partners(self, name, mod, res):
        """After a falsy assignment to an exclusive option the partner's fate is unspecified
        by the property (the library clears it): adopt what is observed, and count it."""
        o = self.by[name]
        for other in o.exclusive_of:
            got = bool(getattr(mod, other))
            if got != bool(self.logical(other)):
                res.count("observation_partner_cleared_by_falsy_assignment")
                self.stored[other] = got

    def sync_group(self, mod, res, kw=None):
        """Constructor path: which member of an exclusive group survives is unspecified."""
        for n in self.group_names():
            got = bool(getattr(mod, n))
            if kw and kw.get(n) and not got and not any(kw.get(x) for x in self.by[n].exclusive_of):
                res.count("observation_constructor_exclusive_keyword_lost")
            self.stored[n] = got

    def logical(self, name):
        o = self.by[name]
        s = self.stored[name]
        return (not s) if o.inverted else s

    def record(self):
        nbytes = max(o.byte for o in self.t.options) + 1
        b = [0] * nbytes
        for o in self.t.options:
            b[o.byte] |= (int(self.stored[o.name]) & ((1 << o.size) - 1)) << o.bit
        return bytes(b)


def _options_record(raw, t, in_project):
    chunks = iffparse.parse(raw)
    if in_project:
        # sections end with SEND; module 1 is the second section that starts with SFFF
        sends = [i for i, c in enumerate(chunks) if c[0] == b"SEND"]
        start = sends[0] + 1
        chunks = chunks[start:sends[1] + 1]
    ms = iffparse.module_specific(chunks)
    ent = ms.get(t.options_chnm)
    return None if ent is None else ent["chdt"]


def observe(res, T, t, cls, mod, model, case, what):
    """Compare a live module (and its written forms) with the model."""
    from rv.api import Project, read_sunvox_file, Synth

    def cmp_mod(m, where):
        for o in t.options:
            got = getattr(m, o.name)
            want = model.logical(o.name)
            if _ival(got) != _ival(want) or (o.size == 1 and not isinstance(got, bool)):
                key = "clamp" if (o.min is not None) else ("inverted" if o.inverted else "value")
                res.violation(f"C11:{key}:{T}.{o.name}" if where == "memory" else f"C11:{where}:{T}.{o.name}",
                              f"{T}.{o.name} {where}: got {got!r}, expected {want!r} after {what}", case)
                return False
        return True

    if not cmp_mod(mod, "memory"):
        return
    # exclusivity invariant
    for o in t.options:
        for other in o.exclusive_of:
            if getattr(mod, o.name) and getattr(mod, other):
                res.violation(f"C11:exclusive:{T}.{o.name}", f"{T}: {o.name} and {other} both on after {what}", case)
    # stand-alone synth / clone
    raw = Synth(mod).read()
    rec = _options_record(raw, t, False)
    res.count("records_decoded")
    want_rec = model.record()
    if rec != want_rec:
        key = "record-length" if rec is not None and len(rec) != len(want_rec) else "record-bits"
        res.violation(f"C11:{key}:{T}", f"{T} options record {rec.hex() if rec is not None else None} != expected {want_rec.hex()} after {what}", case)
        return
    try:
        c = mod.clone()
    except Exception as e:
        res.violation(f"C11:clone-raises:{T}:{workload.exc_key(e)}", f"{T}: the module written after {what} does not load again: {e!r}", case)
        return
    res.count("clones")
    if type(c) is not cls:
        res.violation(f"C11:clone-type:{T}", f"clone is {type(c).__name__}", case)
        return
    cmp_mod(c, "clone")
    # in-project context: the module must be parentless to attach; use the clone
    p = Project()
    # the module's options must survive whatever the enclosing project declares about its own history
    import random as _r
    vr = _r.Random(len(raw) * 31 + sum(want_rec))
    p.based_on_version = vr.choice([(2, 1, 2, 1), (1, 7, 0, 0), (1, 9, 4, 0), (1, 9, 5, 2), (0, 0, 0, 0)])
    p.sunvox_version = vr.choice([(2, 1, 2, 1), (1, 9, 5, 0), (1, 9, 6, 1), (2, 0, 0, 0)])
    res.hist("project_versions", f"VERS{p.sunvox_version[:2]}/BVER{p.based_on_version[:3]}")
    p.attach_module(c)
    if vr.random() < 0.5:
        # automation aimed at the module: a MultiCtl whose mappings name controller numbers up to and past the module's
        # controllers (numbers that name nothing are documented no-ops); options are not controllers
        nctl = len(type(c).controllers)
        nums = [nctl + 1, nctl + 2, 124, 125, 127, nctl + vr.randint(1, 140)]
        mc = p.new_module(__import__("rv.api").api.m.MultiCtl, mappings=[(0, 0x8000, vr.choice(nums), 0, 0, 0, 0, 0)])
        mc >> c
        try:
            for v in (0x8000, 0, vr.randint(0, 0x8000)):
                mc.value = v
            res.count("multictl_automation_rounds")
        except Exception as e:
            res.violation(f"C11:automation-raises:{T}:{type(e).__name__}", f"MultiCtl mapped past the controllers of {T} raised {e!r}", case)
            return
        if not cmp_mod(c, "after-automation"):
            return
    rawp = p.read()
    recp = _options_record(rawp, t, True)
    if recp != want_rec:
        res.violation(f"C11:record-project:{T}", f"{T} options record in project {recp.hex() if recp is not None else None} != {want_rec.hex()}", case)
        return
    p2 = read_sunvox_file(BytesIO(rawp))
    res.count("project_roundtrips")
    cmp_mod(p2.modules[1], "project")


def _all_values(o):
    if o.min is not None and o.max is not None:
        return list(range(o.min, o.max + 1))
    return list(range(1 << o.size)) if o.size > 1 else [False, True]


def _edge_values(o, rng):
    vs = _all_values(o)
    if len(vs) <= 4:
        return vs
    return sorted({vs[0], vs[1], vs[-2], vs[-1], vs[len(vs) // 2], rng.choice(vs)})


def structured(res, T, rng, tier):
    from rv.modules import MODULE_CLASSES
    t = spec.load()[T]
    cls = MODULE_CLASSES[t.mtype]
    # --- bit disjointness, from the live Option objects and from the spec ---
    for src, opts in (("class", [(o.name, o.byte, o.bit, o.size) for o in cls.options.values()]),
                      ("spec", [(o.name, o.byte, o.bit, o.size) for o in t.options])):
        for (n1, by1, b1, s1), (n2, by2, b2, s2) in itertools.combinations(opts, 2):
            res.case((T, src, "bits", n1, n2))
            res.count("bit_pairs_checked")
            bits1 = {by1 * 8 + b1 + i for i in range(s1)}
            bits2 = {by2 * 8 + b2 + i for i in range(s2)}
            if bits1 & bits2:
                res.violation(f"C11:overlap:{T}.{n1}+{n2}", f"{T} ({src}): {n1} and {n2} share bits {sorted(bits1 & bits2)}", {"type": T})
        for n, by, b, s in opts:
            res.case((T, src, "fits", n))
            if b + s > 8 or b < 0 or by < 0:
                res.violation(f"C11:straddle:{T}.{n}", f"{T}.{n} ({src}) bit {b} size {s} leaves its byte", {"type": T})
    # --- each option alone, all representable values, via setattr and constructor ---
    for o in t.options:
        for v in _all_values(o):
            for path in ("setattr", "constructor"):
                case = {"type": T, "path": path, "assign": [[o.name, _ival(v)]]}
                res.case((T, path, o.name, _ival(v)), nontrivial=True)
                model = Model(t)
                if path == "setattr":
                    mod = cls()
                    setattr(mod, o.name, v)
                    model.assign(o.name, v)
                    model.sync_partners(o.name, mod, res)
                else:
                    mod = cls(**{o.name: v})
                    if o.name not in model.group_names():
                        model.assign(o.name, v)
                    model.sync_group(mod, res, {o.name: v})
                observe(res, T, t, cls, mod, model, case, f"{o.name}={v!r} via {path}")
    # --- clamping probes for bounded options ---
    for o in t.options:
        if o.min is None:
            continue
        for v in (o.min - 1, o.min - 1000, o.max + 1, o.max + 104, 255, 256, 10 ** 6, -(10 ** 6), -3):
          for lenient in (False, True):
            res.case((T, "clamp", o.name, v, lenient))
            res.count("clamp_probes")
            mod = cls()
            if lenient:
                # the library's switch for CONTROLLER range errors says nothing about options: bounded options clamp
                from rv.errors import override_raise_controller_value_errors as _ov
                with _ov(False):
                    setattr(mod, o.name, v)
                rec = _options_record(__import__("rv.api").api.Synth(mod).read(), t, False)
                if rec is not None and o.byte < len(rec) and o.size == 8 and rec[o.byte] != max(o.min, min(o.max, v)):
                    res.violation(f"C11:clamp:{T}.{o.name}", f"{T}.{o.name} = {v} (controller errors downgraded): record byte {rec[o.byte]}, expected clamped {max(o.min, min(o.max, v))}",
                                  {"type": T, "assign": [[o.name, v]], "lenient": True})
                    continue
            else:
                setattr(mod, o.name, v)
            got = getattr(mod, o.name)
            want = max(o.min, min(o.max, v))
            if got != want:
                res.violation(f"C11:clamp:{T}.{o.name}", f"{T}.{o.name} = {v} reads {got!r}, expected clamped {want}", {"type": T, "assign": [[o.name, v]]})
    if not any(o.min is not None for o in t.options):
        res.count("clamp_probes", 0)
    # --- exclusivity sequences ---
    ex = [o for o in t.options if o.exclusive_of]
    if ex:
        names = sorted({o.name for o in ex} | {x for o in ex for x in o.exclusive_of})
        for seq in itertools.product([(n, v) for n in names for v in (True, False)], repeat=3):
            res.case((T, "exclusive", seq))
            res.count("exclusive_probes")
            mod = cls()
            model = Model(t)
            for n, v in seq:
                setattr(mod, n, v)
                model.assign(n, v)
                model.sync_partners(n, mod, res)
                if bool(getattr(mod, n)) != bool(v):
                    res.violation(f"C11:value:{T}.{n}", f"{T}.{n} = {v!r} reads back {getattr(mod, n)!r} in {seq}", {"type": T, "assign": [list(x) for x in seq]})
                for o in ex:
                    for other in o.exclusive_of:
                        if getattr(mod, o.name) and getattr(mod, other):
                            res.violation(f"C11:exclusive:{T}.{o.name}", f"{T}: {o.name} and {other} both on after {seq}", {"type": T, "assign": [list(x) for x in seq]})
            for n in names:
                if getattr(mod, n) != model.logical(n):
                    res.violation(f"C11:exclusive-model:{T}.{n}", f"{T}.{n} = {getattr(mod, n)!r}, model {model.logical(n)!r} after {seq}", {"type": T, "assign": [list(x) for x in seq]})
        # constructor with both on
        for a in ex:
            for b in a.exclusive_of:
                res.count("exclusive_probes")
                res.case((T, "exclusive-ctor", a.name, b))
                mod = cls(**{a.name: True, b: True})
                if getattr(mod, a.name) and getattr(mod, b):
                    res.violation(f"C11:exclusive:{T}.{a.name}", f"{T}({a.name}=True, {b}=True) leaves both on", {"type": T})
    # --- all pairs ---
    for o1, o2 in itertools.combinations(t.options, 2):
        for v1 in _edge_values(o1, rng):
            for v2 in _edge_values(o2, rng):
                for order in ((0, 1), (1, 0)) if (o1.exclusive_of or o2.exclusive_of) else ((0, 1),):
                    pair = [(o1.name, v1), (o2.name, v2)]
                    pair = [pair[i] for i in order]
                    case = {"type": T, "path": "setattr", "assign": [[n, _ival(v)] for n, v in pair]}
                    res.case((T, "pair", tuple(pair)))
                    res.count("pair_cases")
                    mod = cls()
                    model = Model(t)
                    for n, v in pair:
                        setattr(mod, n, v)
                        model.assign(n, v)
                        model.sync_partners(n, mod, res)
                    observe(res, T, t, cls, mod, model, case, f"pair {pair}")


def sampler_older_layouts(res, rng, n):
    """A Sampler file whose instrument record is in a layout this library re-emits verbatim (no signature, longer or shorter
    record), carrying non-default options: the options survive the first load AND a save/load of the loaded object."""
    import rv.api as api
    from . import c16
    t = spec.load()["Sampler"]
    by = {o.name: o for o in t.options}
    for k in range(n):
        smp = api.m.Sampler()
        model = Model(t)
        for nm in rng.sample(sorted(by), rng.randint(2, len(by))):
            v = rng.choice(_all_values(by[nm]))
            setattr(smp, nm, v)
            model.assign(nm, v)
            model.sync_partners(nm, smp, res)
        chunks = [(c[0], c[1]) for c in iffparse.parse(api.Synth(smp).read())]
        kind, raw, _expect = c16.make_variant(chunks, rng)
        if rng.random() < 0.4:
            # a record LONGER than the one this library knows (a newer writer)
            out, cur = [], None
            for cid, pl in [(c[0], c[1]) for c in iffparse.parse(raw)]:
                if cid == b"CHNM":
                    cur = struct.unpack("<I", pl)[0]
                if cid == b"CHDT" and cur == 0 and len(pl) >= 0x190:
                    pl = pl + bytes(rng.randint(1, 8))
                    kind += "+longer-record"
                out.append((cid, pl))
            raw = iffparse.build(out)
        case = {"type": "Sampler", "layout": kind}
        res.case(("sampler-older-layout", kind, k))
        res.count("sampler_older_layout_files")
        res.hist("sampler_older_layouts", kind)
        try:
            first = workload.load(raw).module
            second = workload.load(api.Synth(first).read()).module
            third = second.clone()
        except Exception as e:
            res.violation(f"C11:older-layout-raises:{workload.exc_key(e)}", f"Sampler in layout {kind} with options set: load / save / load raised {e!r}", case)
            continue
        for where, m in (("first load", first), ("after re-save", second), ("after a second re-save", third)):
            bad = [(o.name, getattr(m, o.name), model.logical(o.name)) for o in t.options if _ival(getattr(m, o.name)) != _ival(model.logical(o.name))]
            if bad:
                res.violation(f"C11:older-layout:{where.replace(' ', '-')}:Sampler.{bad[0][0]}", f"Sampler in layout {kind}: {where}: {bad[0][0]} is {bad[0][1]!r}, the file was written with {bad[0][2]!r}", case)
                break


def interleaved_writers(res, T, t, cls, rng, n):
    """Two modules of the type with different options written AT THE SAME TIME (their chunk generators advanced alternately, as
    two threads or tasks would): what each generator yields depends on its own module only."""
    import rv.api as api
    by = {o.name: o for o in t.options}
    for k in range(n):
        mods = []
        for j in range(2):
            m = cls()
            for nm in rng.sample(sorted(by), rng.randint(1, len(by))):
                setattr(m, nm, rng.choice(_all_values(by[nm])))
            mods.append(m)
        alone = [list(api.Synth(m).chunks()) for m in mods]
        gens = [api.Synth(m).chunks() for m in mods]
        together = [[], []]
        live = [0, 1]
        while live:
            for j in list(live):
                for _step in range(rng.randint(1, 3)):
                    try:
                        together[j].append(next(gens[j]))
                    except StopIteration:
                        live.remove(j)
                        break
        res.count("interleaved_writer_pairs")
        res.case((T, "interleaved", k))
        for j in range(2):
            if [(a, bytes(b)) for a, b in together[j]] != [(a, bytes(b)) for a, b in alone[j]]:
                diff = next((i for i, (x, y) in enumerate(zip(together[j], alone[j])) if (x[0], bytes(x[1])) != (y[0], bytes(y[1]))), None)
                res.violation(f"C11:interleaved-writers:{T}", f"{T}: written alternately with another {T}, module {j} yields a different chunk #{diff} "
                                                              f"({together[j][diff] if diff is not None and diff < len(together[j]) else None} vs alone {alone[j][diff] if diff is not None else None})",
                              {"type": T, "interleaved": True})
                break


def traffic(res, T, t, mod, rng):
    """Everything else a module lives through between option edits: controller assignments, and for the payload types
    writes to not-yet-exposed user-defined controllers, embedded controller changes, longer envelopes.  None of it is an
    option assignment, so the options must read the same afterwards."""
    import rv.api as api
    from rv.errors import ControllerValueError
    res.count("traffic_rounds")
    cands = [c for c in t.controllers if c.kind in ("range", "compact", "no_offset", "bool", "enum")]
    for c in rng.sample(cands, min(3, len(cands))):
        if T == "MetaModule" and c.name.startswith("user_defined"):
            continue
        dom = c.domain()
        v = dom[rng.randrange(len(dom))]
        try:
            setattr(mod, c.name, v)
            res.count("traffic_controller_assignments")
        except ControllerValueError:
            res.count("traffic_controller_rejected")
    if T == "MetaModule":
        k = mod.user_defined_controllers
        # a fresh embedded module that no existing mapping refers to (values pushed along arbitrary generated mappings are
        # outside this property, DESIGN decision 12)
        amp = mod.project.new_module(api.m.Amplifier)
        if any(mp.module == amp.index for mp in mod.mappings.values):
            return
        if k < 96:
            slot = rng.randrange(k, 96)
            mod.mappings.values[slot] = mod.Mapping((amp.index, 0))       # Amplifier.volume 0..1024
            vt = mod.user_defined[slot].value_type      # a hidden slot may still carry the type of a former target
            if type(vt).__name__ in ("Range", "CompactRange") and vt.min <= 0:
                try:
                    setattr(mod, f"user_defined_{slot + 1}", rng.randint(0, min(1024, vt.max)))
                    res.count("traffic_hidden_slot_writes")
                except ControllerValueError:
                    res.count("traffic_controller_rejected")
        try:
            amp.volume = rng.randint(0, 1024)
            amp.balance = rng.randint(-128, 128)
            res.count("traffic_embedded_assignments")
        except ControllerValueError:
            res.count("traffic_controller_rejected")
    if T == "Sampler":
        e = rng.choice([mod.volume_envelope, mod.panning_envelope, mod.pitch_envelope] + list(mod.effect_control_envelopes))
        npts = rng.choice([2, 12, 13, 14, 40])
        e.points = [(i * 8, rng.randrange(0, 0x8000)) for i in range(npts)]
        res.hist("traffic_envelope_points", npts)


def linked_modules(res, T, t, cls, rng, n):
    """An application keeps two modules of the type in step: a change handler on module A switches the same option ON on
    module B (handlers as instance attributes or as methods of the application's subclass).  Whatever order the library
    notifies in, neither module ever has two mutually exclusive options on - in memory or in what it writes."""
    pairs = [(o.name, x) for o in t.options for x in o.exclusive_of]
    if not pairs:
        return
    by = {o.name: o for o in t.options}
    group = sorted({a for a, _b in pairs} | {b for _a, b in pairs})

    def both_on(m):
        return [(a, b) for a, b in pairs if getattr(m, a) and getattr(m, b)]

    for k in range(n):
        style = ("instance-attribute", "subclass-method")[k % 2]
        bad = []
        fired = [0]

        def make_handler(nm, peer_of):
            def handler(self_or_value, value=None):
                b = peer_of(self_or_value)
                if b is None:
                    return
                fired[0] += 1
                setattr(b, nm, True)
                on = [x for x in by[nm].exclusive_of if getattr(b, x)]
                if not getattr(b, nm) or on:
                    bad.append((nm, on))
            return handler

        if style == "subclass-method":
            ns = {f"on_{nm}_changed": make_handler(nm, lambda self: getattr(self, "rvmon_peer", None)) for nm in group}
            ns.update({"__module__": cls.__module__, "__doc__": cls.__doc__, "rvmon_peer": None})
            sub_cls = type(cls.__name__, (cls,), ns)
            a, b = sub_cls(), cls()
            a.rvmon_peer = b
        else:
            a, b = cls(), cls()
            for nm in group:
                setattr(a, f"on_{nm}_changed", make_handler(nm, lambda _v, b=b: b))
        history = []
        case = {"type": T, "family": "linked-modules", "handlers": style, "history": history}
        ok = True
        for step in range(rng.randint(3, 12)):
            target = rng.choice((a, a, b))
            nm = rng.choice(group if rng.random() < 0.8 else sorted(by))
            v = rng.choice(_all_values(by[nm]))
            history.append(["a" if target is a else "b", nm, _ival(v)])
            setattr(target, nm, v)
            res.count("linked_module_assignments")
            for which, m in (("A", a), ("B", b)):
                if both_on(m):
                    res.violation(f"C11:exclusive-both-on:{T}:linked", f"{T}: with change handlers keeping two modules in step ({style}), module {which} has {both_on(m)} on together after {history[-3:]}", case)
                    ok = False
            if bad:
                res.violation(f"C11:exclusive-both-on:{T}:linked", f"{T}: inside a change handler ({style}), after switching {bad[0][0]} on on the other module its partners {bad[0][1]} are still on (history {history[-3:]})", case)
                ok = False
            if not ok:
                break
        res.count("linked_module_cases")
        res.count("linked_module_handler_calls", fired[0])
        res.case((T, "linked", k))
        if not ok:
            continue
        for which, m in (("A", a), ("B", b)):
            try:
                c = m.clone()
            except Exception as e:
                res.violation(f"C11:clone-raises:{T}:{workload.exc_key(e)}", f"{T} with change handlers ({style}): clone raised {e!r}", case)
                break
            for o in t.options:
                if _ival(getattr(c, o.name)) != _ival(getattr(m, o.name)):
                    res.violation(f"C11:linked:{T}.{o.name}", f"{T}.{o.name} of module {which} is {getattr(m, o.name)!r}, after save/load {getattr(c, o.name)!r}", case)
                    break
            if both_on(c):
                res.violation(f"C11:exclusive-both-on:{T}:linked", f"{T}: saved module {which} has {both_on(c)} on together", case)


def subclass_options(res, T, t, cls, rng, n):
    """Applications subclass module types for builds of SunVox with other options: a subclass RE-DECLARES a ranged option with
    other bounds (dataclasses.replace on the library's declaration) and ADDS options (a new byte behind the record, a free
    bit inside it) - after the stock class has long been in use.  The subclass's declarations are what counts for it: clamping,
    bit positions, record length, and every value together with the inherited options' values."""
    import dataclasses
    import rv.api as api
    from rv.modules import MODULE_CLASSES
    from rv.option import Option
    originals = dict(MODULE_CLASSES)
    used = {}
    for o in t.options:
        for b in range(o.size):
            pos = o.byte * 8 + o.bit + b
            used[pos] = o.name
    nbytes = max(o.byte for o in t.options) + 1
    free = [pos for pos in range(nbytes * 8) if pos not in used]
    by = {o.name: o for o in t.options}
    try:
        for k in range(n):
            ns = {"__module__": cls.__module__, "__doc__": cls.__doc__}
            added = []
            # a flag in a free bit of the record, if there is one; a 4-bit number and a flag in new bytes behind it
            if free and k % 2 == 0:
                pos = rng.choice(free)
                ns["rvmon_free_bit"] = Option(name="rvmon_free_bit", byte=pos // 8, bit=pos % 8, size=1, default=False)
                added.append(("rvmon_free_bit", pos // 8, pos % 8, 1))
            nb = nbytes + rng.randrange(3)
            ns["rvmon_voices"] = Option(name="rvmon_voices", byte=nb, bit=0, size=4, min=0, max=15, default=0)
            added.append(("rvmon_voices", nb, 0, 4))
            ns["rvmon_flag"] = Option(name="rvmon_flag", byte=nb, bit=6, size=1, default=False)
            added.append(("rvmon_flag", nb, 6, 1))
            narrowed = None
            ranged = [o for o in t.options if o.min is not None and o.max is not None and o.max - o.min >= 4]
            if ranged:
                o = rng.choice(ranged)
                lo, hi = o.min + rng.randrange(2), o.max - rng.randint(1, (o.max - o.min) // 2)
                ns[o.name] = dataclasses.replace(getattr(cls, o.name), min=lo, max=hi)
                narrowed = (o.name, lo, hi)
            try:
                sub_cls = type(cls.__name__ + "Build2", (cls,), ns)
            except Exception as e:
                res.count("option_subclass_refused")
                res.hist("option_subclass_refused_why", type(e).__name__)
                continue
            if any(nm not in sub_cls.options for nm, *_ in added):
                res.count("option_subclass_declarations_not_taken")
                continue
            res.count("option_subclasses")
            case = {"type": T, "family": "subclass-options", "added": [list(a) for a in added], "narrowed": narrowed}
            res.case((T, "subclass-options", k))
            mod = sub_cls()
            want = {}
            for nm, _byte, _bit, size in added:
                v = rng.randrange(1 << size) if size > 1 else rng.random() < 0.7
                setattr(mod, nm, v)
                want[nm] = v
            inherited = rng.sample(sorted(by), min(len(by), 3))
            model = Model(t)
            for nm in inherited:
                if narrowed and nm == narrowed[0]:
                    continue
                v = rng.choice(_all_values(by[nm]))
                setattr(mod, nm, v)
                model.assign(nm, v)
                model.sync_partners(nm, mod, res)
            model.sync_group(mod, res)
            if narrowed:
                nm, lo, hi = narrowed
                for given in (hi + 1, by[nm].max, lo - 1, hi, lo, by[nm].max + 50):
                    setattr(mod, nm, given)
                    got = getattr(mod, nm)
                    res.count("narrowed_option_assignments")
                    if got != max(lo, min(hi, given)):
                        res.violation(f"C11:subclass-clamp:{T}.{nm}", f"a subclass declares {T}.{nm} as {lo}..{hi} (the stock range is {by[nm].min}..{by[nm].max}): assigning {given} gives {got}", case)
                        break
                want[nm] = getattr(mod, nm)
            try:
                raw = api.Synth(mod).read()
                rec = _options_record(raw, t, False)
                back = api.read_sunvox_file(BytesIO(raw)).module
            except Exception as e:
                res.violation(f"C11:subclass-raises:{T}:{workload.exc_key(e)}", f"{T} subclass with added / re-declared options: save/load raised {e!r}", case)
                continue
            top = max(b for _n, b, _bit, _s in added)
            if rec is None or len(rec) <= top:
                res.violation(f"C11:subclass-record-short:{T}", f"{T} subclass declares an option in byte {top}; the written record has {None if rec is None else len(rec)} bytes", case)
                continue
            for nm, byte, bit, size in added:
                stored = (rec[byte] >> bit) & ((1 << size) - 1)
                if stored != int(want[nm]):
                    res.violation(f"C11:subclass-bits:{T}", f"{T} subclass: added option {nm} = {want[nm]!r} is stored as {stored} in byte {byte} bit {bit}", case)
                    break
            for nm, v in want.items():
                if _ival(getattr(back, nm, None)) != _ival(v):
                    res.violation(f"C11:subclass-roundtrip:{T}", f"{T} subclass: option {nm} = {v!r} reads back {getattr(back, nm, None)!r} (loaded as {type(back).__name__})", case)
                    break
            for o in t.options:
                if narrowed and o.name == narrowed[0]:
                    continue
                if _ival(getattr(back, o.name)) != _ival(model.logical(o.name)):
                    res.violation(f"C11:subclass-inherited:{T}.{o.name}", f"{T} subclass: inherited option {o.name} reads back {getattr(back, o.name)!r}, expected {model.logical(o.name)!r}", case)
                    break
            MODULE_CLASSES.clear()
            MODULE_CLASSES.update(originals)
            # the stock class is unimpressed
            stock = cls()
            if narrowed:
                nm = narrowed[0]
                setattr(stock, nm, by[nm].max)
                if getattr(stock, nm) != by[nm].max:
                    res.violation(f"C11:subclass-changed-stock:{T}.{nm}", f"after a subclass narrowed {nm}, the stock {T} clamps {by[nm].max} to {getattr(stock, nm)}", case)
    finally:
        MODULE_CLASSES.clear()
        MODULE_CLASSES.update(originals)


def foreign_records(res, T, t, cls, rng, n):
    """Options records as other writers store them: cut short at ANY length (the format pads with zeros, so the missing bytes
    are zeros - down to a record of length 0), or longer than this library writes.  Every option reads what the padded record
    says; aliases of the option declarations in application classes do not rename anything."""
    import rv.api as api
    by = {o.name: o for o in t.options}
    for k in range(n):
        mod = cls()
        for nm in rng.sample(sorted(by), rng.randint(0, len(by))):
            setattr(mod, nm, rng.choice(_all_values(by[nm])))
        raw = api.Synth(mod).read()
        chunks = [(c[0], c[1]) for c in iffparse.parse(raw)]
        cur, pos = None, None
        for i, (cid, pl) in enumerate(chunks):
            if cid == b"CHNM":
                cur = int.from_bytes(pl, "little")
            elif cid == b"CHDT" and cur == t.options_chnm:
                pos = i
        if pos is None:
            res.count("foreign_record_no_options_chunk")
            continue
        rec = chunks[pos][1]
        L = rng.choice([0, 0, 1, len(rec.rstrip(b"\0")), rng.randint(0, len(rec)), len(rec) + 8])
        new_rec = rec[:L] if L <= len(rec) else rec + bytes(L - len(rec))
        padded = new_rec + bytes(64)
        chunks[pos] = (b"CHDT", new_rec)
        case = {"type": T, "family": "foreign-records", "record_length": L, "written_length": len(rec)}
        res.case((T, "foreign-records", k, L))
        res.count("foreign_option_records")
        try:
            back = api.read_sunvox_file(BytesIO(iffparse.build(chunks))).module
            again = back.clone()
        except Exception as e:
            res.violation(f"C11:foreign-record-raises:{T}:{workload.exc_key(e)}", f"{T} with an options record of {L} bytes: {e!r}", case)
            continue
        for o in t.options:
            rawv = (padded[o.byte] >> o.bit) & ((1 << o.size) - 1)
            want = (not bool(rawv)) if (o.size == 1 and o.inverted) else (bool(rawv) if o.size == 1 else rawv)
            if o.min is not None and o.max is not None:
                want = max(o.min, min(o.max, want))
            for which, m_ in (("loaded", back), ("saved again and loaded", again)):
                got = getattr(m_, o.name)
                if _ival(got) != _ival(want):
                    res.violation(f"C11:foreign-record:{T}.{o.name}", f"{T}: options record of {L} bytes (zero-padded by the format): {o.name} {which} reads {got!r}, the record says {want!r}", case)
                    break
            else:
                continue
            break


def both_on_then_assign(res, T, t, cls):
    """A record from another writer in which BOTH members of an exclusive pair are on (nothing forbids such bytes): loading
    shows what the record says; assigning True to one member - also to the one that is on already - leaves the pair with that
    member on and its partner off, in memory and in the saved record."""
    import rv.api as api
    pairs = [(o, t_) for o in t.options for t_ in [x for x in t.options if x.name in o.exclusive_of]]
    if not pairs:
        return
    raw = api.Synth(cls()).read()
    chunks = [(c[0], c[1]) for c in iffparse.parse(raw)]
    cur, pos = None, None
    for i, (cid, pl) in enumerate(chunks):
        if cid == b"CHNM":
            cur = int.from_bytes(pl, "little")
        elif cid == b"CHDT" and cur == t.options_chnm:
            pos = i
    if pos is None:
        return
    for a, b in pairs:
        rec = bytearray(chunks[pos][1].ljust(max(a.byte, b.byte) + 1, b"\0"))
        for o in (a, b):
            rec[o.byte] |= (0 if o.inverted else 1) << o.bit
            if o.inverted:
                rec[o.byte] &= ~(1 << o.bit) & 0xFF
        new = list(chunks)
        new[pos] = (b"CHDT", bytes(rec))
        case = {"type": T, "family": "both-on-then-assign", "pair": [a.name, b.name]}
        res.case((T, "both-on", a.name, b.name))
        res.count("records_with_both_exclusive_members_on")
        try:
            mod = api.read_sunvox_file(BytesIO(iffparse.build(new))).module
        except Exception as e:
            res.violation(f"C11:foreign-record-raises:{T}:{workload.exc_key(e)}", f"{T} with {a.name} and {b.name} both on in the record: {e!r}", case)
            continue
        if not (getattr(mod, a.name) and getattr(mod, b.name)):
            res.count("observation_both_on_record_normalised_by_the_loader")
        setattr(mod, a.name, True)
        if getattr(mod, b.name) or not getattr(mod, a.name):
            res.violation(f"C11:exclusive-both-on:{T}:after-assignment", f"{T}: loaded with {a.name} and {b.name} both on; after {a.name} = True: {a.name}={getattr(mod, a.name)}, {b.name}={getattr(mod, b.name)}", case)
            continue
        back = mod.clone()
        if getattr(back, b.name) or not getattr(back, a.name):
            res.violation(f"C11:exclusive-both-on:{T}:saved", f"{T}: after {a.name} = True the saved record still has {b.name} on", case)


def random_full(res, T, rng, n):
    from rv.modules import MODULE_CLASSES
    t = spec.load()[T]
    cls = MODULE_CLASSES[t.mtype]
    if rng.random() < 0.5:
        # an application's own subclass (adds a helper, changes nothing): its instances - and, since the type name now
        # resolves to it, everything loaded from files - carry the same options
        cls = type(cls.__name__, (cls,), {"rvmon_helper": lambda self: self.name, "__module__": cls.__module__, "__doc__": cls.__doc__})
        res.count("runs_on_application_subclass")
    for _ in range(n):
        names = [o.name for o in t.options]
        rng.shuffle(names)
        by = {o.name: o for o in t.options}
        assign = [(nm, rng.choice(_all_values(by[nm]))) for nm in names]
        if rng.random() < 0.3:
            # numbers as other libraries hand them over: numpy integer scalars of any width (not `int` subclasses), for the
            # multi-bit options; numpy booleans for the flags
            try:
                import numpy as _np
                kinds = (_np.uint8, _np.int16, _np.int32, _np.int64, _np.uint16)
                assign = [(nm, (rng.choice(kinds)(v) if by[nm].size > 1 and not isinstance(v, enum.Enum) and 0 <= int(v) < 128 else
                                (_np.bool_(v) if by[nm].size == 1 and rng.random() < 0.5 else v))) for nm, v in assign]
                res.count("assignments_with_numpy_scalars")
            except ImportError:
                pass
        # sometimes assign some options twice
        for _k in range(rng.randint(0, 3)):
            nm = rng.choice(names)
            assign.append((nm, rng.choice(_all_values(by[nm]))))
        path = rng.choice(("setattr", "constructor", "mixed", "setattr-on-generated"))
        case = {"type": T, "path": path, "assign": [[nm, _ival(v)] for nm, v in assign]}
        res.case((T, path, tuple((nm, _ival(v)) for nm, v in assign)))
        res.count("random_full_assignments")
        model = Model(t)
        group = model.group_names()
        if path == "constructor":
            kw = dict(assign)  # last value per option wins
            mod = cls(**kw)
            for nm, v in kw.items():
                if nm not in group:
                    model.assign(nm, v)
            model.sync_group(mod, res, kw)
        else:
            kw = {}
            rest = assign
            if path == "mixed":
                k = rng.randint(0, len(assign))
                kw = dict(assign[:k])
                rest = assign[k:]
            if path == "setattr-on-generated":
                # the module already has a life: generated controllers, payload (samples, long envelopes, embedded
                # project, mappings) and options; then every option is assigned
                try:
                    gc = workload.module_case(rng.randrange(1 << 30), rng.randrange(1 << 20), "quick", T, ctx="synth")
                    mod = gc.obj
                    case["generated_base"] = [gc.seed, gc.index]
                    res.count("generated_bases")
                except Exception:
                    mod = cls()
            else:
                mod = cls(**kw)
            if T == "MetaModule":
                # exposed controllers may be labelled with any text, also with text that reads like one of the module's
                # own option names; options are still options
                lab = rng.sample([o.name for o in t.options], 3)
                for slot, nm in zip((0, 1, rng.randrange(96)), lab):
                    mod.user_defined[slot].label = rng.choice([nm.replace("_", " ").title(), nm, nm.upper()])
                case["labels_like_options"] = lab
            for nm, v in kw.items():
                if nm not in group:
                    model.assign(nm, v)
            model.sync_group(mod, res, kw)
            for nm, v in rest:
                setattr(mod, nm, v)
                model.assign(nm, v)
                model.sync_partners(nm, mod, res)
        if rng.random() < 0.5:
            traffic(res, T, t, mod, rng)
            model.sync_group(mod, res)
            case["traffic"] = True
        observe(res, T, t, cls, mod, model, case, f"{path} assignment")
        # second stage: the module is now taken from a file (clone) and its options are changed again,
        # in particular lowered / switched off; what is saved must be the new state, not the loaded record
        if rng.random() < 0.25:
            # third stage: the module lives inside the project of a MetaModule that came from a file; its options are
            # edited there, the MetaModule is saved and loaded again
            import rv.api as api
            holder_kind = rng.choice(("metamodule", "sampler-effect", "sampler-effect-metamodule"))
            case["holder"] = holder_kind
            res.hist("embedded_stage_holders", holder_kind)

            def inner_of(h):
                if holder_kind == "metamodule":
                    return h.project.modules[1]
                if holder_kind == "sampler-effect":
                    return h.effect.module
                return h.effect.module.project.modules[1]
            try:
                if holder_kind == "metamodule":
                    holder = api.m.MetaModule()
                    holder.project.attach_module(mod.clone())
                elif holder_kind == "sampler-effect":
                    holder = api.m.Sampler()
                    holder.effect = api.Synth(mod.clone())
                else:
                    holder = api.m.Sampler()
                    mm_ = api.m.MetaModule()
                    mm_.project.attach_module(mod.clone())
                    holder.effect = api.Synth(mm_)
                loaded = holder.clone()
                inner = inner_of(loaded)
                model3 = Model(t)
                model3.stored = dict(model.stored)
                model3.sync_group(inner, res)
                stage3 = []
                for nm in rng.sample(names, rng.randint(1, len(names))):
                    o = by[nm]
                    cur = getattr(inner, nm)
                    v = (not cur) if o.size == 1 else rng.choice([x for x in _all_values(o) if x != _ival(cur)])
                    setattr(inner, nm, v)
                    model3.assign(nm, v)
                    model3.sync_partners(nm, inner, res)
                    stage3.append([nm, _ival(v)])
                again = loaded.clone()
                res.count("embedded_stage_assignments")
                for o in t.options:
                    got, want = getattr(inner_of(again), o.name), model3.logical(o.name)
                    if _ival(got) != _ival(want):
                        res.violation(f"C11:embedded:{T}.{o.name}", f"{T}.{o.name} edited inside a loaded holder ({holder_kind}): got {got!r} after save/load, expected {want!r} (edits {stage3})",
                                      dict(case, stage3=stage3))
                        break
            except Exception as e:
                res.violation(f"C11:embedded-raises:{T}:{workload.exc_key(e)}", f"{T} inside a loaded MetaModule: {e!r}", case)
        if rng.random() < 0.5:
            mod2 = mod.clone()
            model.sync_group(mod2, res)
            stage2 = []
            for nm in rng.sample(names, rng.randint(1, len(names))):
                o = by[nm]
                cur = getattr(mod2, nm)
                if o.size == 1:
                    v = not cur
                else:
                    vals = [x for x in _all_values(o) if x != _ival(cur)]
                    v = min(vals) if rng.random() < 0.5 else rng.choice(vals)
                setattr(mod2, nm, v)
                model.assign(nm, v)
                model.sync_partners(nm, mod2, res)
                stage2.append([nm, _ival(v)])
            if rng.random() < 0.5:
                traffic(res, T, t, mod2, rng)
            res.count("two_stage_assignments")
            res.case((T, "stage2", tuple(map(tuple, stage2))))
            observe(res, T, t, cls, mod2, model, dict(case, stage2=stage2), "second-stage assignment on a cloned (loaded) module")
        if res.evaluations % 50 == 1:
            res.sample(case)


def application_aliases(T):
    """Application class bodies that keep handles on the type's option declarations under names of their own (a UI panel; a
    subclass offering shorter spellings).  Nothing about the type changes by that; everything that follows in the shard runs
    with these classes defined."""
    from rv.modules import MODULE_CLASSES
    t = spec.load()[T]
    cls = MODULE_CLASSES[t.mtype]
    type("Panel" + T, (), {f"opt_{k}": o_ for k, o_ in enumerate(cls.options.values())})
    type(cls.__name__ + "Aliased", (cls,), {f"alias_{k}": o_ for k, o_ in enumerate(cls.options.values())} | {"__module__": cls.__module__, "__doc__": cls.__doc__})
    MODULE_CLASSES[t.mtype] = cls


def run_shard(spec_, res):
    rng = random.Random(spec_["seed"])
    if spec_.get("shard", 0) % 2 == 0 or spec_["mode"] != "structured":
        application_aliases(spec_["type"])
        res.count("shards_with_application_aliases_of_options")
    if spec_["mode"] == "structured":
        structured(res, spec_["type"], rng, spec_["tier"])
        res.exhaustive = True
    else:
        random_full(res, spec_["type"], rng, spec_["n"])
        if spec_["type"] == "Sampler":
            sampler_older_layouts(res, rng, 40 if spec_["tier"] == "quick" else 300)
        from rv.modules import MODULE_CLASSES
        interleaved_writers(res, spec_["type"], spec.load()[spec_["type"]], MODULE_CLASSES[spec.load()[spec_["type"]].mtype], rng, 20 if spec_["tier"] == "quick" else 200)
        linked_modules(res, spec_["type"], spec.load()[spec_["type"]], MODULE_CLASSES[spec.load()[spec_["type"]].mtype], rng, 40 if spec_["tier"] == "quick" else 400)
        subclass_options(res, spec_["type"], spec.load()[spec_["type"]], MODULE_CLASSES[spec.load()[spec_["type"]].mtype], rng, 12 if spec_["tier"] == "quick" else 120)
        foreign_records(res, spec_["type"], spec.load()[spec_["type"]], MODULE_CLASSES[spec.load()[spec_["type"]].mtype], rng, 30 if spec_["tier"] == "quick" else 300)
        both_on_then_assign(res, spec_["type"], spec.load()[spec_["type"]], MODULE_CLASSES[spec.load()[spec_["type"]].mtype])
    res.count("types_" + spec_["mode"])


def replay(case, res):
    from rv.modules import MODULE_CLASSES
    T = case["type"]
    t = spec.load()[T]
    cls = MODULE_CLASSES[t.mtype]
    mod = cls()
    model = Model(t)
    for nm, v in case.get("assign", []):
        setattr(mod, nm, v)
        model.assign(nm, v)
        model.sync_partners(nm, mod, res)
    observe(res, T, t, cls, mod, model, case, "replay (setattr order)")
