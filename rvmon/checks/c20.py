"""C20 - MultiCtl fan-out stays within each target's range and is monotone."""
import enum
import random

from .. import env, spec, workload

PROPERTY = "C20"
LEVEL = "exploration"
RULE = ("cases: (a) one MultiCtl.macro call for a (module type, attached controller) target or a group of targets, incl. refusal probes "
        "(17 targets, two targets on one module); (b) one (parameter tuple: gain, quantization, per-target window and orientation, curve; "
        "input value) delivery through a real in-project MultiCtl, input axis 0..32768 enumerated completely per tuple; (c) the same on "
        "the pure convert_value function. distinct = distinct tuples x inputs; non-trivial = all")
EXHAUSTIVE_AXIS = "all (type, attached controller) macro targets; the input axis 0..32768 for every sampled parameter tuple"
ASSUMPTIONS = [
    "targets of the delivery workload are ranged controllers in the library's sense (Range, CompactRange, NoOffsetRange); unit-dependent (warn-only) controllers, enums and booleans are not delivered to by MultiCtl and are only used as macro targets",
    "for compact targets the mapping window is in target units and is generated within 0..span (as macro itself does); for scaled ranges windows lie in 0..32768",
    "any ControllerValueError raised while delivering to a scaled range counts as a range violation (strict mode is how an overshoot surfaces)",
    "monotonicity is judged for the default curve and for generated non-decreasing curves only",
]
REQUIRED_COUNTERS = ["macro_targets", "macro_refusals", "deliveries", "unset_mapping_checks", "pure_conversions"]
WORKERS = {"quick": 4, "thorough": 16}


def plan(tier, seed):
    specs = []
    types = sorted(spec.load())
    n = 2 if tier == "quick" else 8
    for i in range(n):
        specs.append({"tier": tier, "part": "macro", "types": types[i::n], "seed": env.shard_seed(i)})
    k = 4 if tier == "quick" else 16
    for i in range(k):
        specs.append({"tier": tier, "part": "drive", "tuples": 6 if tier == "quick" else 60, "seed": env.shard_seed(100 + i)})
    for i in range(2 if tier == "quick" else 16):
        specs.append({"tier": tier, "part": "pure", "tuples": 60 if tier == "quick" else 400, "seed": env.shard_seed(200 + i)})
    return specs


def _ranged_targets():
    """[(type cls_name, controller name, kind, lo, hi)] for delivery."""
    out = []
    for T, t in sorted(spec.load().items()):
        for c in t.controllers:
            if c.kind in ("range", "compact", "no_offset") and c.attached:
                out.append((T, c.name, c.kind, c.min, c.max))
    return out


def _val(x):
    return x.value if isinstance(x, enum.Enum) else x


# ------------------------------------------------------------------ (a) macro
def part_macro(res, rng, types, tier):
    import rv.api as api
    from rv.errors import MappingError
    from rv.modules import MODULE_CLASSES
    from rv.modules.multictl import MultiCtl
    sp = spec.load()
    all_targets = [(T, c.name) for T, t in sorted(sp.items()) for c in t.controllers if c.attached]
    for T in types:
        t = sp[T]
        if T == "Output":
            continue
        cls = MODULE_CLASSES[t.mtype]
        for c in t.controllers:
            if not c.attached:
                continue
            res.case(("macro", T, c.name))
            res.count("macro_targets")
            p = workload.new_project()
            mod = p.new_module(cls)
            case = {"type": T, "controller": c.name}
            by_obj = rng.random() < 0.5
            try:
                mc = MultiCtl.macro(p, (mod, cls.controllers[c.name] if by_obj else c.name))
            except Exception as e:
                res.violation(f"C20:macro-raises:{type(e).__name__}", f"MultiCtl.macro(project, ({T}, {c.name!r})) raised {e!r}", case)
                continue
            if not isinstance(mc, MultiCtl) or mc.parent is not p or p.modules[mc.index] is not mc:
                res.violation("C20:macro-not-attached", f"macro for {T}.{c.name} did not return an attached MultiCtl", case)
                continue
            if mc.out_links != [mod.index] or mc.index not in mod.in_links:
                res.violation("C20:macro-not-linked", f"macro for {T}.{c.name}: out_links={mc.out_links}, target in_links={mod.in_links}", case)
                continue
            if mc.mappings.values[0].controller != c.number:
                res.violation("C20:macro-wrong-mapping", f"macro for {T}.{c.name}: mapping names controller {mc.mappings.values[0].controller}, expected {c.number}", case)
                continue
            if c.kind in ("range", "compact", "no_offset"):
                prev = None
                for v in (0, 1, 100, 8192, 16384, 24576, 32767, 32768):
                    try:
                        mc.value = v
                    except Exception as e:
                        res.violation(f"C20:macro-delivery-raises:{c.kind}", f"macro({T}.{c.name}); value={v} raised {e!r}", dict(case, input=v))
                        break
                    got = getattr(mod, c.name)
                    if not (c.min <= got <= c.max):
                        res.violation(f"C20:macro-out-of-range:{c.kind}", f"macro({T}.{c.name}); value={v} delivered {got} outside [{c.min},{c.max}]", dict(case, input=v))
                        break
                    if prev is not None and got < prev:
                        res.violation(f"C20:macro-not-monotone:{c.kind}", f"macro({T}.{c.name}); value={v} delivered {got} < previous {prev}", dict(case, input=v))
                        break
                    prev = got
    # groups, limits, duplicates
    for g in range(20 if tier == "quick" else 120):
        k = rng.randint(2, 16)
        picks = rng.sample(all_targets, k)
        p = workload.new_project()
        pairs = []
        for T, cname in picks:
            mod = p.new_module(MODULE_CLASSES[sp[T].mtype])
            pairs.append((mod, cname))
        res.case(("macro-group", tuple(picks)))
        res.count("macro_groups")
        case = {"group": [list(x) for x in picks]}
        initial = rng.choice([None, 0, 0, 12345, 32768])
        try:
            mc = MultiCtl.macro(p, *pairs, initial=initial)
        except Exception as e:
            res.violation(f"C20:macro-group-raises:{type(e).__name__}", f"macro for group {picks} raised {e!r}", case)
            continue
        if initial is not None:
            # an initial input is an input: the targets hold what assigning that value to the bundle delivers
            try:
                at_creation = [_val(getattr(m, cn)) for m, cn in pairs]
                mc.value = (initial + 1) % 32769
                mc.value = initial
                by_assignment = [_val(getattr(m, cn)) for m, cn in pairs]
                res.count("macro_initial_checks")
                if at_creation != by_assignment:
                    res.violation("C20:macro-initial-not-delivered", f"macro(..., initial={initial}) left the targets at {at_creation}; assigning value={initial} delivers {by_assignment} (group {picks})", dict(case, initial=initial))
                    continue
            except Exception as e:
                res.violation(f"C20:macro-group-raises:{type(e).__name__}", f"driving the fresh bundle of group {picks} raised {e!r}", case)
                continue
        try:
            p.read()        # "is created": the project holding the new bundle is an ordinary, saveable project
        except Exception as e:
            res.violation(f"C20:macro-unsaveable:{type(e).__name__}", f"after macro() for group {picks} the project cannot be saved: {e!r}", case)
            continue
        if mc.out_links != [m.index for m, _ in pairs]:
            res.violation("C20:macro-group-order", f"group linked as {mc.out_links}, expected {[m.index for m, _ in pairs]}", case)
            continue
        for i, (m, cname) in enumerate(pairs):
            if mc.mappings.values[i].controller != type(m).controllers[cname].number:
                res.violation("C20:macro-group-mapping", f"mapping {i} names controller {mc.mappings.values[i].controller}", case)
                break
    for k in (17, 18, 25):
        res.case(("macro-too-many", k))
        res.count("macro_refusals")
        p = workload.new_project()
        pairs = [(p.new_module(api.m.Amplifier), "volume") for _ in range(k)]
        n_before = len(p.modules)
        try:
            MultiCtl.macro(p, *pairs)
        except MappingError:
            if len(p.modules) != n_before:
                res.violation("C20:macro-refusal-side-effect", f"refused macro with {k} targets left a module behind", {"k": k})
        except Exception as e:
            res.violation("C20:macro-limit-wrong-error", f"macro with {k} targets raised {e!r}, expected MappingError", {"k": k})
        else:
            res.violation("C20:macro-limit-accepted", f"macro accepted {k} targets", {"k": k})
    for k in (2, 3, 16):
        res.case(("macro-dup", k))
        res.count("macro_refusals")
        p = workload.new_project()
        mods = [p.new_module(api.m.Amplifier) for _ in range(k - 1)]
        pairs = [(m, "volume") for m in mods] + [(mods[rng.randrange(len(mods))], "balance")]
        rng.shuffle(pairs)
        try:
            MultiCtl.macro(p, *pairs)
        except MappingError:
            pass
        except Exception as e:
            res.violation("C20:macro-dup-wrong-error", f"macro with two targets on one module raised {e!r}", {"k": k})
        else:
            res.violation("C20:macro-dup-accepted", "macro accepted two targets on one module", {"k": k})
    # exactly 16 is allowed
    p = workload.new_project()
    pairs = [(p.new_module(api.m.Amplifier), "volume") for _ in range(16)]
    res.case(("macro-16",))
    try:
        MultiCtl.macro(p, *pairs)
    except Exception as e:
        res.violation(f"C20:macro-raises:{type(e).__name__}", f"macro with 16 targets raised {e!r}", {"k": 16})
    res.sample({"part": "macro", "target": ["Amplifier", "balance"], "expect": "MultiCtl attached, linked, mapping.controller == 2"})


# ------------------------------------------------------------------ (b) in-project drive
def monotone_curve(rng):
    style = rng.choice(("default", "default", "steps", "random", "flat", "extremes"))
    if style == "default":
        return None
    if style == "flat":
        v = rng.randint(0, 32768)
        return [v] * 257
    if style == "extremes":
        k = rng.randint(0, 256)
        return [0] * k + [32768] * (257 - k)
    vals = sorted(rng.randint(0, 32768) for _ in range(257))
    if style == "steps":
        vals = sorted(rng.choice(vals[::16]) for _ in range(257))
    return vals


def part_drive(res, rng, n_tuples):
    import rv.api as api
    from rv.errors import ControllerValueError
    from rv.modules import MODULE_CLASSES
    from rv.modules.multictl import MultiCtl
    sp = spec.load()
    targets = _ranged_targets()
    by_kind = {}
    for t in targets:
        k = "min1" if t[3] == 1 else ("neg" if t[3] < 0 and t[2] == "range" else t[2])
        by_kind.setdefault(k, []).append(t)
    for ti in range(n_tuples):
        p = workload.new_project()
        n_targets = rng.choice([1, 1, 2, 3, 5, 16])
        gain = rng.choice([0, 1, 255, 256, 257, 512, 1024, rng.randint(0, 1024)])
        quant = rng.choice([0, 1, 2, 3, 7, 100, 32767, 32768, rng.randint(0, 32768)])
        curve = monotone_curve(rng)
        chosen = []
        mappings = []
        unset_index = rng.randrange(n_targets + 1) if n_targets > 1 else (1 if rng.random() < 0.5 else None)
        mods = []
        for i in range(n_targets):
            kind = rng.choice(sorted(by_kind))
            T, cname, ckind, lo, hi = rng.choice(by_kind[kind])
            cls = MODULE_CLASSES[sp[T].mtype]
            m = p.new_module(cls)
            span = hi - lo
            top = span if ckind == "compact" else 32768
            a, b = rng.choice([(0, top), (top, 0), (rng.randint(0, top), rng.randint(0, top)), (0, 0), (top, top), (0, 1), (top - 1, top)])
            a, b = max(0, a), max(0, b)
            number = cls.controllers[cname].number
            if i == unset_index:
                number = 0
            mappings.append((a, b, number, 0, 0, 0, 0, 0))
            chosen.append((T, cname, ckind, lo, hi, a, b, number))
            mods.append(m)
        out_offset = rng.choice([0, 0, 1, -1, 48, -48, 16384, -16384, rng.randint(-16384, 16384)])
        kw = dict(gain=gain, quantization=quant, mappings=mappings, out_offset=out_offset)
        if rng.random() < 0.5:
            kw["response"] = rng.choice([0, 1, 250, 500, 999, 1000])
            kw["sample_rate"] = rng.choice([1, 100, 1000, 32768])
            res.count("drive_tuples_with_response_set")
        if curve is not None:
            kw["curve"] = curve
        mc = p.new_module(MultiCtl, **kw)
        mc >> mods
        if curve is None and rng.random() < 0.25:
            # the curve installed through the chunk's own function-based setter, with a function that overshoots the documented
            # maximum (the setter clamps); still a monotone curve
            k_ = rng.choice([130, 200, 1000])
            mc.curve.set_via_fn(lambda x, k_=k_: x * k_)
            res.count("curves_installed_via_set_via_fn")
        elif curve is None and rng.random() < 0.5:
            # an unrelated MultiCtl (own project) has its curve table redrawn in place, non-monotonically;
            # the bundle under test was created with the default curve and must keep behaving like it
            other = api.Project().new_module(MultiCtl)
            for i in range(257):
                other.curve.values[i] = (i * 7919) % 32769 if i % 2 else 32768 - (i * 101) % 32768
            res.count("sibling_curve_scribbles")
        case = {"gain": gain, "quantization": quant, "out_offset": out_offset, "curve": "default" if curve is None else curve[::32],
                "targets": [list(c) for c in chosen]}
        snaps = []
        for m, c in zip(mods, chosen):
            if c[7] == 0:
                snaps.append({n: _val(getattr(m, n)) for n in type(m).controllers})
            else:
                snaps.append(None)
        prev = [None] * n_targets
        distinct_vals = [set() for _ in range(n_targets)]
        stop = False
        for v in range(32769):
            try:
                mc.value = v
            except ControllerValueError as e:
                res.violation("C20:delivery-out-of-range", f"value={v}: delivery raised {e!r} for tuple {case}", dict(case, input=v))
                stop = True
                break
            except Exception as e:
                res.violation(f"C20:delivery-raises:{type(e).__name__}", f"value={v}: delivery raised {e!r} for tuple {case}", dict(case, input=v))
                stop = True
                break
            for i, (m, c) in enumerate(zip(mods, chosen)):
                T, cname, ckind, lo, hi, a, b, number = c
                if number == 0:
                    continue
                got = getattr(m, cname)
                if got < lo or got > hi:
                    res.violation(f"C20:out-of-range:{ckind}", f"value={v}: {T}.{cname} received {got} outside [{lo},{hi}] for tuple {case}", dict(case, input=v, target=i))
                    stop = True
                    break
                pv = prev[i]
                if pv is not None and ((a <= b and got < pv) or (a > b and got > pv)):
                    res.violation(f"C20:not-monotone:{ckind}:{'normal' if a <= b else 'reversed'}",
                                  f"value={v}: {T}.{cname} received {got} after {pv} (window {a}..{b}) for tuple {case}", dict(case, input=v, target=i))
                    stop = True
                    break
                prev[i] = got
                distinct_vals[i].add(got)
            if stop:
                break
        # second sweep on the SAME bundle after its mapping windows were flipped IN PLACE, starting with the input that
        # was sent last (a fan-out that remembers what it delivered must not skip it), going downwards
        if not stop and ti % 2 == 0:
            for i, c in enumerate(chosen):
                mp = mc.mappings.values[i]
                mp.min, mp.max = mp.max, mp.min
            prev2 = [None] * n_targets
            for v in range(32768, -1, -1 if ti % 4 == 0 else -37):
                try:
                    mc.value = v
                except Exception as e:
                    res.violation(f"C20:delivery-raises-after-window-edit:{type(e).__name__}", f"value={v} after flipping the windows in place: {e!r} for tuple {case}", dict(case, input=v))
                    stop = True
                    break
                for i, (m, c) in enumerate(zip(mods, chosen)):
                    T, cname, ckind, lo, hi, a, b, number = c
                    if number == 0:
                        continue
                    got = getattr(m, cname)
                    if got < lo or got > hi:
                        res.violation(f"C20:out-of-range-after-window-edit:{ckind}", f"value={v}: {T}.{cname} received {got} outside [{lo},{hi}] after the windows were flipped in place", dict(case, input=v, target=i))
                        stop = True
                        break
                    pv = prev2[i]
                    # windows are now (b, a): input decreasing => output must move the other way round
                    if pv is not None and ((b <= a and got > pv) or (b > a and got < pv)):
                        res.violation(f"C20:not-monotone-after-window-edit:{ckind}",
                                      f"input {v} (descending sweep, window now {b}..{a}): {T}.{cname} received {got} after {pv}; tuple {case}", dict(case, input=v, target=i))
                        stop = True
                        break
                    prev2[i] = got
                if stop:
                    break
            res.count("second_sweeps_after_inplace_edit")
        # one more ascending sweep on the bundle as it is now (after everything that was sent before): the delivered value is a
        # function of the input, not of what was sent earlier
        if not stop:
            prev3 = [None] * n_targets
            flipped = (ti % 2 == 0)
            for v in range(0, 32769, 131):
                try:
                    mc.value = v
                except Exception as e:
                    res.violation(f"C20:delivery-raises:{type(e).__name__}", f"value={v} (third sweep): {e!r} for tuple {case}", dict(case, input=v))
                    stop = True
                    break
                for i, (m, c) in enumerate(zip(mods, chosen)):
                    T, cname, ckind, lo, hi, a, b, number = c
                    if number == 0:
                        continue
                    if flipped:
                        a, b = b, a
                    got = getattr(m, cname)
                    pv = prev3[i]
                    if got < lo or got > hi or (pv is not None and ((a <= b and got < pv) or (a > b and got > pv))):
                        res.violation(f"C20:not-monotone:{ckind}:repeated-sweep", f"input {v} (a further ascending sweep on a bundle that was driven before): {T}.{cname} received {got} after {pv} "
                                                                                 f"(window {a}..{b}, range {lo}..{hi}); tuple {case}", dict(case, input=v, target=i))
                        stop = True
                        break
                    prev3[i] = got
                if stop:
                    break
            res.count("repeated_sweeps")
        res.evaluations += 32769
        res.distinct += 32769
        res.count("deliveries", 32769 * sum(1 for c in chosen if c[7]))
        res.count("drive_tuples")
        res.hist("targets_by_kind", "+".join(sorted({c[2] for c in chosen})))
        res.count("distinct_delivered_values", sum(len(s) for s in distinct_vals))
        # unset mappings leave their target untouched
        for m, c, s in zip(mods, chosen, snaps):
            if s is None:
                continue
            res.count("unset_mapping_checks")
            now = {n: _val(getattr(m, n)) for n in type(m).controllers}
            if now != s:
                changed = sorted(k for k in s if s[k] != now[k])
                res.violation("C20:unset-mapping-writes", f"link with mapping controller 0 changed {c[0]}.{changed} (tuple {case})", case)
        if ti == 0:
            res.sample({"part": "drive", **case, "inputs": "0..32768"})
    res.exhaustive = True


# ------------------------------------------------------------------ (b2) bundles with a history
def part_histories(res, rng, n_tuples):
    """Bundles that have lived: some targets were unplugged again after linking (freed slots before live ones), targets whose
    range depends on a unit controller set to any of its units, bystander modules before and after the MultiCtl.  Inputs are
    sampled (every 257th + both ends).  Judged: live mapped ranged targets in range and monotone; every other controller of
    every module of the project (unplugged targets, unmapped targets, bystanders, the other controllers of mapped targets,
    the MultiCtl's own parameters) keeps its value, except that a unit-dependent target may move inside the range of its
    CURRENT unit."""
    import rv.api as api
    from rv.modules import MODULE_CLASSES
    from rv.modules.multictl import MultiCtl
    sp = spec.load()
    ranged = _ranged_targets()
    dependent = [(T, c.name, c) for T, t in sorted(sp.items()) for c in t.controllers if c.kind == "dependent" and c.attached]
    inputs = sorted(set(range(0, 32769, 257)) | {0, 1, 2, 32767, 32768})
    for ti in range(n_tuples):
        p = workload.new_project()
        first = p.new_module(api.m.Filter)
        n_targets = rng.randint(2, 7)
        mods, chosen, mappings = [], [], []
        dead = set()
        for i in range(n_targets):
            beyond = False
            if dependent and rng.random() < 0.3:
                T, cname, sc = rng.choice(dependent)
                cls = MODULE_CLASSES[sp[T].mtype]
                unit = rng.choice(list(sc.ranges))
                m = p.new_module(cls, **{sc.depends_on: getattr(cls, sc.enum)[unit]})
                lo, hi = sc.ranges[unit]
                ckind = "dependent"
            else:
                T, cname, ckind, lo, hi = rng.choice(ranged)
                if chosen and rng.random() < 0.4:
                    # another type whose controller carries the same NUMBER as the previous target's (one window object may
                    # then serve both links, see below)
                    same = [r for r in ranged if r[2] != "compact" and r[0] != chosen[-1][0]
                            and MODULE_CLASSES[sp[r[0]].mtype].controllers[r[1]].number == chosen[-1][7] != 0]
                    if same:
                        T, cname, ckind, lo, hi = rng.choice(same)
                cls = MODULE_CLASSES[sp[T].mtype]
                m = p.new_module(cls)
            top = (hi - lo) if ckind == "compact" else 32768     # as in part_drive: a compact target's window is in its own units
            a, b = rng.choice([(0, top), (top, 0), (rng.randint(0, top), rng.randint(0, top))])
            number = 0 if rng.random() < 0.2 else cls.controllers[cname].number
            if number and rng.random() < 0.1:
                # a mapping that names a controller number the target does not have (a bundle re-pointed at another type):
                # nothing to deliver there
                number = len(cls.controllers) + rng.randint(1, 4)
                beyond = True
                res.count("history_mappings_beyond_the_targets_controllers")
            mappings.append((a, b, number, 0, 0, 0, 0, 0))
            chosen.append([T, cname, ckind, lo, hi, a, b, number])
            if beyond:
                dead.add(i)
            mods.append(m)
        mc = p.new_module(MultiCtl, gain=rng.choice([256, 256, 1024, rng.randint(0, 1024)]), quantization=rng.choice([32768, 32768, 7, rng.randint(0, 32768)]),
                          mappings=mappings)
        mc >> mods
        # "both targets use this window": ONE Mapping object stored in two slots whose targets are different types with the same
        # controller number
        for j in range(1, n_targets):
            i = j - 1
            if i not in dead and j not in dead and chosen[i][7] == chosen[j][7] != 0 and chosen[i][0] != chosen[j][0] and "compact" not in (chosen[i][2], chosen[j][2]) \
                    and "dependent" not in (chosen[i][2], chosen[j][2]) and rng.random() < 0.7:
                mc.mappings.values[j] = mc.mappings.values[i]
                chosen[j][5], chosen[j][6] = chosen[i][5], chosen[i][6]
                res.count("history_bundles_with_one_mapping_object_in_two_slots")
        unplugged = sorted(rng.sample(range(n_targets), rng.randint(0, max(0, n_targets - 1)))) if rng.random() < 0.7 else []
        for j in unplugged:
            p.connect(mc, ~mods[j])
        last = p.new_module(api.m.Amplifier)        # the project's last module is not a target either
        if unplugged:
            res.count("history_bundles_with_freed_slots")
            if any(j < max(set(range(n_targets)) - set(unplugged)) for j in unplugged):
                res.count("history_bundles_with_freed_slot_before_live_one")
        case = {"part": "histories", "targets": chosen, "unplugged": unplugged, "gain": mc.gain, "quantization": mc.quantization}
        res.case(("histories", tuple(map(tuple, chosen)), tuple(unplugged), mc.gain, mc.quantization))
        everyone = [first] + mods + [mc, last]
        snaps = [{n: _val(getattr(m, n)) for n in type(m).controllers} for m in everyone]
        prev = [None] * n_targets
        bad = False
        for v in inputs:
            try:
                mc.value = v
            except Exception as e:
                res.violation(f"C20:delivery-raises:{type(e).__name__}", f"value={v}: delivery raised {e!r} for bundle {case}", dict(case, input=v))
                bad = True
                break
            for i, (m, c) in enumerate(zip(mods, chosen)):
                T, cname, ckind, lo, hi, a, b, number = c
                got = _val(getattr(m, cname))
                if got < lo or got > hi:
                    res.violation(f"C20:out-of-range:{ckind}", f"value={v}: {T}.{cname} holds {got} outside [{lo},{hi}] (bundle {case})", dict(case, input=v, target=i))
                    bad = True
                    break
                if number == 0 or i in dead or i in unplugged or ckind == "dependent":
                    continue
                pv = prev[i]
                if pv is not None and ((a <= b and got < pv) or (a > b and got > pv)):
                    res.violation(f"C20:not-monotone:{ckind}:{'normal' if a <= b else 'reversed'}", f"value={v}: {T}.{cname} received {got} after {pv} (bundle {case})", dict(case, input=v, target=i))
                    bad = True
                    break
                prev[i] = got
            if bad:
                break
        res.evaluations += len(inputs)
        res.distinct += len(inputs)
        res.count("history_bundles")
        if bad:
            continue
        # with unity gain, no quantisation and the default curve a full window reaches both ends of the target's range: every
        # LIVE MAPPED link is actually served, wherever it sits among unmapped and unplugged ones
        if mc.gain == 256 and mc.quantization == 32768:
            for i, (m, c) in enumerate(zip(mods, chosen)):
                T, cname, ckind, lo, hi, a, b, number = c
                if number == 0 or i in dead or i in unplugged or ckind == "dependent" or {a, b} != {0, (hi - lo) if ckind == "compact" else 32768}:
                    continue
                ends = []
                for v in (0, 32768):
                    mc.value = v
                    ends.append(_val(getattr(m, cname)))
                res.count("full_window_endpoint_checks")
                want_ends = [lo, hi] if a < b else [hi, lo]
                tol = max(1, (hi - lo) // 500)      # the statement promises range and monotonicity, not exact ends: this only asks "was it served at all"
                if abs(ends[0] - want_ends[0]) > tol or abs(ends[1] - want_ends[1]) > tol:
                    res.violation(f"C20:not-delivered:{ckind}", f"{T}.{cname} behind a full {'normal' if a < b else 'reversed'} window receives {ends} for inputs 0 and 32768, expected {want_ends} "
                                                              f"(slot {i} of bundle {case})", dict(case, target=i))
                    bad = True
                    break
            if bad:
                continue
        # asking the bundle what input a destination's current value corresponds to (reflect, without sending it) is a QUERY: the
        # windows are as they were and a further sweep still runs in each link's direction
        windows_before = [(x.min, x.max, x.controller) for x in mc.mappings.values[:n_targets]]
        asked = 0
        for i in range(n_targets):
            if chosen[i][7] == 0 or i in dead or i in unplugged or chosen[i][2] in ("dependent", "compact"):
                continue
            try:
                mc.reflect(i, propagate=False)
                asked += 1
            except Exception:
                res.count("reflect_queries_refused")
        if asked:
            res.count("reflect_queries", asked)
            windows_after = [(x.min, x.max, x.controller) for x in mc.mappings.values[:n_targets]]
            if windows_after != windows_before:
                k = next(i for i in range(n_targets) if windows_after[i] != windows_before[i])
                res.violation("C20:reflect-changed-window", f"reflect({k}, propagate=False) changed the link's window from {windows_before[k][:2]} to {windows_after[k][:2]} (bundle {case})", dict(case, target=k))
                continue
            prev2 = [None] * n_targets
            for v in inputs[::8] + [32768]:
                mc.value = v
                for i, (m, c) in enumerate(zip(mods, chosen)):
                    T, cname, ckind, lo, hi, a, b, number = c
                    if number == 0 or i in dead or i in unplugged or ckind == "dependent":
                        continue
                    got = _val(getattr(m, cname))
                    pv = prev2[i]
                    if pv is not None and ((a <= b and got < pv) or (a > b and got > pv)):
                        res.violation(f"C20:not-monotone:{ckind}:{'normal' if a <= b else 'reversed'}:after-reflect", f"after reflect queries, value={v}: {T}.{cname} received {got} after {pv} (bundle {case})", dict(case, input=v, target=i))
                        bad = True
                        break
                    prev2[i] = got
                if bad:
                    break
            if bad:
                continue
        res.count("bystander_checks")
        for idx, (m, s) in enumerate(zip(everyone, snaps)):
            now = {n: _val(getattr(m, n)) for n in type(m).controllers}
            allowed = set()
            role = "bystander"
            if m is mc:
                allowed, role = {"value"}, "the MultiCtl itself"
            elif 1 <= idx <= n_targets:
                i = idx - 1
                if i in unplugged:
                    role = "unplugged target"
                elif chosen[i][7] == 0 or i in dead:
                    role = "unmapped target"
                else:
                    allowed, role = {chosen[i][1]}, "mapped target"
            changed = sorted(k for k in s if s[k] != now[k] and k not in allowed)
            if changed:
                res.violation(f"C20:writes-outside-mapping:{role.replace(' ', '-')}", f"driving the bundle changed {type(m).__name__}.{changed} of a {role} at position {m.index} "
                                                                                     f"({[(k, s[k], now[k]) for k in changed[:3]]}; bundle {case})", case)
                break
        if ti == 0:
            res.sample(dict(case, inputs=f"{len(inputs)} sampled inputs 0..32768"))


def part_other_writers(res, rng, n):
    """The bundle is not the only writer of its destinations: between two sends something else moves the destination
    controller (a direct assignment, a second bundle mapped onto the same controller, a save/load of nothing in particular).
    Inputs rise strictly, in small and in large steps: what each send leaves in the destination is in range and never below
    (normal window) / above (reversed window) what the previous send left there."""
    import rv.api as api
    from rv.modules import MODULE_CLASSES
    from rv.modules.multictl import MultiCtl
    sp = spec.load()
    ranged = [r for r in _ranged_targets() if r[2] != "compact"]
    for k in range(n):
        T, cname, ckind, lo, hi = rng.choice(ranged)
        cls = MODULE_CLASSES[sp[T].mtype]
        p = api.Project()
        m = p.new_module(cls)
        number = cls.controllers[cname].number
        reverse = rng.random() < 0.3
        a, b = (32768, 0) if reverse else (0, 32768)
        mc = p.new_module(MultiCtl, gain=256, quantization=rng.choice([32768, 32768, 64, 7]), mappings=[(a, b, number, 0, 0, 0, 0, 0)])
        mc >> m
        mc2 = p.new_module(MultiCtl, mappings=[(0, 32768, number, 0, 0, 0, 0, 0)])
        mc2 >> m
        case = {"part": "other-writers", "target": [T, cname, lo, hi], "reversed": reverse, "quantization": mc.quantization}
        res.case(("other-writers", T, cname, reverse, mc.quantization, k))
        v, prev, sends = rng.randint(0, 2000), None, []
        while v <= 32768:
            mc.value = v
            got = _val(getattr(m, cname))
            sends.append((v, got))
            res.evaluations += 1
            if got < lo or got > hi:
                res.violation(f"C20:out-of-range:{ckind}", f"value={v}: {T}.{cname} holds {got} outside [{lo},{hi}] ({case})", dict(case, sends=sends[-4:]))
                break
            if prev is not None and ((not reverse and got < prev) or (reverse and got > prev)):
                res.violation(f"C20:not-monotone:{ckind}:{'reversed' if reverse else 'normal'}:other-writers",
                              f"{T}.{cname} was left at {got} by input {v} after input {sends[-2][0]} had left {prev} there; in between {sends[-2][2] if len(sends[-2]) > 2 else 'nothing'} "
                              f"moved the controller ({case})", dict(case, sends=[list(s) for s in sends[-4:]]))
                break
            prev = got
            # ... someone else writes the destination
            who = rng.choice(("direct-lo", "direct-hi", "direct-any", "second-bundle", "none", "none"))
            if who == "direct-lo":
                setattr(m, cname, lo)
            elif who == "direct-hi":
                setattr(m, cname, hi)
            elif who == "direct-any":
                setattr(m, cname, rng.randint(lo, hi))
            elif who == "second-bundle":
                mc2.value = rng.choice([0, 32768, rng.randint(0, 32768)])
            sends[-1] = (v, got, who)
            res.count("sends_followed_by_another_writer" if who != "none" else "sends_followed_by_nothing")
            v += rng.choice([1, 1, 2, 5, 40, 300, 3000])
        res.count("other_writer_bundles")


def part_inside_metamodule(res, rng, n):
    """The bundle and its target live in the project of an API-built MetaModule that EXPOSES the driven controller as one of its
    user-defined controllers (the delivered value is mirrored up to the MetaModule): the target still receives values in its
    range, monotone in the input, and nothing raises."""
    import rv.api as api
    from rv.modules import MODULE_CLASSES
    from rv.modules.multictl import MultiCtl
    sp = spec.load()
    ranged = [r for r in _ranged_targets() if r[2] in ("range", "no_offset") and r[0] != "MetaModule"]
    for k in range(n):
        T, cname, ckind, lo, hi = rng.choice([r for r in ranged if r[3] != 0] if k % 2 else ranged)
        cls = MODULE_CLASSES[sp[T].mtype]
        mm = api.m.MetaModule()
        inner = mm.project
        target = inner.new_module(cls)
        try:
            bundle = MultiCtl.macro(inner, (target, cname))
        except Exception:
            res.count("inside_metamodule_macro_refused")
            continue
        reverse = rng.random() < 0.4
        if reverse:
            m0 = bundle.mappings.values[0]
            m0.min, m0.max = m0.max, m0.min
        mm.user_defined_controllers = 1
        mm.mappings.values[0] = mm.Mapping((target.index, list(type(target).controllers).index(cname)))
        mm.update_user_defined_controllers()
        case = {"part": "inside-metamodule", "target": [T, cname, lo, hi], "reversed": reverse}
        res.case(("inside-metamodule", T, cname, reverse))
        res.count("bundles_inside_a_metamodule")
        prev = None
        for v in list(range(0, 32769, 257)) + [32768]:
            res.evaluations += 1
            try:
                bundle.value = v
            except Exception as e:
                res.violation(f"C20:delivery-raises:{type(e).__name__}:inside-metamodule", f"value={v}: delivery to {T}.{cname} exposed by the enclosing MetaModule raised {e!r}", dict(case, input=v))
                break
            got = _val(getattr(target, cname))
            if got < lo or got > hi:
                res.violation(f"C20:out-of-range:{ckind}:inside-metamodule", f"value={v}: {T}.{cname} holds {got} outside [{lo},{hi}] ({case})", dict(case, input=v))
                break
            if prev is not None and ((not reverse and got < prev) or (reverse and got > prev)):
                res.violation(f"C20:not-monotone:{ckind}:{'reversed' if reverse else 'normal'}:inside-metamodule", f"value={v}: {T}.{cname} received {got} after {prev} ({case})", dict(case, input=v))
                break
            prev = got


def part_chains(res, rng, n):
    """Bundles that drive bundles: a link of the outer MultiCtl goes to the `value` of an inner MultiCtl (which has targets,
    windows and orientations of its own), at ANY position among the outer bundle's links.  Every plain target of the outer
    bundle still receives values in its range, monotone in the outer input; so does every target of the inner bundle with
    respect to what the inner bundle was sent."""
    import rv.api as api
    from rv.modules import MODULE_CLASSES
    from rv.modules.multictl import MultiCtl
    sp = spec.load()
    ranged = [r for r in _ranged_targets() if r[2] in ("range", "no_offset") and r[0] not in ("MetaModule", "MultiCtl")]
    for k in range(n):
        p = workload.new_project()
        n_outer = rng.randint(2, 5)
        pos_inner = rng.randrange(n_outer - 1) if rng.random() < 0.8 else n_outer - 1      # mostly NOT the last link
        inner_targets = []
        for _ in range(rng.randint(1, 4)):
            T, cname, ckind, lo, hi = rng.choice(ranged)
            inner_targets.append((p.new_module(MODULE_CLASSES[sp[T].mtype]), T, cname, lo, hi, rng.random() < 0.5))
        inner = p.new_module(MultiCtl, mappings=[((32768, 0) if rev else (0, 32768)) + (type(m).controllers[cn].number, 0, 0, 0, 0, 0) for m, _T, cn, _lo, _hi, rev in inner_targets])
        inner >> [t_[0] for t_ in inner_targets]
        outer_targets, mappings, dests = [], [], []
        for i in range(n_outer):
            if i == pos_inner:
                mappings.append((0, 32768, MultiCtl.controllers["value"].number, 0, 0, 0, 0, 0))
                dests.append(inner)
                outer_targets.append(None)
            else:
                T, cname, ckind, lo, hi = rng.choice(ranged)
                m = p.new_module(MODULE_CLASSES[sp[T].mtype])
                rev = rng.random() < 0.4
                mappings.append(((32768, 0) if rev else (0, 32768)) + (type(m).controllers[cname].number, 0, 0, 0, 0, 0))
                dests.append(m)
                outer_targets.append((m, T, cname, lo, hi, rev))
        outer = p.new_module(MultiCtl, mappings=mappings)
        outer >> dests
        case = {"part": "chains", "outer_links": ["inner MultiCtl.value" if t_ is None else f"{t_[1]}.{t_[2]}{' (reversed)' if t_[5] else ''}" for t_ in outer_targets],
                "inner_links": [f"{t_[1]}.{t_[2]}{' (reversed)' if t_[5] else ''}" for t_ in inner_targets]}
        res.case(("chains", k, pos_inner, n_outer))
        res.count("chained_bundles")
        prev_o, prev_i, bad = [None] * n_outer, [None] * len(inner_targets), False
        for v in list(range(0, 32769, 331)) + [32768]:
            res.evaluations += 1
            try:
                outer.value = v
            except Exception as e:
                res.violation(f"C20:delivery-raises:{type(e).__name__}:chain", f"value={v}: {e!r} ({case})", dict(case, input=v))
                break
            for which, targets, prevs in (("outer", outer_targets, prev_o), ("inner", inner_targets, prev_i)):
                for i, t_ in enumerate(targets):
                    if t_ is None:
                        continue
                    m, T, cname, lo, hi, rev = t_
                    got = _val(getattr(m, cname))
                    if got < lo or got > hi:
                        res.violation("C20:out-of-range:range:chain", f"value={v}: {which} target {T}.{cname} holds {got} outside [{lo},{hi}] ({case})", dict(case, input=v))
                        bad = True
                    elif prevs[i] is not None and ((not rev and got < prevs[i]) or (rev and got > prevs[i])):
                        res.violation(f"C20:not-monotone:range:{'reversed' if rev else 'normal'}:chain", f"value={v}: {which} target {T}.{cname} received {got} after {prevs[i]} ({case})", dict(case, input=v))
                        bad = True
                    prevs[i] = got
                    if bad:
                        break
                if bad:
                    break
            if bad:
                break
        if not bad and v == 32768:
            # every plain outer link was actually served (a full window reaches both ends, see part_histories)
            for i, t_ in enumerate(outer_targets):
                if t_ is None:
                    continue
                m, T, cname, lo, hi, rev = t_
                want = lo if rev else hi
                got = _val(getattr(m, cname))
                if abs(got - want) > max(1, (hi - lo) // 500):
                    res.violation("C20:not-delivered:chain", f"after the sweep outer link {i} ({T}.{cname}) holds {got}, expected {want} ({case})", dict(case, target=i))
                    break


def part_extended_types(res, rng):
    """Targets that are instances of an application's subclass of a stock type with controllers ADDED (same type name), driven
    after stock instances of that type have been driven in the same process: the added controllers are served like any other
    (range, monotone, both ends of a full window), and the bundle survives a save/load with its slots in place."""
    import rv.api as api
    from rv import controller as rvc
    from rv.modules import MODULE_CLASSES
    from rv.modules.multictl import MultiCtl
    originals = dict(MODULE_CLASSES)
    try:
        for base in (api.m.Amplifier, api.m.Filter, api.m.Distortion):
            p = workload.new_project()
            plain = p.new_module(base, name="plain")
            first = MultiCtl.macro(p, (plain, list(base.controllers)[0]))
            first.value = 32768                         # a stock instance is driven first
            Wide = type(base.__name__, (base,), {"rvmon_extra": rvc.Controller((0, 100), 0), "rvmon_bipolar": rvc.Controller((-50, 50), 0),
                                                 "__module__": base.__module__, "__doc__": base.__doc__})
            MODULE_CLASSES.clear()
            MODULE_CLASSES.update(originals)
            wide = p.new_module(Wide, name="wide")
            for cname, lo, hi in (("rvmon_extra", 0, 100), ("rvmon_bipolar", -50, 50)):
                case = {"part": "extended-types", "base": base.__name__, "controller": cname}
                res.count("extended_type_bundles")
                try:
                    bundle = MultiCtl.macro(p, (wide, cname))
                except Exception as e:
                    res.violation(f"C20:macro-raises:{type(e).__name__}:extended-type", f"macro onto the added controller {cname} of a {base.__name__} subclass raised {e!r}", case)
                    continue
                prev, seen = None, []
                for v in list(range(0, 32769, 1024)) + [32768]:
                    res.evaluations += 1
                    try:
                        bundle.value = v
                    except Exception as e:
                        res.violation(f"C20:delivery-raises:{type(e).__name__}:extended-type", f"value={v}: {e!r} ({case})", dict(case, input=v))
                        break
                    got = getattr(wide, cname)
                    seen.append(got)
                    if got < lo or got > hi or (prev is not None and got < prev):
                        res.violation("C20:not-monotone:range:normal:extended-type" if lo <= got <= hi else "C20:out-of-range:range:extended-type",
                                      f"value={v}: added controller {cname} ({lo}..{hi}) of a {base.__name__} subclass holds {got} after {prev}", dict(case, input=v))
                        break
                    prev = got
                else:
                    if (seen[0], seen[-1]) != (lo, hi):
                        res.violation("C20:not-delivered:extended-type", f"full window onto the added controller {cname} ({lo}..{hi}) of a {base.__name__} subclass delivers {seen[0]} .. {seen[-1]}", case)
    finally:
        MODULE_CLASSES.clear()
        MODULE_CLASSES.update(originals)
    # a bundle whose later-slot target has a FREED earlier in-link and a lower position than an earlier-slot target, saved and loaded:
    # every link still drives the controller its mapping names
    for k in range(6):
        p = workload.new_project()
        gen_ = p.new_module(api.m.Generator)
        t_hi = p.new_module(api.m.Amplifier, name="later slot, lower position")
        t_lo = p.new_module(api.m.Distortion, name="earlier slot, higher position")
        gen_ >> t_hi                                   # an in-link of its own ...
        bundle = MultiCtl.macro(p, (t_lo, "volume"), (t_hi, "balance"))
        if k % 2:
            p.connect(gen_, ~t_hi)                     # ... freed again
        case = {"part": "extended-types", "family": "freed-in-link-then-reload", "freed": bool(k % 2)}
        res.count("bundles_reloaded_with_freed_in_links")
        try:
            q = workload.load(p.read())
            b2 = q.modules[bundle.index]
            b2.value = 32768
            got = (q.modules[t_lo.index].volume, q.modules[t_hi.index].balance)
        except Exception as e:
            res.violation(f"C20:delivery-raises:{type(e).__name__}:reloaded", f"{e!r} ({case})", case)
            continue
        # (both ranges divide the input range evenly, so the top of a full window is the exact maximum)
        if got != (256, 128):
            res.violation("C20:not-delivered:reloaded", f"bundle (Distortion.volume, Amplifier.balance) saved and loaded, input 32768: targets hold {got}, expected (256, 128)", case)


def part_wide_windows(res, rng, n):
    """Targets whose range is taken unscaled (MultiSynth.transpose ...) behind a window WIDER than their span, in a process that has
    also seen loads fail: every send either is refused or leaves the target inside its range."""
    import rv.api as api
    from io import BytesIO
    from rv.errors import ControllerValueError
    from rv.modules import MODULE_CLASSES
    from rv.modules.multictl import MultiCtl
    sp = spec.load()
    compact = [r for r in _ranged_targets() if r[2] == "compact"]
    if not compact:
        return
    for bad in (b"SVOX\0\0\0\0BPM \2\0\0\0\x7d\0", b"SVOX\0\0\0\0VERS\x04\0\0\0\x01"):
        try:
            api.read_sunvox_file(BytesIO(bad))
        except Exception:
            res.count("failed_loads_before_wide_windows")
    for k in range(n):
        T, cname, ckind, lo, hi = rng.choice(compact)
        cls = MODULE_CLASSES[sp[T].mtype]
        p = workload.new_project()
        m = p.new_module(cls)
        top = rng.choice([32768, 1000, (hi - lo) * 2, (hi - lo) + 1])
        mc = p.new_module(MultiCtl, mappings=[(0, top, cls.controllers[cname].number, 0, 0, 0, 0, 0)])
        mc >> m
        case = {"part": "wide-windows", "target": [T, cname, lo, hi], "window_top": top}
        res.count("wide_window_bundles")
        for v in sorted({0, 1, 2000, 16384, 32768, rng.randrange(32769), rng.randrange(32769)}):
            res.evaluations += 1
            try:
                mc.value = v
            except ControllerValueError:
                res.count("wide_window_sends_refused")
            except Exception as e:
                res.violation(f"C20:delivery-raises:{type(e).__name__}:wide-window", f"value={v}: {e!r} ({case})", dict(case, input=v))
                break
            got = _val(getattr(m, cname))
            if got < lo or got > hi:
                res.violation(f"C20:out-of-range:{ckind}:wide-window", f"value={v} through a window 0..{top}: {T}.{cname} holds {got} outside [{lo},{hi}]", dict(case, input=v))
                break


# ------------------------------------------------------------------ (b2') loaded bundles whose links carry identical mappings
def part_loaded_twins(res, rng, n):
    """Two (or more) targets of one type behind byte-identical mappings; the project is saved and loaded (or cloned); ONE mapping
    is then edited in place (window reversed / controller taken away).  Only that link changes its behaviour."""
    import rv.api as api
    from rv.modules.multictl import MultiCtl
    from .. import workload
    inputs = sorted(set(range(0, 32769, 911)) | {0, 32768})
    for k in range(n):
        p = api.Project()
        amps = [p.new_module(api.m.Amplifier) for _ in range(rng.randint(2, 4))]
        mc = p.new_module(MultiCtl, mappings=[(0, 32768, 1, 0, 0, 0, 0, 0)] * len(amps) + [(0, 0, 0, 0, 0, 0, 0, 0)] * 3)
        mc >> amps
        q = workload.load(p.read()) if k % 2 == 0 else p.clone()
        mc2 = q.modules[mc.index]
        targets = [q.modules[a.index] for a in amps]
        edit = ("reverse", "unmap")[k % 4 // 2]
        j = rng.randrange(len(amps))
        mp = mc2.mappings.values[j]
        if edit == "reverse":
            mp.min, mp.max = mp.max, mp.min
        else:
            mp.controller = 0
        if k % 3 == 0:
            mc2.mappings.values[len(amps) + 1].controller = 2      # an unused slot gets a mapping: no link there, nothing to drive
        case = {"part": "loaded-twins", "targets": len(amps), "edited": j, "edit": edit, "how": "load" if k % 2 == 0 else "clone"}
        res.case(("loaded-twins", len(amps), j, edit, k % 2))
        res.count("loaded_twin_bundles")
        before = [t.volume for t in targets]
        prev = [None] * len(amps)
        ok = True
        for v in inputs:
            mc2.value = v
            for i, t in enumerate(targets):
                got = t.volume
                if i == j and edit == "unmap":
                    if got != before[i]:
                        res.violation("C20:unset-mapping-writes", f"input {v}: the link whose mapping was taken away still drives its target ({case})", dict(case, input=v))
                        ok = False
                        break
                    continue
                rising = not (i == j and edit == "reverse")
                if prev[i] is not None and ((rising and got < prev[i]) or (not rising and got > prev[i])):
                    res.violation(f"C20:not-monotone:range:{'normal' if rising else 'reversed'}", f"input {v}: target {i} received {got} after {prev[i]} - only mapping {j} was edited ({case})", dict(case, input=v, target=i))
                    ok = False
                    break
                prev[i] = got
            if not ok:
                break
        res.evaluations += len(inputs)
        res.distinct += len(inputs)


# ------------------------------------------------------------------ (b3) bundles across project levels
def part_nested(res, rng, n):
    """A MultiCtl in an outer project drives a MetaModule's exposed controller, which is mapped onto the value of a MultiCtl
    in the embedded project, which drives a ranged target there.  Both MultiCtls may sit at the SAME position of their
    respective projects (positions are per project).  The innermost target must follow the outermost input: in range,
    monotone, both ends reached (within 0.2% of the span) with unity gains."""
    import rv.api as api
    from rv.modules import MODULE_CLASSES
    from rv.modules.multictl import MultiCtl
    sp = spec.load()
    ranged = [x for x in _ranged_targets() if x[2] == "range" and x[3] == 0]
    inputs = sorted(set(range(0, 32769, 1021)) | {0, 1, 32767, 32768})
    for k in range(n):
        T, cname, ckind, lo, hi = rng.choice(ranged)
        cls = MODULE_CLASSES[sp[T].mtype]
        inner = api.Project()
        pads_in = rng.randint(0, 2)
        for _ in range(pads_in):
            inner.new_module(api.m.Amplifier)
        target = inner.new_module(cls)
        inner_mc = inner.new_module(MultiCtl, mappings=[(0, 32768, cls.controllers[cname].number, 0, 0, 0, 0, 0)])
        inner_mc >> target
        mm = api.m.MetaModule(project=inner)
        mm.user_defined_controllers = 1
        mm.mappings.values[0] = mm.Mapping((inner_mc.index, 0))
        mm.update_user_defined_controllers()
        outer = api.Project()
        same_index = k % 2 == 0
        pads_out = (inner_mc.index - 2) if same_index else rng.randint(0, 3)
        outer.attach_module(mm)
        for _ in range(max(0, pads_out)):
            outer.new_module(api.m.Amplifier)
        outer_mc = outer.new_module(MultiCtl, mappings=[(0, 32768, 6, 0, 0, 0, 0, 0)])      # controller 6 of a MetaModule = user_defined_1
        outer_mc >> mm
        case = {"part": "nested", "target": f"{T}.{cname}", "range": [lo, hi], "outer_mc_index": outer_mc.index, "inner_mc_index": inner_mc.index}
        res.case(("nested", T, cname, outer_mc.index, inner_mc.index))
        res.count("nested_bundles")
        if outer_mc.index == inner_mc.index:
            res.count("nested_bundles_same_position")
        prev = None
        seen = []
        try:
            for v in inputs:
                outer_mc.value = v
                got = _val(getattr(target, cname))
                seen.append(got)
                if got < lo or got > hi:
                    res.violation(f"C20:out-of-range:nested:{ckind}", f"input {v}: innermost {T}.{cname} holds {got} outside [{lo},{hi}] ({case})", dict(case, input=v))
                    break
                if prev is not None and got < prev:
                    res.violation("C20:not-monotone:nested", f"input {v}: innermost {T}.{cname} received {got} after {prev} ({case})", dict(case, input=v))
                    break
                prev = got
            else:
                tol = max(1, (hi - lo) // 500)          # two scalings in a row may lose a unit at the top
                if seen[0] > lo + tol or seen[-1] < hi - tol:
                    res.violation("C20:not-delivered:nested", f"innermost {T}.{cname} shows {seen[0]}..{seen[-1]} for inputs 0..32768, expected {lo}..{hi} ({case})", case)
        except Exception as e:
            res.violation(f"C20:delivery-raises:nested:{type(e).__name__}", f"driving the outer MultiCtl raised {e!r} ({case})", case)
        res.evaluations += len(inputs)
        res.distinct += len(inputs)


# ------------------------------------------------------------------ (c) pure function
def part_pure(res, rng, n_tuples):
    from rv.modules.multictl import convert_value
    for ti in range(n_tuples):
        gain = rng.choice([0, 1, 255, 256, 257, 1024, rng.randint(0, 1024)])
        quant = rng.choice([0, 1, 2, 3, 100, 32767, 32768, rng.randint(0, 32768)])
        span = rng.choice([1, 2, 3, 7, 100, 255, 256, 1000, 32768, 44100, rng.randint(1, 65535)])
        compact = rng.random() < 0.25
        top = span if compact else 32768
        a, b = rng.choice([(0, top), (top, 0), (rng.randint(0, top), rng.randint(0, top)), (0, 0), (top, top)])
        curve = monotone_curve(rng)
        smin, smax, dmin, dmax = a, b, 0, span
        if smin > smax:
            smin, smax, dmin, dmax = smax, smin, dmax, dmin
        vmax = None if compact else span
        case = {"gain": gain, "qsteps": quant, "window": [a, b], "span": span, "compact": compact, "curve": "default" if curve is None else curve[::32]}
        cv = curve if curve is not None else [min(i * 128, 32768) for i in range(257)]
        # the table may be held in any sequence type an application computes curves with
        holder = rng.choice(("list", "list", "tuple", "array-H", "numpy-uint16", "numpy-int64", "numpy-float64"))
        try:
            if holder == "tuple":
                cv = tuple(cv)
            elif holder == "array-H":
                import array
                cv = array.array("H", cv)
            elif holder.startswith("numpy"):
                import numpy
                cv = numpy.array(cv, dtype=getattr(numpy, holder.split("-")[1]))
        except Exception:
            holder = "list"
        case["curve_holder"] = holder
        res.hist("curve_holders", holder)
        prev = None
        for v in range(32769):
            try:
                got = convert_value(gain, quant, smin, smax, dmin, dmax, vmax, v, cv)
            except Exception as e:
                res.violation(f"C20:convert-raises:{type(e).__name__}", f"convert_value raised {e!r} at {v} for {case}", dict(case, input=v))
                break
            if not isinstance(got, int) or got < 0 or got > span:
                res.violation("C20:convert-out-of-range", f"convert_value({v}) = {got!r} outside 0..{span} for {case}", dict(case, input=v))
                break
            if prev is not None and ((a <= b and got < prev) or (a > b and got > prev)):
                res.violation("C20:convert-not-monotone", f"convert_value({v}) = {got} after {prev} for {case}", dict(case, input=v))
                break
            prev = got
        res.evaluations += 32769
        res.distinct += 32769
        res.count("pure_conversions", 32769)
        if ti == 0:
            res.sample({"part": "convert_value", **case})
    res.exhaustive = True


def run_shard(spec_, res):
    rng = random.Random(spec_["seed"])
    if spec_["part"] == "macro":
        part_macro(res, rng, spec_["types"], spec_["tier"])
        res.exhaustive = True
    elif spec_["part"] == "drive":
        part_drive(res, rng, spec_["tuples"])
        part_histories(res, rng, spec_["tuples"] * 25)
        part_nested(res, rng, spec_["tuples"] * 5)
        part_loaded_twins(res, rng, spec_["tuples"] * 6)
        part_other_writers(res, rng, spec_["tuples"] * 4)
        part_inside_metamodule(res, rng, spec_["tuples"] * 3)
        part_chains(res, rng, spec_["tuples"] * 4)
        part_extended_types(res, rng)
        part_wide_windows(res, rng, spec_["tuples"] * 3)
    else:
        part_pure(res, rng, spec_["tuples"])


def replay(case, res):
    res.inconclusive.append("replay by re-running the shard with the recorded seed; the parameter tuple is in the replay file")
