"""C12 - note cells and packed bit-fields are lossless; sub-field setters independent."""
import random
import struct
from io import BytesIO

from .. import env, iffparse

PROPERTY = "C12"
LEVEL = "exploration"
RULE = ("cases: (a) one note (NOTECMD, vel, module, ctl, val) encoded and decoded; (b) one pattern byte image of valid "
        "cells assigned through Pattern.raw_data and through a saved file; (c) one (old 16-bit word, sub-field, new value) "
        "triple for Note.controller/effect/val_xx/val_yy - ALL 4 x 65536 x 256 triples; (d) one (old visualization word, "
        "sub-field, new value) triple; (e) one (MIDI-in always, channel) / (sync midi, sync other) pair through save and load. "
        "Enumerated cases are distinct by construction; random ones are counted by digest. Non-trivial = all (each exercises a distinct point).")
EXHAUSTIVE_AXIS = ("(old word x new 8-bit value) for the four Note sub-field setters; all 65536 words for the four getters; every NOTECMD x vel 0..129; "
                   "each 16-bit note field alone; visualization products listed in coverage; SMII 2x17; SFGS 8x8")
ASSUMPTIONS = [
    "note cell layout '<BBHHH' with CC and XX in the high byte (DESIGN.md 1.5/6.5, checked against a SunVox-written cell)",
    "Module.visualization returns a fresh wrapper on every access; write-through to the module is observed, not judged (the statement quantifies over (old word, sub-field, new value) triples of the packed word)",
    "new values for enumerated visualization parts are defined members; old words hold defined members in the enumerated parts",
    "SMII/SFGS have no setters: sub-field values are kept within their width (channel 0..16, sync flags 0..7)",
    "reserved bits of the visualization word are not 'sub-fields'; whether setters preserve them is recorded, not judged",
]
REQUIRED_COUNTERS = ["note_setter_triples", "note_getter_words", "notes_roundtripped", "pattern_images", "vis_triples", "smii_pairs", "sfgs_pairs"]
WORKERS = {"quick": 4, "thorough": 16}

FIELDS = {  # name: (word attr, shift)
    "controller": ("ctl", 8), "effect": ("ctl", 0), "val_xx": ("val", 8), "val_yy": ("val", 0),
}


def plan(tier, seed):
    specs = []
    n_chunks = 4
    i = 0
    for f in FIELDS:
        for k in range(n_chunks):
            lo = k * (65536 // n_chunks)
            specs.append({"tier": tier, "part": "setters", "field": f, "lo": lo, "hi": lo + 65536 // n_chunks, "seed": env.shard_seed(i)}); i += 1
    specs.append({"tier": tier, "part": "notes", "seed": env.shard_seed(i)}); i += 1
    for k in range(2 if tier == "quick" else 8):
        specs.append({"tier": tier, "part": "patterns", "seed": env.shard_seed(i), "n": 60 if tier == "quick" else 150, "long_patterns": k == 0}); i += 1
    for lm in range(5):
        specs.append({"tier": tier, "part": "vis", "level_mode": lm, "seed": env.shard_seed(i)}); i += 1
    specs.append({"tier": tier, "part": "packed_io", "seed": env.shard_seed(i)})
    return specs


# ------------------------------------------------------------------ (c) note sub-field setters/getters
def part_setters(res, field, lo, hi, tier):
    from rv.note import Note
    word_attr, shift = FIELDS[field]
    keep_mask = 0xFF00 if shift == 0 else 0x00FF
    n = Note()
    bad = 0
    if lo == 0:
        # getters over all 65536 words (complete)
        for w in range(65536):
            setattr(n, word_attr, w)
            got = getattr(n, field)
            if got != (w >> shift) & 0xFF:
                res.violation(f"C12:getter:{field}", f"word {w:#06x}: {field} reads {got}, expected {(w >> shift) & 0xFF}", {"field": field, "old": w})
                break
        res.count("note_getter_words", 65536)
        res.evaluations += 65536
        res.distinct += 65536
    news = list(range(256))
    if tier == "thorough":
        news += [-1, -128, -255, -256, 256, 257, 0x1FF, 0x100 + 77, 0xFFFF, 0x10000 + 5]
    count = 0
    for old in range(lo, hi):
        keep = old & keep_mask
        for new in news:
            setattr(n, word_attr, old)
            setattr(n, field, new)
            if getattr(n, word_attr) != keep | ((new & 0xFF) << shift):
                bad += 1
                w = getattr(n, word_attr)
                other = [f for f, (wa, sh) in FIELDS.items() if wa == word_attr and f != field][0]
                which = "readback" if ((w >> shift) & 0xFF) != (new & 0xFF) else "clobbers-sibling"
                res.violation(f"C12:setter-{which}:{field}",
                              f"{word_attr}={old:#06x}; {field}={new} -> {word_attr}={w:#06x}: {field} reads {getattr(n, field)}, {other} reads {getattr(n, other)}; expected word {keep | ((new & 0xFF) << shift):#06x}",
                              {"field": field, "old": old, "new": new})
                if bad > 2:
                    break
        count += len(news)
        if bad > 2:
            break
    res.count("note_setter_triples", count)
    res.evaluations += count
    res.distinct += count
    if lo == 0:
        # the untouched word (ctl vs val) and other note fields are not affected either
        from rv.note import NOTECMD
        n2 = Note(note=NOTECMD.C5, vel=77, module=0x1234, ctl=0xABCD, val=0x5678)
        before = (n2.note, n2.vel, n2.module, n2.ctl, n2.val)
        setattr(n2, field, 0x5A)
        after = [n2.note, n2.vel, n2.module, n2.ctl, n2.val]
        exp = list(before)
        idx = 3 if word_attr == "ctl" else 4
        exp[idx] = (before[idx] & keep_mask) | (0x5A << shift)
        res.case(("other-fields", field))
        if after != exp:
            res.violation(f"C12:setter-other-fields:{field}", f"setting {field} changed note from {before} to {after}", {"field": field})
        res.sample({"part": "setter", "field": field, "old_word": "0xabcd", "new": 0x5A, "result_word": hex(exp[idx])})
    res.exhaustive = True


# ------------------------------------------------------------------ (a) note encode/decode
def ref_cell(note, vel, module, ctl, val):
    return bytes([note, vel, module & 0xFF, module >> 8, ctl & 0xFF, ctl >> 8, val & 0xFF, val >> 8])


def check_note(res, cmd, vel, module, ctl, val):
    from rv.note import Note, NOTECMD
    n = Note(note=cmd, vel=vel, module=module, ctl=ctl, val=val)
    raw = n.raw_data
    want = ref_cell(int(cmd), vel, module, ctl, val)
    case = {"note": int(cmd), "vel": vel, "module": module, "ctl": ctl, "val": val}
    res.count("notes_roundtripped")
    if raw != want:
        res.violation("C12:note-encode", f"{case} encodes to {raw.hex()}, documented layout gives {want.hex()}", case)
        return
    m = Note()
    m.raw_data = want
    got = (int(m.note), m.vel, m.module, m.ctl, m.val)
    if got != (int(cmd), vel, module, ctl, val):
        res.violation("C12:note-decode", f"{want.hex()} decodes to {got}, expected {case}", case)
        return
    sub = (m.controller, m.effect, m.val_xx, m.val_yy)
    if sub != (ctl >> 8, ctl & 0xFF, val >> 8, val & 0xFF):
        res.violation("C12:note-subfields", f"{case}: sub-fields read {sub}", case)


def out_of_width(res):
    """Values that do not fit a sub-field: the statement allows clamping or masking to the width, nothing else - the field
    reads as a byte, the sibling half is untouched, the cell still encodes to 8 bytes."""
    from rv.note import Note
    for attr, word, shift in (("controller", "ctl", 8), ("effect", "ctl", 0), ("val_xx", "val", 8), ("val_yy", "val", 0)):
        for old in (0x0000, 0xFFFF, 0x1234, 0x00FF, 0xFF00):
            for v in (-1, -2, -12, -127, -128, -255, -256, -257, -32768, 256, 257, 300, 511, 32768, 65535, 65536, 70000):
                res.case(("out-of-width", attr, old, v))
                res.count("out_of_width_probes")
                n = Note(ctl=old, val=old)
                case = {"attr": attr, "old_word": old, "value": v}
                try:
                    setattr(n, attr, v)
                    got = getattr(n, attr)
                    w = getattr(n, word)
                    raw = n.raw_data
                except Exception as e:
                    res.violation(f"C12:setter-out-of-width-raises:{attr}", f"note.{attr} = {v} (old word {old:#06x}) raised {e!r}", case)
                    continue
                sibling_before = (old >> (8 - shift)) & 0xFF if shift == 8 else (old >> 8) & 0xFF
                sibling_after = (w >> (8 - shift)) & 0xFF if shift == 8 else (w >> 8) & 0xFF
                if got not in (v & 0xFF, min(max(v, 0), 0xFF)) or not 0 <= w <= 0xFFFF or sibling_after != sibling_before or len(raw) != 8:
                    res.violation(f"C12:setter-out-of-width:{attr}", f"note.{attr} = {v} (old word {old:#06x}): reads {got}, word {w:#x}, sibling half {sibling_before:#x} -> {sibling_after:#x}", case)


def part_notes(res, rng, tier):
    out_of_width(res)
    from rv.note import NOTECMD
    cmds = sorted(set(NOTECMD), key=int)
    edge16 = [0, 1, 0xFF, 0x100, 0x7FFF, 0x8000, 0xFFFE, 0xFFFF]
    for cmd in cmds:
        for vel in range(130):
            trip = (rng.choice(edge16), rng.choice(edge16), rng.choice(edge16)) if rng.random() < 0.5 else \
                (rng.randrange(65536), rng.randrange(65536), rng.randrange(65536))
            res.evaluations += 1
            res.distinct += 1
            check_note(res, cmd, vel, *trip)
    res.count("notecmd_x_vel", len(cmds) * 130)
    # each 16-bit field alone, completely
    for idx in range(3):
        for v in range(65536):
            f = [0x0102, 0x0304, 0x0506]
            f[idx] = v
            res.evaluations += 1
            res.distinct += 1
            check_note(res, cmds[(v % (len(cmds) - 1)) + 1], v % 130, *f)
    res.sample({"part": "note", "note": int(cmds[61]), "vel": 129, "module": 0xFFFF, "ctl": 0x0102, "val": 0x8000,
                "bytes": ref_cell(int(cmds[61]), 129, 0xFFFF, 0x0102, 0x8000).hex()})
    res.exhaustive = True


# ------------------------------------------------------------------ (b) pattern images
def part_patterns(res, rng, tier, n, long_patterns=True):
    from rv.api import Pattern, Project, read_sunvox_file
    from rv.note import NOTECMD
    vals = sorted({int(m) for m in NOTECMD})
    max_lines = 64 if tier == "quick" else 512
    shapes = [(1, 1), (32, 1), (1, max_lines), (32, 64), (3, 5), (4, 32), (2, 300), (1, 257), (3, 1024),
              # very long patterns, around the powers of two up to the 2**19 lines SunVox allows
              (1, 65535), (1, 65536), (1, 65537), (1, 2 ** 19), (1, 2 ** 19 - 1), (2, 2 ** 18)]  # (tracks, lines); small ints are cached objects in CPython, large ones are not
    if not long_patterns:
        shapes = shapes[:9]
    for k in range(n):
        if k < len(shapes):
            tracks, lines = shapes[k]
        else:
            tracks = rng.randint(1, 32)
            lines = rng.randint(1, max_lines if rng.random() < 0.2 else 40)
        style = rng.choice(("random", "random", "sparse", "positional"))
        cells = []
        for ln in range(lines):
            for tr in range(tracks):
                if style == "sparse" and rng.random() < 0.8:
                    cells.append(bytes(8))
                elif style == "sparse":
                    # a single column set, the rest empty (module-only, velocity-only, ... cells)
                    f = [0, 0, 0, 0, 0]
                    k = rng.randrange(5)
                    f[k] = [rng.choice(vals[1:]), rng.randint(1, 129), rng.randint(1, 65535), rng.randint(1, 65535), rng.randint(1, 65535)][k]
                    cells.append(ref_cell(*f))
                elif style == "positional":
                    cells.append(ref_cell(vals[(ln * tracks + tr) % len(vals)], (ln + tr) % 130, ln & 0xFFFF, tr * 257 & 0xFFFF, (ln * tracks + tr) & 0xFFFF))
                else:
                    cells.append(ref_cell(rng.choice(vals), rng.randint(0, 129), rng.randrange(65536), rng.randrange(65536), rng.randrange(65536)))
        image = b"".join(cells)
        case = {"tracks": tracks, "lines": lines, "style": style, "seed_case": k}
        res.case((tracks, lines, image))
        res.count("pattern_images")
        res.hist("pattern_shapes", f"{tracks}x{lines}" if k < len(shapes) else "random")
        pat = Pattern(tracks=tracks, lines=lines)
        pat.raw_data = image
        if pat.raw_data != image:
            res.violation("C12:pattern-image-memory", f"{tracks}x{lines} image not reproduced by Pattern.raw_data", case)
            continue
        # row-major: cell (line, track) is bytes [(line*tracks+track)*8 : +8]
        for _ in range(min(40, tracks * lines)):
            ln, tr = rng.randrange(lines), rng.randrange(tracks)
            off = (ln * tracks + tr) * 8
            if pat.data[ln][tr].raw_data != image[off:off + 8]:
                res.violation("C12:pattern-row-major", f"{tracks}x{lines}: cell ({ln},{tr}) is {pat.data[ln][tr].raw_data.hex()}, image has {image[off:off + 8].hex()}", case)
                break
        # through a file; the legacy fix-up (module high byte cleared) is documented for files whose VERS is below
        # 1.9.5.0 only - the version a project is "based on" must not matter
        p = Project()
        p.based_on_version = rng.choice([(1, 7, 0, 0), (1, 9, 4, 0), (2, 1, 2, 1), (0, 0, 0, 0), (1, 9, 5, 0)])
        p.sunvox_version = rng.choice([(2, 1, 2, 1), (1, 9, 5, 0), (1, 9, 6, 1), (255, 0, 0, 0)])
        res.hist("file_versions", f"VERS{p.sunvox_version[:3]}/BVER{p.based_on_version[:3]}")
        p.attach_pattern(pat)
        raw = p.read()
        pdta = [c for c in iffparse.parse(raw) if c[0] == b"PDTA"]
        if len(pdta) != 1 or pdta[0][1] != image:
            res.violation("C12:pattern-image-file", f"{tracks}x{lines}: PDTA in written file differs from the image", case)
            continue
        p2 = read_sunvox_file(BytesIO(raw))
        pat2 = p2.patterns[0]
        if (pat2.tracks, pat2.lines) != (tracks, lines) or pat2.raw_data != image:
            res.violation("C12:pattern-image-load", f"{tracks}x{lines}: image differs after load", case)
            continue
        again = [c for c in iffparse.parse(p2.read()) if c[0] == b"PDTA"]
        if len(again) != 1 or again[0][1] != image:
            res.violation("C12:pattern-image-resave", f"{tracks}x{lines}: the image saved again after loading differs", case)
        if k == 0:
            res.sample({"part": "pattern", **case, "image_hex": image.hex()[:64]})


def part_attached(res, rng):
    """(1) A song with several DISTINCT patterns that have the same header (shape, name, colours, position) and different cells:
    each pattern's image is in the file and loads back.  (2) The sub-field setters of notes that sit in a pattern attached to
    a project, addressing a module that exists: the column takes the 8 bits given, whatever that module is."""
    import rv.api as api
    from rv.note import NOTECMD
    vals = sorted({int(m) for m in NOTECMD})
    for k in range(6):
        p = api.Project()
        p.new_module(api.m.Amplifier)
        images = []
        n_pat = rng.randint(2, 4)
        tracks, lines = rng.randint(1, 4), rng.randint(1, 6)
        for j in range(n_pat):
            q = api.Pattern(tracks=tracks, lines=lines, name="same", x=8, y=0)
            img = b"".join(ref_cell(rng.choice(vals), rng.randint(0, 129), rng.randrange(65536), rng.randrange(65536), rng.randrange(65536)) for _ in range(tracks * lines))
            q.raw_data = img
            images.append(img)
            p.attach_pattern(q)
        res.count("songs_with_equal_pattern_headers")
        case = {"part": "equal-headers", "patterns": n_pat, "shape": [tracks, lines]}
        try:
            raw = p.read()
            back = api.read_sunvox_file(BytesIO(raw))
        except Exception as e:
            res.violation(f"C12:equal-headers-raises:{type(e).__name__}", f"{e!r}", case)
            continue
        pdta = [c[1] for c in iffparse.parse(raw) if c[0] == b"PDTA"]
        got = [getattr(q, "raw_data", None) if isinstance(q, api.Pattern) else f"<{type(q).__name__}>" for q in back.patterns]
        if pdta != images or got != images:
            res.violation("C12:pattern-image-file", f"{n_pat} distinct patterns with equal headers and different cells: {len(pdta)} PDTA chunks written, loaded as "
                                                    f"{[g if isinstance(g, str) else (g == images[i]) for i, g in enumerate(got)]}", case)
    p = api.Project()
    for cls_ in (api.m.Amplifier, api.m.Lfo, api.m.MetaModule, api.m.Sampler):
        p.new_module(cls_)
    pat = api.Pattern(tracks=2, lines=2)
    p.attach_pattern(pat)
    n = pat.data[0][0]
    for module in (0, 1, 2, 3, 4, 5, 200):
        n.module = module
        for v in (0, 1, 9, 0x0A, 0x40, 0x7F, 0x80, 0xFF):
            for field, other in (("controller", "effect"), ("effect", "controller"), ("val_xx", "val_yy"), ("val_yy", "val_xx")):
                n.ctl, n.val = 0x1234, 0x5678
                keep = getattr(n, other)
                setattr(n, field, v)
                res.count("attached_note_setter_checks")
                if getattr(n, field) != v or getattr(n, other) != keep:
                    res.violation(f"C12:setter:{field}:attached", f"note in an attached pattern addressing module position {module}: {field} = {v:#x} reads {getattr(n, field):#x} "
                                                                 f"({other} {keep:#x} -> {getattr(n, other):#x})", {"part": "attached-setters", "module": module, "field": field, "value": v})
                    return


def part_pattern_sequences(res, rng, n):
    """History checker for one pattern: assign an image, clear(), edit a cell, bulk edit, read - in any order, with
    a list-of-cells model.  Reads are deliberately NOT made after every step: some implementations decode lazily and a
    read would refresh their state; the final raw_data (and the saved PDTA) must equal the model."""
    import rv.api as api
    from rv.note import NOTECMD
    vals = sorted({int(m) for m in NOTECMD})

    def rcell():
        return ref_cell(rng.choice(vals), rng.randint(0, 129), rng.randrange(65536), rng.randrange(65536), rng.randrange(65536))

    def image(tracks, lines):
        """A whole image: dense, or with some LINES entirely blank, or with blank cells sprinkled in."""
        style = rng.choice(("dense", "blank-lines", "blank-lines", "sparse"))
        out = []
        for ln in range(lines):
            blank_line = style == "blank-lines" and rng.random() < 0.5
            for tr in range(tracks):
                out.append(bytes(8) if blank_line or (style == "sparse" and rng.random() < 0.6) else rcell())
        return out
    for s in range(n):
        tracks, lines = rng.randint(1, 6), rng.randint(1, 8)
        ncell = tracks * lines
        model = [bytes(8)] * ncell
        start = rng.choice(("fresh", "fresh-printed-then-sized", "loaded", "loaded-embedded", "loaded-legacy-stamp"))
        holder = None
        if start in ("loaded", "loaded-embedded", "loaded-legacy-stamp"):
            img = [rcell() for _ in range(ncell)]
            q0 = api.Pattern(tracks=tracks, lines=lines)
            q0.raw_data = b"".join(img)
            p0 = api.Project()
            p0.attach_pattern(q0)
            if start == "loaded-legacy-stamp":
                # the file is stamped below 1.9.5.0: what is LOADED has one-byte module numbers (documented); whatever is put into
                # the pattern afterwards is taken as it is
                p0.sunvox_version = (1, 9, 4, 0)
                proj = api.read_sunvox_file(__import__("io").BytesIO(p0.read()))
                pat = proj.patterns[0]
                img = [c[:2] + bytes([c[2], 0]) + c[4:] for c in img]
                proj = None             # (its later saves carry the current stamp; only raw_data is judged for this start)
            elif start == "loaded":
                proj = api.read_sunvox_file(__import__("io").BytesIO(p0.read()))
                pat = proj.patterns[0]
            else:
                # the pattern lives in the project embedded in a MetaModule that came from a file; "saved" below means the
                # OUTER file
                outer0 = api.Project()
                outer0.new_module(api.m.MetaModule, project=p0)
                if rng.random() < 0.5:
                    # the OUTER file is an old one (stamped below 1.9.5.0); the embedded project is a complete file image with
                    # its own, current stamp
                    outer0.sunvox_version = rng.choice([(1, 9, 4, 0), (1, 7, 0, 0)])
                    start = "loaded-embedded-in-old-outer-file"
                holder = api.read_sunvox_file(__import__("io").BytesIO(outer0.read()))
                proj = holder.modules[1].project
                pat = proj.patterns[0]
            model = list(img)
        elif start == "fresh-printed-then-sized":
            # a new pattern object is printed / logged before it gets its size (formatting is looking, not touching)
            pat = api.Pattern()
            rng.choice((repr, str, lambda o: f"{o}", lambda o: "%r" % (o,)))(pat)
            if rng.random() < 0.5:
                pat.tracks, pat.lines = tracks, lines
            else:
                pat.lines, pat.tracks = lines, tracks
            proj = None
        else:
            pat = api.Pattern(tracks=tracks, lines=lines)
            proj = None
        history = [start]
        backups = []
        for k in range(rng.randint(1, 6)):
            op = rng.choice(("assign", "assign-long", "clear", "cell", "bulk", "read", "read-data", "backup", "reshape-clear"))
            history.append(op)
            if op == "assign":
                model = image(tracks, lines)
                buf = b"".join(model)
                # an image is a buffer of bytes: bytes, bytearray or a memoryview over either
                pat.raw_data = rng.choice((lambda b: b, bytearray, memoryview, lambda b: memoryview(bytearray(b))))(buf)
            elif op == "assign-long":
                # an image with more bytes than lines * tracks cells: the cells are the first lines * tracks, the rest is not
                # part of the pattern (now or later)
                model = image(tracks, lines)
                pat.raw_data = b"".join(model) + b"".join(rcell() for _ in range(rng.randint(1, 4)))
            elif op == "reshape-clear":
                # the pattern gets another size and is cleared (the documented way to rebuild the grid for the new size)
                tracks, lines = rng.randint(1, 6), rng.randint(1, 8)
                ncell = tracks * lines
                if rng.random() < 0.5:
                    pat.tracks, pat.lines = tracks, lines
                else:
                    pat.lines, pat.tracks = lines, tracks
                pat.clear()
                model = [bytes(8)] * ncell
            elif op == "clear":
                pat.clear()
                model = [bytes(8)] * ncell
            elif op == "cell":
                i = rng.randrange(ncell)
                c = rcell()
                n_ = pat.data[i // tracks][i % tracks]
                if rng.random() < 0.6:
                    n_.raw_data = c
                else:
                    # one scratch buffer, filled for this cell and used again for something else right afterwards
                    scratch = bytearray(c)
                    n_.raw_data = scratch if rng.random() < 0.7 else memoryview(scratch)
                    scratch[:] = rcell()
                    res.count("cells_set_from_a_reused_buffer")
                model[i] = c
            elif op == "bulk":
                c = rcell()
                note, vel, module, ctl, val = struct.unpack("<BBHHH", c)
                pat.set_via_fn(lambda p_, l, t: api.Note(note=NOTECMD(note), vel=vel, module=module, ctl=ctl, val=val))
                model = [c] * ncell
            elif op == "backup":
                # an undo snapshot: a deep copy of the pattern (or of its whole project) keeps the image of this moment
                import copy
                if proj is not None and rng.random() < 0.5:
                    snap_proj = copy.deepcopy(proj)
                    backups.append((snap_proj.patterns[0], b"".join(model), "project"))
                else:
                    backups.append((copy.deepcopy(pat), b"".join(model), "pattern"))
                res.count("pattern_backups")
            elif op == "read":
                if pat.raw_data != b"".join(model):
                    res.violation("C12:pattern-sequence", f"after {history}: raw_data differs from the cells the operations denote", {"history": history, "tracks": tracks, "lines": lines})
                    break
            else:
                pat.data
        else:
            res.case((s, tuple(history)))
            res.count("pattern_sequences")
            want = b"".join(model)
            saved = None
            if holder is not None:
                emb = [c for c in iffparse.parse(holder.read()) if c[0] == b"CHDT" and c[1][:4] == b"SVOX"][0][1]
                saved = [c for c in iffparse.parse(emb) if c[0] == b"PDTA"][0][1]
                res.count("pattern_sequences_inside_loaded_metamodule")
            elif proj is not None and rng.random() < 0.5:
                saved = [c for c in iffparse.parse(proj.read()) if c[0] == b"PDTA"][0][1]
            got = pat.raw_data
            if (saved is not None and saved != want) or got != want:
                res.violation("C12:pattern-sequence", f"after {history}: {'saved PDTA' if saved is not None and saved != want else 'raw_data'} differs from the cells the operations denote",
                              {"history": history, "tracks": tracks, "lines": lines})
            cells_now = [n_.raw_data for line in pat.data for n_ in line]
            if cells_now != model:
                res.violation("C12:pattern-sequence-cells", f"after {history}: Pattern.data differs from the model", {"history": history})
            for bk, img_then, what in backups:
                if bk.raw_data != img_then:
                    res.violation("C12:pattern-backup", f"a deep copy ({what}) taken during {history} no longer encodes the image the pattern had at that moment", {"history": history, "backup": what})
                    break
        if s == 0:
            res.sample({"part": "pattern operation sequence", "shape": [tracks, lines], "history": history})


# ------------------------------------------------------------------ (d) visualization
def vis_word(lm, ori, om, size, bg, sh, reserved):
    return lm | (ori << 5) | (om << 8) | (size << 16) | (bg << 24) | (sh << 26) | reserved


def part_vis(res, level_mode, tier, rng):
    from rv.modules.module import Visualization, LevelMode, Orientation, OscilloscopeMode
    sizes = [0, 255] if tier == "quick" else [0, 1, 12, 255]
    reserved_patterns = [0, 0xF000E0C0] if tier == "quick" else [0, 0xF000E0C0, 0xC0, 0xF0000000]
    reserved_mask = 0xF000E0C0
    om_members = [int(m) for m in OscilloscopeMode]
    lm_members = [int(m) for m in LevelMode]

    def fields(v):
        return {"level_mode": int(v.level_mode), "orientation": int(v.orientation), "oscilloscope_mode": int(v.oscilloscope_mode),
                "oscilloscope_size": v.oscilloscope_size, "bg_transparency": v.bg_transparency, "shadow_opacity": v.shadow_opacity}

    new_values = {
        "level_mode": [(x, x) for x in lm_members] + [(LevelMode(x), x) for x in lm_members],
        "orientation": [(0, 0), (1, 1), (Orientation.vertical, 1), (Orientation.horizontal, 0)],
        "oscilloscope_mode": [(x, x) for x in om_members] + [(OscilloscopeMode(x), x) for x in om_members],
        "oscilloscope_size": [(x, max(0, min(255, x))) for x in range(-5, 301)],
        "bg_transparency": [(x, max(0, min(3, x))) for x in range(-2, 7)],
        "shadow_opacity": [(x, max(0, min(3, x))) for x in range(-2, 7)],
    }
    count = 0
    bad = 0
    reserved_changed = 0
    for ori in (0, 1):
        for om in om_members:
            for size in sizes:
                for bg in range(4):
                    for sh in range(4):
                        for rsv in reserved_patterns:
                            old = vis_word(level_mode, ori, om, size, bg, sh, rsv)
                            base = {"level_mode": level_mode, "orientation": ori, "oscilloscope_mode": om,
                                    "oscilloscope_size": size, "bg_transparency": bg, "shadow_opacity": sh}
                            for fname, pairs in new_values.items():
                                for new, want in pairs:
                                    v = Visualization(old)
                                    setattr(v, fname, new)
                                    count += 1
                                    exp = dict(base)
                                    exp[fname] = want
                                    try:
                                        got = fields(v)
                                    except ValueError as e:
                                        got = {"error": repr(e)}
                                    if got != exp:
                                        bad += 1
                                        which = "readback" if got.get(fname) != want else "clobbers-sibling"
                                        res.violation(f"C12:vis-{which}:{fname}", f"word {old:#010x}; {fname}={new!r} -> {int(v):#010x} reads {got}, expected {exp}",
                                                      {"old": old, "field": fname, "new": int(new)})
                                        if bad > 5:
                                            return
                                    elif (int(v) ^ old) & reserved_mask:
                                        reserved_changed += 1
    res.count("vis_triples", count)
    res.count("observation_vis_reserved_bits_changed", reserved_changed)
    res.evaluations += count
    res.distinct += count
    if level_mode == 0:
        # observation: Module.visualization write-through
        import rv.api as api
        m = api.m.Amplifier()
        before = int(m.visualization)
        m.visualization.oscilloscope_size = 99
        res.counters["observation_visualization_write_through"] = int(int(m.visualization) != before)
        res.sample({"part": "visualization", "old_word": hex(vis_word(0, 1, 3, 255, 2, 1, 0)), "field": "oscilloscope_size", "new": 300, "expected_field": 255})
    # the word as it lives ON A MODULE (never assigned before): read it, set one part, assign it back.  The module shows the
    # new part and its old other parts; every other module - existing or created afterwards - keeps its own word, in
    # memory and in the saved file.
    import rv.api as api
    import struct
    for fname, pairs in new_values.items():
        for new, want in pairs[:6]:
            p = api.Project()
            a = p.new_module(api.m.Amplifier)
            b = p.new_module(api.m.Filter)
            words0 = [int(x.visualization) for x in p.modules]
            v = a.visualization
            setattr(v, fname, new)
            a.visualization = int(v)        # (the module keeps the packed word)
            late = p.new_module(api.m.Reverb)
            res.count("vis_module_level_edits")
            res.case(("vis-on-module", level_mode, fname, int(new)))
            got = fields(a.visualization)
            exp = fields(Visualization(words0[1]))
            exp[fname] = want
            case = {"field": fname, "new": int(new), "where": "module"}
            if got != exp:
                res.violation(f"C12:vis-readback:{fname}", f"module word {words0[1]:#010x}: {fname}={new!r} via read/modify/assign reads {got}, expected {exp}", case)
                break
            others = [int(p.modules[0].visualization), int(b.visualization), int(late.visualization)]
            if others != [words0[0], words0[2], int(api.m.Reverb().visualization)] or int(api.m.Amplifier().visualization) != words0[1]:
                res.violation(f"C12:vis-clobbers-other-module:{fname}", f"setting {fname} on one module's word changed the word of other modules: {[hex(x) for x in others]} (were {[hex(x) for x in words0]})", case)
                break
            svpr = [struct.unpack("<I", c[1])[0] for c in iffparse.parse(p.read()) if c[0] == b"SVPR"]
            if svpr != [int(x.visualization) for x in p.modules]:
                res.violation(f"C12:vis-saved-word:{fname}", f"saved SVPR words {[hex(x) for x in svpr]} differ from the modules' words", case)
                break
    res.exhaustive = True


# ------------------------------------------------------------------ (e) SMII / SFGS through save and load
def part_packed_io(res, rng):
    import rv.api as api
    from rv.api import Project, Synth, read_sunvox_file
    for always in (False, True):
        for ch in range(17):
            res.case(("smii", always, ch))
            res.count("smii_pairs")
            for ctx in ("project", "synth"):
                m = api.m.Amplifier(midi_in_always=always, midi_in_channel=ch)
                if ctx == "project":
                    p = Project()
                    p.attach_module(m)
                    raw = p.read()
                else:
                    raw = Synth(m).read()
                smii = [c[1] for c in iffparse.parse(raw) if c[0] == b"SMII"][-1]
                (w,) = struct.unpack("<I", smii)
                case = {"always": always, "channel": ch, "context": ctx}
                if w != (int(always) | (ch << 1)):
                    res.violation("C12:smii-encode", f"{case}: SMII = {w:#x}, expected {int(always) | (ch << 1):#x}", case)
                    continue
                o = read_sunvox_file(BytesIO(raw))
                m2 = o.modules[1] if ctx == "project" else o.module
                if (m2.midi_in_always, m2.midi_in_channel) != (always, ch) or not isinstance(m2.midi_in_always, bool):
                    res.violation("C12:smii-decode", f"{case}: loads as ({m2.midi_in_always!r}, {m2.midi_in_channel!r})", case)
    for a in range(8):
        for b in range(8):
            res.case(("sfgs", a, b))
            res.count("sfgs_pairs")
            p = Project()
            p.receive_sync_midi = a
            p.receive_sync_other = b
            raw = p.read()
            (w,) = struct.unpack("<I", [c[1] for c in iffparse.parse(raw) if c[0] == b"SFGS"][0])
            case = {"receive_sync_midi": a, "receive_sync_other": b}
            if w != (a | (b << 3)):
                res.violation("C12:sfgs-encode", f"{case}: SFGS = {w:#x}, expected {a | (b << 3):#x}", case)
                continue
            p2 = read_sunvox_file(BytesIO(raw))
            if (int(p2.receive_sync_midi), int(p2.receive_sync_other)) != (a, b):
                res.violation("C12:sfgs-decode", f"{case}: loads as ({p2.receive_sync_midi!r}, {p2.receive_sync_other!r})", case)
    res.sample({"part": "SMII", "always": True, "channel": 16, "word": hex(1 | 16 << 1)})
    res.exhaustive = True


def run_shard(spec_, res):
    rng = random.Random(spec_["seed"])
    part = spec_["part"]
    if part == "setters":
        part_setters(res, spec_["field"], spec_["lo"], spec_["hi"], spec_["tier"])
    elif part == "notes":
        part_notes(res, rng, spec_["tier"])
    elif part == "patterns":
        part_patterns(res, rng, spec_["tier"], spec_["n"], spec_.get("long_patterns", True))
        part_attached(res, rng)
        part_pattern_sequences(res, rng, spec_["n"] * 6)
    elif part == "vis":
        part_vis(res, spec_["level_mode"], spec_["tier"], rng)
    elif part == "packed_io":
        part_packed_io(res, rng)


def replay(case, res):
    from rv.note import Note
    if "field" in case and "old" in case and case["field"] in FIELDS:
        word_attr, shift = FIELDS[case["field"]]
        n = Note()
        setattr(n, word_attr, case["old"])
        setattr(n, case["field"], case.get("new", 0))
        keep = case["old"] & (0xFF00 if shift == 0 else 0x00FF)
        if getattr(n, word_attr) != keep | ((case.get("new", 0) & 0xFF) << shift):
            res.violation(f"C12:setter:{case['field']}", f"replayed: word {getattr(n, word_attr):#06x}", case)
    else:
        part_notes(res, random.Random(0), "quick")
        part_packed_io(res, random.Random(0))
