"""C15 - MetaModules keep embedded project and user controllers intact at any depth."""
import struct

from .. import build, env, iffparse, monitors, snapshot, spec, workload

PROPERTY = "C15"
LEVEL = "exploration"
RULE = ("one case = one generated MetaModule (embedded project of 0-4 modules of any type, forced nesting down to the tier's depth, "
        "user-controller count n from {0,1,2,3,27,95,96,random}, mappings onto controllers of every kind incl. unset and dangling ones, "
        "labels at arbitrary indices, user values established by update_user_defined_controllers()) saved and loaded stand-alone, "
        "cloned, and inside a project; compared through the attribute catalogue recursively (embedded project, count, labels, mapping "
        "table, visible and stored user values); the written bytes are parsed without rv to count CVAL / label / mapping chunks. "
        "distinct = distinct .sunsynth files; non-trivial = n > 0 or the embedded project has a module")
EXHAUSTIVE_AXIS = "user-controller counts {0,1,2,3,27,95,96} and nesting depths 0..bound are each visited in every shard"
ASSUMPTIONS = [
    "user-defined controller values are established the public way (set the embedded controller, then update_user_defined_controllers()); assigning a user-defined controller directly is outside the statement",
    "labels at indices >= n are not written by construction and are not expected back",
]
REQUIRED_COUNTERS = ["metamodules", "synth_roundtrips", "project_roundtrips", "cval_counts_checked", "nested_metamodules"]
WORKERS = {"quick": 4, "thorough": 16}
COUNTS = [0, 1, 2, 3, 27, 95, 96]


def plan(tier, seed):
    n = 4 if tier == "quick" else 16
    per = 150 if tier == "quick" else 1000
    return [{"tier": tier, "seed": seed, "shard": i, "start": i * per, "count": per, "max_nest": 2 if tier == "quick" else 3} for i in range(n)]


def count_nested(s):
    n = 0
    for m in s["payload"]["project"]["modules"]:
        if m is not None and m["type"] == "MetaModule":
            n += 1 + count_nested(m)
    return n


def depth_of(s):
    d = 0
    for m in s["payload"]["project"]["modules"]:
        if m is not None and m["type"] == "MetaModule":
            d = max(d, 1 + depth_of(m))
    return d


def mapped_kinds(res, S):
    pl = S["payload"]
    mods = pl["project"]["modules"]
    by = spec.by_mtype()
    for i in range(pl["count"]):
        mi, ci = pl["mappings"][i]
        if mi == 0:
            res.hist("mapping_kinds", "unset")
        elif mi >= len(mods) or mods[mi] is None:
            res.hist("mapping_kinds", "dangling-module")
        else:
            t = by[mods[mi]["type"]]
            if ci < len(t.controllers):
                c = t.controllers[ci]
                k = c.kind
                if k == "range" and c.min < 0:
                    k = "range-negative-min"
                res.hist("mapping_kinds", k)
            else:
                res.hist("mapping_kinds", "beyond-spec-controllers")


def structural(res, raw, S, ctx, desc):
    """Independent parse of the written bytes: CVAL count == 5 + n, label / mapping chunks."""
    chunks = iffparse.parse(raw)
    if ctx == "project":
        sends = [i for i, c in enumerate(chunks) if c[0] == b"SEND"]
        chunks = chunks[sends[0] + 1:sends[1] + 1]
    n = S["payload"]["count"]
    ncval = sum(1 for c in chunks if c[0] == b"CVAL")
    res.count("cval_counts_checked")
    if ncval != 5 + n:
        res.violation(f"C15:cval-count:{ctx}", f"{ctx}: file carries {ncval} CVAL chunks, expected 5 + {n}", desc)
    cmid = [c for c in chunks if c[0] == b"CMID"]
    if cmid and len(cmid[0][1]) != 8 * ncval:
        res.violation(f"C15:cmid-length:{ctx}", f"{ctx}: CMID has {len(cmid[0][1])} bytes for {ncval} values", desc)
    ms = iffparse.module_specific(chunks)
    labels = {k - 8: v["chdt"] for k, v in ms.items() if k >= 8}
    want = {i: s.encode("utf8") + b"\0" for i, s in S["payload"]["labels"].items()}
    if labels != want:
        res.violation(f"C15:label-chunks:{ctx}", f"{ctx}: label chunks {sorted(labels)} != expected {sorted(want)} (or contents differ)", desc)
    if 1 not in ms or len(ms[1]["chdt"]) != 96 * 4:
        res.violation(f"C15:mapping-chunk:{ctx}", f"{ctx}: mapping chunk missing or of wrong size", desc)
    else:
        got = list(struct.iter_unpack("<HH", ms[1]["chdt"]))
        if [tuple(x) for x in got] != [tuple(x) for x in S["payload"]["mappings"]]:
            res.violation(f"C15:mapping-bytes:{ctx}", f"{ctx}: mapping chunk content differs from the object's table", desc)
    if 0 not in ms or not ms[0]["chdt"].startswith(b"SVOX"):
        res.violation(f"C15:embedded-project-chunk:{ctx}", f"{ctx}: chunk 0 is not an embedded project", desc)


def check_metamodule(res, c):
    import rv.api as api
    m = c.obj
    desc = c.describe()
    res.count("metamodules")
    S = snapshot.snap_module(m, "project")
    n = S["payload"]["count"]
    res.hist("counts", n)
    res.hist("nesting_depth", depth_of(S))
    res.count("nested_metamodules", count_nested(S))
    mapped_kinds(res, S)
    g = build.gate_diff(build.expected_module(c.ad, "project"), S)
    g = [x for x in g if not x[0].startswith("/links")]
    if g:
        res.violation(f"C15:api-did-not-store:{snapshot.field_key(g[0][0])}", f"after building {g[0][0]} is {g[0][2]}, asked for {g[0][1]}", desc)
        return
    if S["payload"]["attached_user_controllers"] != list(range(n)):
        res.violation("C15:attached-set", f"count {n} but attached user controllers are {S['payload']['attached_user_controllers'][:8]}...", desc)
        return
    S_syn = build.norm_module(snapshot.snap_module(m, "synth"), "before")
    raw = api.Synth(m).read()
    res.case(raw, nontrivial=n > 0 or len(S["payload"]["project"]["modules"]) > 1)
    structural(res, raw, S, "synth", desc)
    try:
        s2 = workload.load(raw)
    except Exception as e:
        res.violation(f"C15:unloadable:{workload.exc_key(e)}", f"written MetaModule .sunsynth does not load: {e!r}", desc)
        return
    res.count("synth_roundtrips")
    for path, a, b in snapshot.diff(S_syn, build.norm_module(snapshot.snap_module(s2.module, "synth"), "after"))[:3]:
        res.violation(f"C15:synth:{snapshot.field_key(path)}", f"stand-alone {path}: before {a}, after {b}", desc)
    # the same file with the mapping table cut to 64 entries, as older SunVox wrote it
    if c.index % 2 == 0:
        chunks = [(x[0], x[1]) for x in iffparse.parse(raw)]
        out_chunks, cur = [], None
        for cid, pl in chunks:
            if cid == b"CHNM":
                (cur,) = struct.unpack("<I", pl)
            elif cid == b"CHDT" and cur == 1:
                pl = pl[:64 * 4]
            out_chunks.append((cid, pl))
        try:
            s_old = workload.load(iffparse.build(out_chunks))
        except Exception as e:
            res.violation(f"C15:short-mapping-table-unloadable:{workload.exc_key(e)}", f"file with a 64-entry mapping table does not load: {e!r}", desc)
            return
        mm_old = s_old.module
        res.count("short_mapping_tables")
        got = [(x.module, x.controller) for x in mm_old.mappings.values]
        want = [tuple(x) for x in S["payload"]["mappings"][:64]] + [(0, 0)] * 32
        if got != want:
            res.violation("C15:short-mapping-table", f"64-entry mapping table loads as {got[60:70]}..., expected the 64 entries followed by unset ones", desc)
        else:
            k = 64 + (c.index // 2) % 32
            mm_old.mappings.values[k].module, mm_old.mappings.values[k].controller = 1, 2   # in-place edit of one padded entry
            got2 = [(x.module, x.controller) for x in mm_old.mappings.values]
            want[k] = (1, 2)
            if got2 != want:
                moved = [i for i in range(96) if got2[i] != want[i]]
                res.violation("C15:padded-mappings-aliased", f"editing padded mapping entry {k} in place also changed entries {moved[:6]}", desc)
            else:
                mm_old.update_user_defined_controllers()
                s_again = workload.load(s_old.read())
                got3 = [(x.module, x.controller) for x in s_again.module.mappings.values]
                if got3 != want:
                    res.violation("C15:synth:/payload/mappings[]", f"mapping table after editing entry {k} and save/load differs at {[i for i in range(96) if got3[i] != want[i]][:6]}", desc)
    cl = m.clone()
    for path, a, b in snapshot.diff(S_syn, build.norm_module(snapshot.snap_module(cl, "synth"), "after"))[:3]:
        res.violation(f"C15:clone:{snapshot.field_key(path)}", f"clone {path}: original {a}, clone {b}", desc)
    if c.index % 2 == 1:
        # the same file as another writer might lay it out: the MetaModule's own chunks (project, mappings, options, names) in
        # another order, at every nesting level
        from . import c04
        from ..runner import Result
        import random as _r
        scratch = Result()
        c04.edits_permute_groups(scratch, "written MetaModule", raw, snapshot.snap_synth(s2), desc, _r.Random(c.index))
        res.count("chunk_order_variants", scratch.counters.get("chunk_group_permutations", 0))
        for v in scratch.violations:
            res.violation(v["key"].replace("C04:", "C15:", 1), v["what"], v.get("case"))
    if c.index % 3 == 0 and len(raw) < 40000:
        siblings(res, m, desc)
    recount(res, m, desc)
    unmap(res, m, desc)
    if c.index % 4 == 1:
        failed_save_then_fixed(res, m, desc)
    p = api.Project()
    p.attach_module(m)
    S_proj = build.norm_module(snapshot.snap_module(m, "project"), "before")
    rawp = p.read()
    structural(res, rawp, S, "project", desc)
    try:
        p2 = workload.load(rawp)
    except Exception as e:
        res.violation(f"C15:project-unloadable:{workload.exc_key(e)}", f"project with the MetaModule does not load: {e!r}", desc)
        return
    res.count("project_roundtrips")
    for path, a, b in snapshot.diff(S_proj, build.norm_module(snapshot.snap_module(p2.modules[1], "project"), "after"))[:3]:
        res.violation(f"C15:project:{snapshot.field_key(path)}", f"in-project {path}: before {a}, after {b}", desc)
    # the song has been written; the embedded project is edited (project-level fields only: nothing that travels through the
    # mappings) and the still-attached MetaModule is exported stand-alone / cloned: the export carries the project as it is NOW
    try:
        m.project.name = (m.project.name or "")[:20] + " v2"
        m.project.initial_bpm = 33 + (m.project.initial_bpm % 200)
        # (no module is added: a new module would take the lowest empty position, which a mapping may point at)
        for em in m.project.modules[1:]:
            if em is not None:
                em.name, em.x, em.y = (em.name or "")[:20] + "'", 100 if em.x != 100 else 101, -100 if em.y != -100 else -101
                break
        S_now = build.norm_module(snapshot.snap_module(m, "synth"), "before")
        exported = workload.load(api.Synth(m).read()).module
        cl_att = m.clone()
        res.count("exports_of_attached_after_embedded_edit")
        for how, got in (("export", exported), ("clone", cl_att)):
            for path, a, b in snapshot.diff(S_now, build.norm_module(snapshot.snap_module(got, "synth"), "after"))[:3]:
                res.violation(f"C15:attached-{how}-stale:{snapshot.field_key(path)}", f"MetaModule attached to a song that was saved before; embedded project edited; stand-alone {how}: {path}: "
                                                                                      f"object {a}, file {b}", desc)
        p3 = workload.load(p.read())
        for path, a, b in snapshot.diff(build.norm_module(snapshot.snap_module(m, "project"), "before"), build.norm_module(snapshot.snap_module(p3.modules[1], "project"), "after"))[:3]:
            res.violation(f"C15:project-resave:{snapshot.field_key(path)}", f"in-project, second save after editing the embedded project: {path}: object {a}, file {b}", desc)
    except Exception as e:
        res.violation(f"C15:attached-export-raises:{workload.exc_key(e)}", f"exporting the attached MetaModule after editing its project raised {e!r}", desc)
    foreign_labels(res, raw, desc, c.index)


def foreign_labels(res, raw, desc, index):
    """Controller-name chunks as other writers leave them: the name is a C string - it ends at the FIRST NUL (writers that keep
    names in fixed buffers leave older text after it), may lack the terminator, may be padded."""
    chunks = [(x[0], x[1]) for x in iffparse.parse(raw)]
    cur, idx = None, []
    for k, (cid, pl) in enumerate(chunks):
        if cid == b"CHNM":
            (cur,) = struct.unpack("<I", pl)
        elif cid == b"CHDT" and cur is not None and 8 <= cur < 8 + 96:
            idx.append((k, cur - 8))
    if not idx:
        return
    k, slot = idx[index % len(idx)]
    base = chunks[k][1].split(b"\0")[0]
    variants = [("tail-after-nul", base + b"\0nance\0"), ("tail-after-nul-unterminated", base + b"\0xyz"), ("padded", base + bytes(32 - len(base) % 32)),
                ("unterminated", base or b"q"), ("nul-first", b"\0hidden\0")]
    name, payload = variants[(index // 2) % len(variants)]
    want = payload.split(b"\0")[0].decode("utf8")
    new = list(chunks)
    new[k] = (b"CHDT", payload)
    case = dict(desc, label_variant=name, slot=slot)
    res.count("foreign_label_files")
    res.hist("foreign_label_variants", name)
    try:
        mm = workload.load(iffparse.build(new)).module
        got = mm.user_defined[slot].label
        again = mm.clone().user_defined[slot].label
    except Exception as e:
        res.violation(f"C15:foreign-label-raises:{name}:{workload.exc_key(e)}", f"label chunk {payload!r}: {e!r}", case)
        return
    if got != want or again != want:
        res.violation(f"C15:foreign-label:{name}", f"label chunk {payload!r} of controller {slot + 1}: loaded {got!r}, after another save/load {again!r}, the C string is {want!r}", case)


def siblings(res, m, desc):
    """Two MetaModules with byte-identical embedded projects in one file are still two MetaModules after loading."""
    import rv.api as api
    p = api.Project()
    a, b = m.clone(), m.clone()
    p.attach_module(a)
    p.attach_module(b)
    try:
        q = workload.load(p.read())
    except Exception as e:
        res.violation(f"C15:project-unloadable:{workload.exc_key(e)}", f"project with two copies of the MetaModule does not load: {e!r}", desc)
        return
    res.count("sibling_pairs")
    x, y = q.modules[1], q.modules[2]
    before = build.norm_module(snapshot.snap_module(y, "project"), "after")
    if x.project is y.project:
        res.count("observation_siblings_share_embedded_project_object")   # judged by behaviour below, not by identity
    x.project.initial_bpm = (x.project.initial_bpm % 200) + 31
    x.project.name = "edited sibling"
    new = x.project.new_module(api.m.Amplifier, name="added to sibling")
    x.project.connect(new, x.project.output)
    for mod in x.project.modules[1:]:
        if mod is not None:
            mod.name = "renamed in sibling"
            break
    after = build.norm_module(snapshot.snap_module(y, "project"), "after")
    for path, u, v in snapshot.diff(before, after)[:3]:
        res.violation(f"C15:sibling-edit-leaks:{snapshot.field_key(path)}", f"editing the embedded project of one loaded MetaModule changed its sibling at {path}: {u} -> {v}", desc)


def recount(res, m, desc):
    """Exposing one more controller does not disturb the values the already exposed ones hold (they are stored state,
    even when they differ from what the mapped target currently holds)."""
    cl = m.clone()
    n = cl.user_defined_controllers
    if not 0 < n < 96:
        return
    changed = 0
    for i in range(n):
        name = f"user_defined_{i + 1}"
        cur = cl.get_raw(name)
        if not isinstance(cur, int):
            continue
        for cand in (cur + 1, cur - 1, 0, 1):
            if cand == cur or cand < 0:
                continue
            try:
                cl.set_raw(name, cand)
            except Exception:
                continue
            if cl.get_raw(name) == cand:
                changed += 1
                break
    if not changed:
        return
    res.count("recount_cases")
    before = [cl.get_raw(f"user_defined_{i + 1}") for i in range(n)]
    cl.user_defined_controllers = n + 1
    after = [cl.get_raw(f"user_defined_{i + 1}") for i in range(n)]
    if after != before:
        moved = [i + 1 for i in range(n) if after[i] != before[i]]
        res.violation("C15:recount-resets-values", f"raising the controller count {n} -> {n + 1} changed the stored values of controllers {moved[:6]} "
                                                   f"({[before[i - 1] for i in moved[:6]]} -> {[after[i - 1] for i in moved[:6]]})", desc)
        return
    try:
        again = cl.clone()
    except Exception as e:
        res.violation(f"C15:unloadable:{workload.exc_key(e)}", f"MetaModule does not load after raising the count: {e!r}", desc)
        return
    got = [again.get_raw(f"user_defined_{i + 1}") for i in range(n)]
    if got != before:
        res.violation("C15:synth:/payload/user_values[]", f"stored user values {before[:6]} load back as {got[:6]} after the count was raised", desc)


def unmap(res, m, desc):
    """Exposed controllers whose mapping is taken away again (set to 'no target', or to a module that does not exist) and the
    mappings re-derived: what the controllers read afterwards is what a saved and re-loaded copy reads."""
    import random
    cl = m.clone()
    n = cl.user_defined_controllers
    live = [i for i in range(min(n, 96)) if cl.mappings.values[i].module != 0]
    if not live:
        return
    rng = random.Random(n * 7919 + len(live))
    picked = rng.sample(live, min(3, len(live)))
    for i in picked:
        cl.mappings.values[i] = cl.Mapping(rng.choice([(0, 0), (0, 1), (len(cl.project.modules) + 3, 0)]))
    cl.update_user_defined_controllers()
    res.count("unmap_cases")
    try:
        before = [(getattr(cl, f"user_defined_{i + 1}"), cl.get_raw(f"user_defined_{i + 1}")) for i in range(n)]
        again = cl.clone()
    except Exception as e:
        res.violation(f"C15:unloadable:{workload.exc_key(e)}", f"MetaModule does not save/load after mappings {picked} were removed: {e!r}", desc)
        return
    after = [(getattr(again, f"user_defined_{i + 1}"), again.get_raw(f"user_defined_{i + 1}")) for i in range(n)]
    bad = [i for i in range(n) if _cmp(before[i]) != _cmp(after[i])]
    if bad:
        i = bad[0]
        res.violation("C15:synth:/payload/user_values[]" if i not in picked else "C15:unmapped-controller-changes-on-reload",
                      f"after removing the mappings of controllers {[k + 1 for k in picked]} and update: user_defined_{i + 1} reads {before[i]} (value, stored) "
                      f"in memory and {after[i]} after save/load", desc)


def constructor_count(res, rng, k):
    """The count given as a CONSTRUCTOR keyword (directly or through new_module) and never assigned afterwards: exactly the
    first n controllers are exposed and written, in a project as well as stand-alone."""
    import rv.api as api
    for j in range(k):
        n = rng.choice([1, 2, 3, 27, 95, 96])
        how = ("constructor", "new_module")[j % 2]
        inner = api.Project()
        amp = inner.new_module(api.m.Amplifier)
        outer = api.Project()
        if how == "constructor":
            mm = api.m.MetaModule(project=inner, user_defined_controllers=n)
            outer.attach_module(mm)
        else:
            mm = outer.new_module(api.m.MetaModule, project=inner, user_defined_controllers=n)
        mm.mappings.values[0] = mm.Mapping((amp.index, 0))
        mm.user_defined[0].label = "vol"
        desc = {"scenario": "count-by-constructor-keyword", "n": n, "how": how}
        res.case(("constructor-count", n, how))
        res.count("constructor_keyword_counts")
        S = snapshot.snap_module(mm, "project")
        if S["payload"]["attached_user_controllers"] != list(range(n)):
            res.violation("C15:attached-set", f"{how}: count {n} given as keyword, attached user controllers are {S['payload']['attached_user_controllers'][:6]}...", desc)
            continue
        try:
            structural(res, outer.read(), S, "project", desc)
            q = workload.load(outer.read())
        except Exception as e:
            res.violation(f"C15:project-unloadable:{workload.exc_key(e)}", f"{how}: project with MetaModule(user_defined_controllers={n}) does not save/load: {e!r}", desc)
            continue
        S2 = snapshot.snap_module(q.modules[mm.index], "project")
        if S2["payload"]["count"] != n or S2["payload"]["attached_user_controllers"] != list(range(n)):
            res.violation("C15:project:/payload/count", f"{how}: count {n} loads back as {S2['payload']['count']} with attached {S2['payload']['attached_user_controllers'][:6]}", desc)


def failed_save_then_fixed(res, m, desc):
    """A save that fails half way (a field of the innermost embedded project holds something unwritable) leaves nothing
    behind: once the field is put right, saving works and gives the bytes it gave before."""
    import rv.api as api
    cl = m.clone()
    try:
        good = api.Synth(cl).read()
    except Exception:
        return
    proj, depth = cl.project, 0
    while True:
        inner = [x for x in proj.modules if x is not None and x.mtype == "MetaModule"]
        if not inner:
            break
        proj, depth = inner[0].project, depth + 1
    field, bad = (("initial_bpm", 120.5), ("initial_tpl", "6"), ("global_volume", None))[depth % 3]
    keep = getattr(proj, field)
    setattr(proj, field, bad)
    try:
        api.Synth(cl).read()
        res.count("failed_save_did_not_fail")
        setattr(proj, field, keep)
        return
    except Exception:
        pass
    setattr(proj, field, keep)
    res.count("failed_saves_then_fixed")
    res.hist("failed_save_depth", depth)
    try:
        again = api.Synth(cl).read()
    except Exception as e:
        res.violation(f"C15:save-after-failed-save-raises:{workload.exc_key(e)}", f"a save failed (embedded project depth {depth}, {field}={bad!r}); with the field restored the next save raises {e!r}", desc)
        return
    if again != good:
        res.violation("C15:save-after-failed-save-differs", f"after a failed and a repaired save the bytes differ from the first save (depth {depth})", desc)


def nested_repoint(res, rng, k):
    """outer MetaModule -> inner MetaModule -> module: the inner controller is pointed at another controller (another kind of
    range), both levels re-derive their mappings; what the outer controller reads is what a saved and re-loaded copy reads."""
    import rv.api as api
    from rv.modules import MODULE_CLASSES
    sp = spec.load()
    cands = [(T, i, sc) for T, t in sorted(sp.items()) if T not in ("Output", "MetaModule") for i, sc in enumerate(t.controllers)
             if sc.kind in ("range", "compact", "no_offset") and sc.attached]
    for _ in range(k):
        (T1, i1, s1), (T2, i2, s2) = rng.choice(cands), rng.choice(cands)
        desc = {"scenario": "nested-repoint", "first_target": f"{T1}.{s1.name}", "second_target": f"{T2}.{s2.name}"}
        res.case(("nested-repoint", T1, s1.name, T2, s2.name))
        inner_p = api.Project()
        a = inner_p.new_module(MODULE_CLASSES[sp[T1].mtype])
        b = inner_p.new_module(MODULE_CLASSES[sp[T2].mtype])
        inner = api.m.MetaModule(project=inner_p)
        inner.user_defined_controllers = 1
        inner.mappings.values[0] = inner.Mapping((a.index, i1))
        inner.update_user_defined_controllers()
        outer_p = api.Project()
        outer_p.attach_module(inner)
        outer = api.m.MetaModule(project=outer_p)
        outer.user_defined_controllers = 1
        outer.mappings.values[0] = outer.Mapping((inner.index, 5))          # the inner module's first user-defined controller
        outer.update_user_defined_controllers()
        try:
            setattr(a, s1.name, rng.randint(s1.min, s1.max))
            setattr(b, s2.name, rng.randint(s2.min, s2.max))
        except Exception:
            pass
        inner.mappings.values[0] = inner.Mapping((b.index, i2))
        inner.update_user_defined_controllers()
        outer.update_user_defined_controllers()
        res.count("nested_repoint_cases")
        try:
            before = _cmp((outer.user_defined_1, outer.get_raw("user_defined_1")))
            again = outer.clone()
            after = _cmp((again.user_defined_1, again.get_raw("user_defined_1")))
        except Exception as e:
            res.violation(f"C15:unloadable:{workload.exc_key(e)}", f"nested MetaModules do not save/load after the inner mapping was changed: {e!r}", desc)
            continue
        if before != after:
            res.violation("C15:nested-repoint-changes-on-reload", f"outer controller reads {before} (value, stored) in memory and {after} after save/load "
                                                                  f"(inner mapping moved from {T1}.{s1.name} {s1.min}..{s1.max} to {T2}.{s2.name} {s2.min}..{s2.max})", desc)


def _cmp(pair):
    v, raw = pair
    return (getattr(v, "value", v), raw)


def make_case(seed, index, tier, max_nest):
    import random
    from .. import gen
    rng = workload.case_rng(seed, index)
    g = gen.Gen(rng, tier)
    g.force_nest = index % (max_nest + 1)
    c = workload.Case()
    c.index, c.seed, c.kind, c.tier = index, seed, "module:MetaModule", tier
    n_user = COUNTS[index % len(COUNTS)] if index % 3 else None
    c.ad = g.module("MetaModule", "project", 0, n_user=n_user)
    c.history = []
    c.obj = build.build_module(c.ad, "project", rng, c.history)
    c.snap = None
    c.extra = {"force_nest": g.force_nest, "n_user": n_user}
    return c


def application_variants(res, rng, n):
    """MetaModules as applications make them: a template copied with copy.copy for every track (the copies attached and
    saved), and instances of an application subclass that behaves as the sequence of its exposed controllers (len() is the
    count - zero for a rack without knobs), at top level and inside another MetaModule's project."""
    import copy
    import rv.api as api
    from rv.modules import MODULE_CLASSES
    originals = dict(MODULE_CLASSES)

    def template(cls, knobs, volume, tag):
        inner = api.Project()
        inner.name = f"inner {tag}"
        amp = inner.new_module(api.m.Amplifier, volume=volume)
        amp >> inner.output
        mm = cls(project=inner, name=f"Rack {tag}")
        mm.user_defined_controllers = knobs
        for i in range(knobs):
            mm.mappings.values[i] = mm.Mapping((amp.index, (0, 2, 5, 1)[i % 4]))
            mm.user_defined[i].label = f"Knob {i}"
        mm.update_user_defined_controllers()
        if knobs:
            mm.user_defined_1 = 111
            amp.volume = 200
            if str(tag).endswith(("1", "3", "5", "7", "9")):
                # values as other libraries hand them over: integral numbers that are not `int` subclasses
                try:
                    import numpy as _np
                    mm.user_defined_1 = _np.int64(700)          # (slot 1 stands for Amplifier.volume, minimum 0: DESIGN decision 12)
                except ImportError:
                    pass
        return mm

    def facts(mod):
        if not isinstance(mod, api.m.MetaModule):
            return ("not a MetaModule", repr(mod))
        n = mod.user_defined_controllers
        return (n, [c.label for c in mod.user_defined[:n + 1]], [(x.module, x.controller) for x in mod.mappings.values[:n + 1]],
                len([1 for nm, c in mod.controllers.items() if c.attached(mod)]), [int(mod.get_raw(f"user_defined_{i + 1}")) for i in range(n)],
                [int(getattr(mod, f"user_defined_{i + 1}")) for i in range(n)],
                mod.project.name, [None if x is None else (type(x).__name__, x.name) for x in mod.project.modules],
                mod.project.modules[1].volume if len(mod.project.modules) > 1 and mod.project.modules[1] is not None else None)
    try:
        for k in range(n):
            Rack = type("MetaModule", (api.m.MetaModule,), {"__len__": lambda self: self.user_defined_controllers,
                                                            "__iter__": lambda self: iter(self.user_defined[:self.user_defined_controllers]),
                                                            "__module__": api.m.MetaModule.__module__, "__doc__": api.m.MetaModule.__doc__})
            MODULE_CLASSES.clear()
            MODULE_CLASSES.update(originals)
            knobs = rng.choice([0, 0, 1, 3])
            kind = rng.choice(("copy.copy", "falsy-subclass", "falsy-subclass-nested"))
            case = {"family": "application-variants", "kind": kind, "knobs": knobs}
            res.case(("application-variants", kind, knobs, k))
            res.count("application_variant_cases")
            res.hist("application_variant_kinds", f"{kind}:{knobs}")
            try:
                outer = api.Project()
                if kind == "copy.copy":
                    t = template(api.m.MetaModule, max(1, knobs), 300 + k, k)
                    mods = []
                    for j in range(2):
                        cp = copy.copy(t)
                        cp.name = f"copy {j}"
                        outer.attach_module(cp)
                        mods.append(cp)
                else:
                    mods = [template(Rack, knobs, 300 + k, k), template(Rack, 2, 123, "two")]
                    if kind == "falsy-subclass-nested":
                        mid = api.Project()
                        for mm in mods:
                            mid.attach_module(mm)
                        outer.attach_module(api.m.MetaModule(project=mid))
                    else:
                        for mm in mods:
                            outer.attach_module(mm)
                want = [facts(mm) for mm in mods]
                loaded = workload.load(outer.read())
                holder = loaded.modules[1].project if kind == "falsy-subclass-nested" else loaded
                got = [facts(holder.modules[mm.index]) if mm.index < len(holder.modules) else ("missing",) for mm in mods]
                alone = [facts(workload.load(api.Synth(mm).read()).module) for mm in mods]
            except Exception as e:
                res.violation(f"C15:application-variant-raises:{kind}:{workload.exc_key(e)}", f"{kind} ({knobs} knobs): {e!r}", case)
                continue
            for w, g, a in zip(want, got, alone):
                if w != g or w != a:
                    where = "in-project" if w != g else "stand-alone"
                    bad = g if w != g else a
                    res.violation(f"C15:application-variant:{kind}", f"{kind} ({knobs} knobs), {where}: the object shows {w}, the file gives {bad}", case)
                    break
    finally:
        MODULE_CLASSES.clear()
        MODULE_CLASSES.update(originals)


def deleted_targets(res, rng, n):
    """An embedded module that some EARLIER exposed controller points at is taken out by hand (`project.modules[i] = None`, it is
    not wired to anything): the later exposed controllers keep their types and values through clone / save / load."""
    import rv.api as api
    for k in range(n):
        inner = api.Project()
        mods = [inner.new_module(api.m.Amplifier, name=f"a{i}") for i in range(4)]
        mm = api.m.MetaModule(project=inner)
        mm.user_defined_controllers = 4
        targets = [(mods[0], "volume"), (mods[1], "balance"), (mods[2], "dc_offset"), (mods[3], "inverse")]
        rng.shuffle(targets)
        for i, (mod, cname) in enumerate(targets):
            mm.mappings.values[i] = mm.Mapping((mod.index, list(type(mod).controllers).index(cname)))
        mm.update_user_defined_controllers()
        victim = rng.randrange(3)                       # never the last one: something typed follows
        inner.modules[targets[victim][0].index] = None
        want = [(mm.get_raw(f"user_defined_{i + 1}"), repr(getattr(mm, f"user_defined_{i + 1}"))) for i in range(4)]
        case = {"family": "deleted-targets", "order": [t[1] for t in targets], "victim_slot": victim + 1}
        res.count("deleted_target_cases")
        for how in ("clone", "project"):
            try:
                if how == "clone":
                    back = mm.clone()
                else:
                    p = api.Project()
                    p.attach_module(mm.clone())
                    back = workload.load(p.read()).modules[1]
            except Exception as e:
                res.violation(f"C15:deleted-target-raises:{workload.exc_key(e)}", f"{how}: {e!r}", case)
                break
            got = [(back.get_raw(f"user_defined_{i + 1}"), repr(getattr(back, f"user_defined_{i + 1}"))) for i in range(4)]
            for i in range(4):
                if i != victim and got[i] != want[i]:
                    res.violation(f"C15:{how}:/controllers/user_defined_N:after-deleted-target", f"embedded module behind exposed controller {victim + 1} taken out by hand; controller {i + 1} "
                                                                                                f"({targets[i][1]}) was {want[i]}, after {how} {got[i]}", case)
                    break
            else:
                continue
            break


def loaded_embedded_edits(res, rng, n):
    """(1) Exposed controllers mapped onto controllers that the embedded module has but does not store as CVALs (the Sampler's
    record fields): type and value survive.  (2) A MetaModule that came from a FILE: every controller of its embedded modules
    is edited, one at a time; the exposed controllers' stored values stay as they are (nothing links a loaded MetaModule to
    its embedded modules), the edits are what the next save carries."""
    import rv.api as api
    for k in range(n):
        inner = api.Project()
        smp = inner.new_module(api.m.Sampler)
        amp = inner.new_module(api.m.Amplifier)
        mm = api.m.MetaModule(project=inner)
        names_s, names_a = list(type(smp).controllers), list(type(amp).controllers)
        picks = [(smp, "vibrato_type"), (smp, "vibrato_depth"), (amp, "balance"), (amp, "volume"), (smp, "volume_fadeout"), (amp, "dc_offset")]
        rng.shuffle(picks)
        mm.user_defined_controllers = len(picks)
        smp.vibrato_type, smp.vibrato_depth, smp.volume_fadeout = smp.VibratoType.saw, 77, 1234
        amp.balance, amp.volume, amp.dc_offset = -77, 300, 5
        for i, (mod, cname) in enumerate(picks):
            mm.mappings.values[i] = mm.Mapping((mod.index, (names_s if mod is smp else names_a).index(cname)))
        mm.update_user_defined_controllers()
        # (what each exposed controller stands for is known from the script: the target's own value, in the target's own kind)
        stands_for = {"vibrato_type": ("<VibratoType.saw: 1>", 1), "vibrato_depth": ("77", 77), "balance": ("-77", 51), "volume": ("300", 300),
                      "volume_fadeout": ("1234", 1234), "dc_offset": ("5", 133)}
        want = [stands_for[cname] for _mod, cname in picks]
        case = {"family": "loaded-embedded-edits", "slots": [p_[1] for p_ in picks]}
        built = [(repr(getattr(mm, f"user_defined_{i + 1}")), mm.get_raw(f"user_defined_{i + 1}")) for i in range(len(picks))]
        if built != want:
            i = next(j for j in range(len(picks)) if built[j] != want[j])
            res.violation("C15:api-did-not-store:/controllers/user_defined_N:unattached-target", f"exposed controller {i + 1} mapped onto {type(picks[i][0]).__name__}.{picks[i][1]} "
                                                                                               f"shows {built[i]} after update_user_defined_controllers(), the target holds {want[i]}", case)
            continue
        res.count("loaded_embedded_edit_cases")
        try:
            loaded = mm.clone()
        except Exception as e:
            res.violation(f"C15:clone-raises:{workload.exc_key(e)}", f"MetaModule exposing Sampler record controllers: {e!r}", case)
            continue
        got = [(repr(getattr(loaded, f"user_defined_{i + 1}")), loaded.get_raw(f"user_defined_{i + 1}")) for i in range(len(picks))]
        if got != want:
            i = next(j for j in range(len(picks)) if got[j] != want[j])
            res.violation("C15:clone:/controllers/user_defined_N:unattached-target", f"exposed controller {i + 1} stands for {type(picks[i][0]).__name__}.{picks[i][1]}: it held {want[i]}, "
                                                                                    f"after save/load {got[i]}", case)
            continue
        # (2) edits inside the LOADED MetaModule's project
        l_amp = loaded.project.modules[amp.index]
        edits = {"volume": 100, "balance": 17, "mute": True, "inverse": True, "stereo_width": 55, "absolute": True, "fine_volume": 9, "gain": 3, "bipolar_dc_offset": -3}
        before_slots = [loaded.get_raw(f"user_defined_{i + 1}") for i in range(len(picks))]
        applied = {}
        for cname, v in edits.items():
            if cname in type(l_amp).controllers:
                try:
                    setattr(l_amp, cname, v)
                    applied[cname] = v
                except Exception as e:
                    res.violation(f"C15:loaded-embedded-edit-raises:{type(e).__name__}", f"Amplifier.{cname} = {v} inside a loaded MetaModule raised {e!r}", case)
                    break
        if [loaded.get_raw(f"user_defined_{i + 1}") for i in range(len(picks))] != before_slots:
            res.violation("C15:loaded-embedded-edit:slots-changed", f"editing controllers of a module inside a LOADED MetaModule changed the stored values of its exposed controllers: "
                                                                    f"{before_slots} -> {[loaded.get_raw(f'user_defined_{i + 1}') for i in range(len(picks))]}", case)
            continue
        bad = {c_: (v, getattr(l_amp, c_)) for c_, v in applied.items() if getattr(l_amp, c_) != v}
        if bad:
            res.violation("C15:loaded-embedded-edit:bounced", f"controllers edited inside a loaded MetaModule do not hold what was assigned: {bad}", case)
            continue
        again = loaded.clone()
        a_amp = again.project.modules[amp.index]
        bad = {c_: (v, getattr(a_amp, c_)) for c_, v in applied.items() if getattr(a_amp, c_) != v}
        if bad or [again.get_raw(f"user_defined_{i + 1}") for i in range(len(picks))] != before_slots:
            res.violation("C15:loaded-embedded-edit:not-saved", f"after save/load: embedded edits {bad}, exposed values {[again.get_raw(f'user_defined_{i + 1}') for i in range(len(picks))]} "
                                                                f"(were {before_slots})", case)


def run_shard(spec_, res):
    monitors.install()
    for i in range(spec_["start"], spec_["start"] + spec_["count"]):
        try:
            c = make_case(spec_["seed"], i, spec_["tier"], spec_["max_nest"])
        except Exception as e:
            res.violation(f"C15:build-raises:{workload.exc_key(e)}", f"building MetaModule case {i} raised {e!r}", {"case_seed": spec_["seed"], "index": i})
            continue
        check_metamodule(res, c)
        if i == spec_["start"] and spec_["shard"] == 0:
            S = snapshot.snap_module(c.obj, "synth")
            res.sample({"index": i, "count": S["payload"]["count"], "mappings_head": S["payload"]["mappings"][:4],
                        "labels": S["payload"]["labels"], "embedded_modules": [None if m is None else m["type"] for m in S["payload"]["project"]["modules"]]})
    import random as _random
    nested_repoint(res, _random.Random(spec_["seed"] * 31 + spec_["shard"]), 40 if spec_["tier"] == "quick" else 400)
    constructor_count(res, _random.Random(spec_["seed"] * 37 + spec_["shard"]), 12 if spec_["tier"] == "quick" else 60)
    application_variants(res, _random.Random(spec_["seed"] * 41 + spec_["shard"]), 12 if spec_["tier"] == "quick" else 100)
    deleted_targets(res, _random.Random(spec_["seed"] * 43 + spec_["shard"]), 8 if spec_["tier"] == "quick" else 60)
    loaded_embedded_edits(res, _random.Random(spec_["seed"] * 47 + spec_["shard"]), 6 if spec_["tier"] == "quick" else 50)
    for name, msg in monitors.take_failures():
        res.violation(f"C15:ambient:{name}", msg, {"monitor": name})
    res.exhaustive = True


def finalize(merged, tier):
    counts = merged["counters"].get("counts", {})
    missing = [n for n in COUNTS if str(n) not in counts]
    if missing:
        merged["inconclusive"].append(f"user-controller counts {missing} were not exercised")


def replay(case, res):
    monitors.install()
    c = make_case(case["case_seed"], case["index"], case.get("tier", "quick"), 2 if case.get("tier", "quick") == "quick" else 3)
    check_metamodule(res, c)
