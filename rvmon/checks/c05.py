"""C05 - re-saving is stable: load/save is idempotent and saving is pure."""
import os
import random
import struct

from .. import env, iffparse, monitors, snapshot, spec, workload

PROPERTY = "C05"
LEVEL = "exploration"
RULE = ("one case = one loadable file X (a shipped fixture, a generated project/synth, or one of those with CVAL / small CHDT / SLNK / "
        "PDTA bytes mutated to arbitrary, including out-of-range, values) taken through up to 4 load/save cycles: Y=save(load(X)) must "
        "load, and every later cycle must reproduce Y byte for byte; each save is also checked for purity (snapshot before == after; two "
        "saves identical).  Unloadable mutants are counted and skipped.  distinct = distinct X; non-trivial = X differs from every other X")
ASSUMPTIONS = [
    "the property quantifies over loadable files: a mutant whose load raises is outside the domain (counted as unloadable)",
    "a loaded object that cannot be saved has no Y: reported as a violation (DESIGN 6.9), never skipped",
    "mutations keep the chunk structure (lengths unchanged) so that 'loadable' depends on values, not on framing",
]
REQUIRED_COUNTERS = ["files_loadable", "cycles_run", "purity_evaluations", "out_of_range_cvals_survived"]
WORKERS = {"quick": 4, "thorough": 16}

CVAL_VALUES = [-2 ** 31, -1, 0, 1, 129, 257, 300, 1000, 32769, 65536, 2 ** 31 - 1, -129, -32769]


def _plan_core(tier, seed):
    fx = [os.path.relpath(f, env.FIXTURE_DIR) for f in env.fixtures()]
    n = 4 if tier == "quick" else 16
    muts = 40 if tier == "quick" else 200
    gens = 100 if tier == "quick" else 400
    return [{"tier": tier, "seed": seed, "shard": i, "fixtures": fx[i::n], "mutations": muts,
             "gen_start": i * gens, "gen_count": gens, "foreign_payload": 18 if tier == "quick" else 90} for i in range(n)]


def mutate(raw, rng):
    """Structure-preserving mutation; returns (kind, bytes) or None."""
    try:
        chunks = iffparse.parse(raw)
    except iffparse.Malformed:
        return None
    kind = rng.choice(("cval", "cval", "cval", "chdt", "slnk", "slnk-duplicate", "slnk-duplicate", "slnk-free-last", "slnk2", "pdta", "pdta-long", "cmid-param", "extra-cvals"))
    out = [[c[0], c[1]] for c in chunks]
    if kind == "cval":
        idx = [i for i, c in enumerate(out) if c[0] == b"CVAL"]
        if not idx:
            return None
        for i in rng.sample(idx, min(len(idx), rng.choice([1, 1, 2, 5]))):
            v = rng.choice(CVAL_VALUES) if rng.random() < 0.7 else rng.randint(-2 ** 31, 2 ** 31 - 1)
            out[i][1] = struct.pack("<i", v)
    elif kind == "chdt":
        idx = [i for i, c in enumerate(out) if c[0] == b"CHDT" and 0 < len(c[1]) <= 64]
        if not idx:
            return None
        i = rng.choice(idx)
        out[i][1] = bytes(rng.randrange(256) for _ in range(len(out[i][1])))
    elif kind == "slnk":
        idx = [i for i, c in enumerate(out) if c[0] == b"SLNK" and len(c[1]) >= 4]
        nmods = sum(1 for c in out if c[0] == b"SEND")
        if not idx:
            return None
        i = rng.choice(idx)
        n = len(out[i][1]) // 4
        vals = list(struct.unpack("<" + "i" * n, out[i][1]))
        vals[rng.randrange(n)] = rng.randint(-1, max(0, nmods - 1))
        out[i][1] = struct.pack("<" + "i" * n, *vals)
    elif kind == "slnk-duplicate":
        # one source module appears twice among a module's incoming links (two cables between the same two modules)
        idx = [i for i, c in enumerate(out) if c[0] == b"SLNK" and len(c[1]) >= 8]
        if not idx:
            return None
        i = rng.choice(idx)
        n = len(out[i][1]) // 4
        vals = list(struct.unpack("<" + "i" * n, out[i][1]))
        live = [k for k, v in enumerate(vals) if v >= 0]
        if not live:
            return None
        src = rng.choice(live)
        dst = rng.choice([k for k in range(n) if k != src])
        vals[dst] = vals[src]
        out[i][1] = struct.pack("<" + "i" * n, *vals)
    elif kind == "extra-cvals":
        # a file from a newer SunVox: more controller values than this library knows for the type (distinct, non-palindromic)
        ends = [i for i, c in enumerate(out) if c[0] == b"CVAL" and (i + 1 >= len(out) or out[i + 1][0] != b"CVAL")]
        if not ends:
            return None
        i = rng.choice(ends)
        k = rng.randint(2, 5)
        extra = [[b"CVAL", struct.pack("<i", 11 * (j + 1) + rng.randrange(5))] for j in range(k)]
        out[i + 1:i + 1] = extra
        if i + 1 + k < len(out) and out[i + 1 + k][0] == b"CMID" and rng.random() < 0.5:
            out[i + 1 + k][1] = out[i + 1 + k][1] + bytes([0, 0, 0, 0, 0, 0, 0, 0xFF]) * k
    elif kind == "slnk2":
        # the explicit slot chunk: an entry set to another small slot number or freed
        idx = [i for i, c in enumerate(out) if c[0] == b"SLnK" and len(c[1]) >= 4]
        if not idx:
            return None
        i = rng.choice(idx)
        n = len(out[i][1]) // 4
        vals = list(struct.unpack("<" + "i" * n, out[i][1]))
        vals[rng.randrange(n)] = rng.choice([-1, 0, 0, 1, 2, 3])
        out[i][1] = struct.pack("<" + "i" * n, *vals)
    elif kind == "slnk-free-last":
        # free the last incoming link of a module whose explicit slot chunk follows (stale slot left behind)
        idx = [i for i, c in enumerate(out) if c[0] == b"SLNK" and len(c[1]) >= 8 and i + 1 < len(out) and out[i + 1][0] == b"SLnK"]
        idx = idx or [i for i, c in enumerate(out) if c[0] == b"SLNK" and len(c[1]) >= 4]
        if not idx:
            return None
        i = rng.choice(idx)
        out[i][1] = out[i][1][:-4] + struct.pack("<i", -1)
    elif kind == "pdta-long":
        # a note block larger than the declared lines x tracks (a writer that keeps its allocated buffer)
        idx = [i for i, c in enumerate(out) if c[0] == b"PDTA"]
        if not idx:
            return None
        i = rng.choice(idx)
        out[i][1] = out[i][1] + bytes(rng.randrange(256) for _ in range(8 * rng.randint(1, 12)))
    elif kind == "pdta":
        idx = [i for i, c in enumerate(out) if c[0] == b"PDTA" and len(c[1]) >= 8]
        if not idx:
            return None
        i = rng.choice(idx)
        b = bytearray(out[i][1])
        for _ in range(rng.randint(1, 8)):
            off = rng.randrange(len(b) // 8) * 8
            b[off:off + 8] = bytes(rng.randrange(256) for _ in range(8))
        out[i][1] = bytes(b)
    else:
        idx = [i for i, c in enumerate(out) if c[0] == b"CMID" and len(c[1]) >= 8]
        if not idx:
            return None
        i = rng.choice(idx)
        b = bytearray(out[i][1])
        k = rng.randrange(len(b) // 8) * 8
        b[k + 4:k + 6] = struct.pack("<H", rng.randrange(65536))
        b[k + 1] = rng.randrange(256)
        out[i][1] = bytes(b)
    return kind, iffparse.build(out)


def first_diff_chunk(a, b):
    try:
        ca, cb = iffparse.parse(a), iffparse.parse(b)
    except iffparse.Malformed:
        return "malformed"
    for x, y in zip(ca, cb):
        if x[0] != y[0]:
            return f"{x[0].decode('latin1').strip()}-vs-{y[0].decode('latin1').strip()}"
        if x[1] != y[1]:
            return x[0].decode("latin1").strip()
    return "length"


def _snap(obj):
    from rv.project import Project
    return snapshot.snap_project(obj) if isinstance(obj, Project) else snapshot.snap_synth(obj)


def cycle(res, X, origin, desc):
    """Run the load/save cycles for one candidate file."""
    res.count("candidates")
    try:
        o = workload.load(X)
    except Exception:
        res.count("files_unloadable")
        res.hist("unloadable_by_origin", origin)
        return
    res.count("files_loadable")
    res.hist("loadable_by_origin", origin)
    if res.counters["files_loadable"] % 211 == 1:
        res.sample({"origin": origin, "bytes": len(X), "mutation": desc.get("mutation"), "source": desc.get("origin"), "cycles": 4})
    res.case(X)
    prev = None
    for n in range(1, 5):
        try:
            monitors.PURITY_ENABLED = False      # (the ambient monitor inspects the object before every save)
            try:
                Y_first = o.read()           # before anything has looked at the loaded object
            finally:
                monitors.PURITY_ENABLED = True
            workload.look_at(o)         # read-only helpers (play-order view, tabular views, printing)
            before = _snap(o)
            Y = o.read()
            after = _snap(o)
            Y_again = o.read()
        except Exception as e:
            res.violation(f"C05:save-fails:{workload.exc_key(e)}", f"{origin}: object loaded in cycle {n} cannot be saved: {e!r}", desc)
            return
        res.count("purity_evaluations")
        if Y_first != Y:
            res.violation(f"C05:two-saves-differ:{first_diff_chunk(Y_first, Y)}", f"{origin}: a save made right after loading and a save made after the object was inspected (read-only) "
                                                                                  f"give different bytes ({len(Y_first)} vs {len(Y)})", desc)
            return
        if before != after:
            d = snapshot.diff(before, after)
            res.violation(f"C05:impure-save:{snapshot.field_key(d[0][0]) if d else '?'}", f"{origin}: saving changed the object: {d[:2]}", desc)
            return
        if Y != Y_again:
            res.violation(f"C05:two-saves-differ:{first_diff_chunk(Y, Y_again)}", f"{origin}: saving the same object twice gives different bytes", desc)
            return
        if prev is not None:
            res.count("cycles_run")
            if Y != prev:
                ch = first_diff_chunk(prev, Y)
                res.violation(f"C05:drift:{ch}", f"{origin}: cycle {n} re-save differs from the previous save (first differing chunk {ch}; lengths {len(prev)} -> {len(Y)})", desc)
                return
        elif Y != X:
            res.count("files_where_X_differs_from_Y")
        prev = Y
        if n == 1 and len(Y) < 60000:
            # another object loaded from the same bytes is edited in place and thrown away; this must not influence
            # what the bytes Y load as afterwards
            try:
                from . import c06
                side = workload.load(Y)
                c06.mutate_live(side, random.Random(len(Y)), 6, prefer=("/payload/project/", "/payload/"))
                res.count("sibling_objects_edited")
                del side
            except Exception:
                pass
        try:
            o = workload.load(Y)
        except Exception as e:
            res.violation(f"C05:resaved-file-unloadable:{workload.exc_key(e)}", f"{origin}: file written in cycle {n} does not load: {e!r}", desc)
            return
    # out-of-range CVALs that survived the round trips
    try:
        n_oor = count_out_of_range(o)
        res.count("out_of_range_cvals_survived", n_oor)
    except Exception:
        pass


def reshaped_patterns_purity(res, c):
    """A pattern whose declared size was changed after its cells existed (shorter or narrower, longer or wider): saving
    writes what it writes, but it does not touch the object."""
    import rv.api as api
    p = c.obj
    pats = [q for q in p.patterns if isinstance(q, api.Pattern)]
    if not pats:
        return
    rng = random.Random(c.index)
    q = rng.choice(pats)
    q.data      # the grid exists
    how = rng.choice(("shorter", "narrower", "both"))
    if how in ("shorter", "both") and q.lines > 1:
        q.lines = max(1, q.lines // 2)
    if how in ("narrower", "both") and q.tracks > 1:
        q.tracks = max(1, q.tracks - 1)
    res.count("purity_evaluations")
    res.count("reshaped_pattern_saves")
    try:
        before = _snap(p)
        Y = p.read()
        after = _snap(p)
        Y2 = p.read()
    except Exception:
        res.count("reshaped_pattern_unsaveable")
        return
    if before != after:
        d = snapshot.diff(before, after)
        res.violation(f"C05:impure-save:{snapshot.field_key(d[0][0]) if d else '?'}", f"saving a project whose pattern was made {how} changed the object: {d[:2]}", dict(c.describe(), reshaped=how))
    elif Y != Y2:
        res.violation(f"C05:two-saves-differ:{first_diff_chunk(Y, Y2)}", f"saving the same object (pattern made {how}) twice gives different bytes", dict(c.describe(), reshaped=how))


def rearranged_modules_purity(res, c):
    """The module list is a plain list and applications re-order it with list operations (swap, insert, delete) - positions and
    each module's own `index` then disagree.  Whatever such a project saves as, saving does not touch the objects."""
    import rv.api as api
    p = c.obj
    live = [i for i, m in enumerate(p.modules) if m is not None and i > 0]
    if len(live) < 2:
        return
    rng = random.Random(c.index + 5)
    how = rng.choice(("swap", "insert-none", "delete-none", "rotate"))
    if how == "swap":
        i, j = rng.sample(live, 2)
        p.modules[i], p.modules[j] = p.modules[j], p.modules[i]
    elif how == "insert-none":
        p.modules.insert(rng.choice(live), None)
    elif how == "delete-none":
        gaps = [i for i, m in enumerate(p.modules) if m is None]
        if not gaps:
            p.modules.insert(1, None)
        else:
            del p.modules[gaps[0]]
    else:
        p.modules[1:] = p.modules[2:] + p.modules[1:2]
    res.count("purity_evaluations")
    res.count("rearranged_module_list_saves")
    monitors.PURITY_ENABLED = False
    try:
        try:
            before = (_snap(p), [(m.index, hash(m), int(m)) if m is not None else None for m in p.modules])
            Y = p.read()
            after = (_snap(p), [(m.index, hash(m), int(m)) if m is not None else None for m in p.modules])
            Y2 = p.read()
        except Exception:
            res.count("rearranged_module_list_unsaveable")
            return
    finally:
        monitors.PURITY_ENABLED = True
    if before != after:
        d = snapshot.diff(before[0], after[0])
        res.violation(f"C05:impure-save:{snapshot.field_key(d[0][0]) if d else '/modules[]/index'}", f"saving a project whose module list was re-ordered by list operations ({how}) changed the objects: "
                                                                                                      f"{d[:2] if d else [x for x, y in zip(before[1], after[1]) if x != y][:3]}", dict(c.describe(), rearranged=how))
    elif Y != Y2:
        res.violation(f"C05:two-saves-differ:{first_diff_chunk(Y, Y2)}", f"saving the same object (module list re-ordered: {how}) twice gives different bytes", dict(c.describe(), rearranged=how))


def hidden_state_purity(res):
    """State that a save does NOT write is still state of the object: labels on MetaModule controllers beyond the exposed count,
    SpectraVoice tables edited directly, values of controllers that are not exposed.  Saving leaves all of it alone."""
    import rv.api as api
    mm = api.m.MetaModule()
    mm.user_defined_controllers = 4
    for i in range(8):
        mm.user_defined[i].label = f"L{i}"
    mm.user_defined_controllers = 2          # labels 2..7 are hidden now
    sv = api.m.SpectraVoice()
    sv.harmonic_volumes.values[3] = 99
    sv.harmonic_freqs.values[5] = 4321
    p = api.Project()
    p.attach_module(mm)
    p.attach_module(sv)

    def look():
        return ([c.label for c in mm.user_defined[:10]], [mm.controller_values.get(f"user_defined_{i + 1}") for i in range(10)],
                list(sv.harmonic_volumes.values), list(sv.harmonic_freqs.values), list(sv.harmonic_widths.values))
    monitors.PURITY_ENABLED = False
    try:
        for how, save in (("project", p.read), ("synth-metamodule", lambda: api.Synth(mm).read()), ("synth-spectravoice", lambda: api.Synth(sv).read()), ("clone", lambda: (mm.clone(), sv.clone()))):
            before = look()
            save()
            res.count("purity_evaluations")
            res.count("hidden_state_saves")
            if look() != before:
                k = next(i for i, (x, y) in enumerate(zip(before, look())) if x != y)
                res.violation(f"C05:impure-save:hidden-state:{('labels', 'hidden-values', 'harmonic_volumes', 'harmonic_freqs', 'harmonic_widths')[k]}",
                              f"saving ({how}) changed state it does not write: {before[k][:8]} -> {look()[k][:8]}", {"family": "hidden-state", "how": how})
                break
    finally:
        monitors.PURITY_ENABLED = True


def count_out_of_range(o):
    from rv.project import Project
    from rv.controller import Range
    mods = [m for m in o.modules if m is not None] if isinstance(o, Project) else [o.module]
    n = 0
    for m in mods:
        for name, c in m.controllers.items():
            if not c.attached(m):
                continue
            t = c.instance_value_type(m)
            v = getattr(m, name)
            if isinstance(t, Range) and isinstance(v, int) and not isinstance(v, bool) and (v < t.min or v > t.max):
                n += 1
    return n


def export_orders(res, seed, shard, tier):
    """Objects made through the API that nothing has looked at yet: module export, project save, clone, module export, inspection,
    export - in whatever order, each kind of save gives the bytes it gave the first time."""
    import rv.api as api
    from rv.modules import MODULE_CLASSES
    from .. import build as _build, gen
    sp = spec.load()
    types = sorted(T for T in sp if T != "Output")
    rng = random.Random(seed * 1009 + shard)
    for k, T in enumerate(types):
        if (k + shard) % 4:
            continue
        for style in ("default", "generated"):
            try:
                if style == "default":
                    m = MODULE_CLASSES[sp[T].mtype]()
                else:
                    r2 = random.Random(rng.randrange(2 ** 40))
                    m = _build.build_module(gen.Gen(r2, tier).module(T, "project"), "project", r2, [])
                p = api.Project()
                p.attach_module(m)
                other = p.new_module(api.m.Amplifier)
                p.connect(m, other)
            except Exception:
                res.count("export_order_unusable")
                continue
            case = {"type": T, "style": style, "family": "export-orders"}
            order = rng.choice((("synth", "project"), ("project", "synth"), ("synth", "clone"), ("clone", "project")))
            seen = {}
            monitors.PURITY_ENABLED = False      # (the ambient monitor would inspect the objects before the first save)
            steps = list(order) + ["synth", "project", "inspect", "synth", "project", "clone"]
            try:
                for step in steps:
                    if step == "inspect":
                        _snap(p)
                        snapshot.snap_synth(api.Synth(m))
                        continue
                    data = {"synth": lambda: api.Synth(m).read(), "project": p.read, "clone": lambda: api.Synth(m.clone()).read()}[step]()
                    res.count("export_order_saves")
                    kind = "synth" if step == "clone" and False else step
                    if kind in seen and seen[kind] != data:
                        res.violation(f"C05:two-saves-differ:{first_diff_chunk(seen[kind], data)}",
                                      f"{T} ({style}): the '{kind}' save gives different bytes ({len(seen[kind])} vs {len(data)}) after the steps {steps[:steps.index(step) + 1]}", dict(case, steps=steps))
                        break
                    seen.setdefault(kind, data)
            except Exception as e:
                res.count("export_order_raised")
                res.hist("export_order_raised_why", workload.exc_key(e))
            monitors.PURITY_ENABLED = True
            res.count("purity_evaluations")
            res.count("export_order_cases")


def threaded_saves(res, seed, shard, tier):
    from .. import threadtasks
    threadtasks.free_running_saves(res, "C05", seed, shard, tier)
    res.count("purity_evaluations")


def run_shard(spec_, res):
    if spec_.get("part") == "soak":
        from .. import soak
        for s_ in spec_["soak_seeds"]:
            soak.run(res, s_, spec_["tier"], PROPERTY, SOAK_KINDS, spec_["steps"])
        return
    monitors.install(snapshot_fn=_snap)
    rng = random.Random(env.shard_seed(spec_["shard"]))
    tier = spec_["tier"]
    sources = []
    for name in spec_["fixtures"]:
        with open(os.path.join(env.FIXTURE_DIR, name), "rb") as f:
            sources.append((f"fixture:{name}", f.read(), {"fixture": name}))
    types = sorted(T for T in spec.load() if T != "Output")
    for i in range(spec_["gen_start"], spec_["gen_start"] + spec_["gen_count"]):
        try:
            if i % 3 == 0:
                c = workload.project_case(spec_["seed"], i, tier)
                raw = c.obj.read()
            else:
                import rv.api as api
                T = types[i % len(types)]
                c = workload.module_case(spec_["seed"], i, tier, T, ctx="synth")
                raw = api.Synth(c.obj).read()
        except Exception as e:
            res.count("generated_unsaveable")
            continue
        sources.append((f"generated:{c.kind}", raw, c.describe()))
        if c.kind == "project":
            reshaped_patterns_purity(res, c)
            rearranged_modules_purity(res, c)
        if i % 2 == 0:
            # the same content as ANOTHER writer would store it (the independent reference encoder with random format choices):
            # X need not be something this library would ever write itself
            try:
                from .. import build as _build, refcodec
                import rv.api as api
                N = _build.norm(c.snap if c.kind == "project" else snapshot.snap_synth(api.Synth(c.obj)), "before")
                ch = refcodec.Choices(random.Random(i * 7 + spec_["seed"]))
                ch.snam_overlong = i % 4 == 0
                sources.append((f"foreign:{c.kind}", refcodec.encode(N, ch), dict(c.describe(), choices=ch.describe())))
            except Exception:
                res.count("foreign_encoding_failed")
    # payload-heavy types as another writer stores them, with the corner contents such writers leave behind
    # (zero-length sample in the last occupied slot, empty names)
    for j in range(spec_.get("foreign_payload", 0)):
        try:
            from .. import build as _build, refcodec
            import rv.api as api
            T = ("Sampler", "Sampler", "MetaModule", "VorbisPlayer", "AnalogGenerator", "Generator")[j % 6]
            c = workload.module_case(spec_["seed"], 880000 + spec_["shard"] * 1000 + j, tier, T, ctx="synth")
            N = _build.norm(snapshot.snap_synth(api.Synth(c.obj)), "before")
            r2 = random.Random(j * 13 + spec_["seed"] + spec_["shard"])
            pl = N["module"].get("payload") or {}
            if T == "Sampler" and pl.get("samples"):
                last = max(pl["samples"])
                if r2.random() < 0.6:
                    pl["samples"][last]["data"] = b""
                    res.count("foreign_sampler_last_slot_empty")
            sources.append((f"foreign-payload:{T}", refcodec.encode(N, refcodec.Choices(r2)), dict(c.describe(), foreign=T)))
        except Exception as e:
            res.count("foreign_encoding_failed")
            res.hist("foreign_encoding_failed_why", workload.exc_key(e))
    # instruments in the older record layouts (no signature, no envelope chunks, longer / shorter records): files as SunVox wrote
    # them years ago
    try:
        from . import c16
        lrng = random.Random(spec_["seed"] * 19 + spec_["shard"])
        lchunks = c16.fixture_chunks()
        seen_kinds = set()
        for k in range(60):
            kind, lraw, _exp = c16.make_variant(lchunks, lrng)
            if kind in seen_kinds and len(seen_kinds) < 6 and tier == "quick":
                continue                    # (quick tier: one file of every kind per shard)
            seen_kinds.add(kind)
            sources.append((f"legacy-sampler:{kind}", lraw, {"legacy_variant": kind}))
            res.hist("legacy_sampler_sources", kind)
            if (tier == "quick" and len(seen_kinds) >= 6) or len(sources) > 400:
                break
    except Exception:
        res.count("legacy_sources_unavailable")
    # pattern lists in which clones refer to clones (chains forwards and backwards, a cycle, a clone of itself, a clone of an empty
    # or missing position): API-built and hand-edited songs have them
    try:
        import rv.api as api
        for cname, srcs in (("forward-chain", [None, 2, 3, 4, 0]), ("backward-chain", [None, 0, 1, 2, 3]), ("cycle", [None, 2, 3, 1]), ("self", [None, 1, 0]),
                            ("dangling", [None, 7, 1, "gap"]), ("long-forward", [None, 2, 3, 4, 5, 6, 0])):
            cp = api.Project()
            for s_ in srcs:
                if s_ is None:
                    q = api.Pattern(tracks=1, lines=2, name="P")
                    q.data[0][0].vel = 9
                    cp.attach_pattern(q)
                elif s_ == "gap":
                    cp.attach_pattern(None)
                else:
                    cp.attach_pattern(api.PatternClone(source=s_, x=8 * s_))
            sources.append((f"clone-chains:{cname}", cp.read(), {"clone_sources": [str(x) for x in srcs]}))
    except Exception:
        res.count("clone_chain_sources_unavailable")
    for origin, raw, desc in sources:
        cycle(res, raw, origin.split(":")[0], dict(desc, origin=origin, mutation=None))
        nm = spec_["mutations"] if origin.startswith("fixture") else max(2, spec_["mutations"] // 6)
        for k in range(nm):
            mrng = random.Random(rng.randrange(2 ** 62))
            state = mrng.getstate()
            mut = mutate(raw, mrng)
            if mut is None:
                continue
            kind, X = mut
            res.hist("mutations_by_kind", kind)
            cycle(res, X, origin.split(":")[0] + "+" + kind, dict(desc, origin=origin, mutation=kind, mutated_hex=X.hex() if len(X) < 6000 else None,
                                                                   mutation_seed=repr(state[1][:3])))
    for name, msg in monitors.take_failures():
        res.violation(f"C05:ambient:{name}", msg, {"monitor": name})
    res.count("ambient_purity_evaluations", monitors.COUNTERS.get("save_is_pure.evaluations", 0))
    if spec_["shard"] == 0 and tier == "thorough":
        from ._repo_suite import ambient_under_repo_tests
        ambient_under_repo_tests(res, PROPERTY, ["save_is_pure"])
    export_orders(res, spec_["seed"], spec_["shard"], tier)
    hidden_state_purity(res)
    threaded_saves(res, spec_["seed"], spec_["shard"], tier)


def replay(case, res):
    monitors.install(snapshot_fn=_snap)
    if case.get("mutated_hex"):
        cycle(res, bytes.fromhex(case["mutated_hex"]), "replay", case)
    elif case.get("fixture") and not case.get("mutation"):
        with open(os.path.join(env.FIXTURE_DIR, case["fixture"]), "rb") as f:
            cycle(res, f.read(), "replay", case)
    else:
        res.inconclusive.append("mutated file too large to embed; re-run the shard")


# ------------------------------------------------------------------ soak slice (rvmon.soak): long mixed histories on a pool of objects
SOAK_KINDS = ['purity']


def plan(tier, seed):
    specs = _plan_core(tier, seed)
    k = 2 if tier == "quick" else 8
    for i in range(k):
        specs.append({"tier": tier, "part": "soak", "soak_seeds": [seed * 100003 + 1000 * i + j for j in range(8 if tier == "quick" else 40)],
                      "steps": 150 if tier == "quick" else 300, "seed": seed, "shard": 1000 + i})
    return specs
