"""C17 - objects are isolated: no hidden shared state between instances or clones."""
import enum
import random
import types as pytypes

from .. import build, env, gen, iffparse, monitors, snapshot, spec, workload
from . import c06

PROPERTY = "C17"
LEVEL = "exploration"
RULE = ("cases: (a) differential - one (object A, object B, mutation of A) triple: B's snapshot and saved bytes are taken before and "
        "after a catalogued mutation of A (every controller, option, MIDI binding, common field, payload element, link, note; the C06 "
        "catalogue); B is a second fresh instance, a clone of A (checked in both directions), a second load of the same bytes, or a "
        "long-lived sentinel instance of every other type; (b) structural alias scan - the instance state of A and B is walked "
        "(__dict__, slots, containers) and any mutable object reachable from both is reported. distinct = distinct (type, B-kind, "
        "attribute); non-trivial = all")
EXHAUSTIVE_AXIS = "all 42 module types + Output, Project, Pattern, PatternClone, Synth x B-kinds {fresh, clone, clone-reverse, same-bytes}; alias scan over every pair"
ASSUMPTIONS = [
    "the alias scan stops at classes, functions, modules, enum members, immutable values, and at class-level metadata objects (Controller / Option / Range instances reachable only through the class); per-instance Controller objects (MetaModule user-defined) are walked",
    "parent / project / pattern back-references are not followed (A and B live in different projects by construction)",
]
REQUIRED_COUNTERS = ["mutations", "b_comparisons", "alias_scans", "alias_objects_visited", "sentinel_comparisons"]
WORKERS = {"quick": 4, "thorough": 16}

BACKREFS = {"parent", "project", "pattern", "module", "metamodule"}


def _plan_core(tier, seed):
    types = sorted(spec.load())
    n = 4 if tier == "quick" else 16
    return [{"tier": tier, "seed": seed, "shard": i, "types": types[i::n], "edits": 60 if tier == "quick" else 200,
             "rounds": 2 if tier == "quick" else 12} for i in range(n)]


# ------------------------------------------------------------------ alias scan
def _immutable(o):
    return o is None or isinstance(o, (int, float, str, bytes, bool, complex, enum.Enum, type, pytypes.FunctionType, pytypes.ModuleType,
                                       pytypes.BuiltinFunctionType, pytypes.MethodType, frozenset, range, property))


def walk(root, limit=200000):
    """id -> (object, path) for every mutable object reachable from root's instance state."""
    import rv.controller as rvc
    import rv.option as rvo
    seen = {}
    stack = [(root, "self", True)]
    while stack and len(seen) < limit:
        o, path, from_instance = stack.pop()
        if _immutable(o):
            continue
        if isinstance(o, tuple):
            for i, x in enumerate(o):
                stack.append((x, f"{path}[{i}]", from_instance))
            continue
        if id(o) in seen:
            continue
        seen[id(o)] = (o, path)
        if isinstance(o, (list, set)):
            for i, x in enumerate(o):
                stack.append((x, f"{path}[{i}]", True))
        elif isinstance(o, dict):
            for k, x in o.items():
                stack.append((x, f"{path}[{k!r}]", True))
                if not _immutable(k):
                    stack.append((k, f"{path}.key({k!r})", True))
        elif isinstance(o, (bytearray,)):
            pass
        else:
            d = getattr(o, "__dict__", None)
            if isinstance(d, dict):
                for k, x in d.items():
                    if k in BACKREFS:
                        continue
                    stack.append((x, f"{path}.{k}", True))
            for cls in type(o).__mro__:
                for k in getattr(cls, "__slots__", ()) or ():
                    if k in BACKREFS or k in ("__dict__", "__weakref__"):
                        continue
                    try:
                        stack.append((getattr(o, k), f"{path}.{k}", True))
                    except AttributeError:
                        pass
            if isinstance(o, (rvc.Range, rvc.DependentRange, rvo.Option)):
                # value-type metadata objects are class-level and immutable by convention: do not descend further
                continue
    return seen


def alias_scan(res, A, B, what, desc):
    import rv.controller as rvc
    import rv.option as rvo
    res.count("alias_scans")
    wa, wb = walk(A), walk(B)
    res.count("alias_objects_visited", len(wa) + len(wb))
    shared = set(wa) & set(wb)
    for i in shared:
        o, pa = wa[i]
        if isinstance(o, (rvc.Range, rvc.DependentRange, rvo.Option)):
            continue  # class-level metadata reached through a per-instance controller's value_type
        if isinstance(o, rvc.Controller) and not type(o).__name__.startswith("UserDefined"):
            continue
        pb = wb[i][1]
        res.violation(f"C17:alias:{what}:{_generic(pa)}", f"{what}: mutable {type(o).__name__} object is reachable from both instances (A: {pa}, B: {pb})", desc)
        return False
    return True


def _generic(path):
    import re
    return re.sub(r"\[\d+\]|\['[^']*'\]", "[]", path)[:80]


# ------------------------------------------------------------------ differential
def _snapshot_and_bytes(root):
    import rv.api as api
    if isinstance(root, api.Project):
        return snapshot.snap_project(root), root.read()
    if isinstance(root, api.Synth):
        # (third element: what the module says about itself besides its serialized state - its behaviours)
        return snapshot.snap_synth(root), root.read(), sorted(map(repr, getattr(root.module, "behaviors", None) or ()))
    if isinstance(root, (api.Pattern, api.PatternClone)):
        return snapshot.snap_pattern(root), b"".join(a + b for a, b in root.iff_chunks())
    raise TypeError(root)


def differential(res, rootA, rootB, kind, T, rng, n_edits, desc, sentinels=None):
    """Mutate A step by step; B (and the sentinels) must not move."""
    import rv.api as api
    if isinstance(rootA, (api.Pattern, api.PatternClone)):
        return pattern_differential(res, rootA, rootB, kind, rng, desc)
    SA = _snapshot_and_bytes(rootA)[0]
    g = gen.Gen(rng)
    edits = c06.catalogue(SA, g)
    rng.shuffle(edits)
    by_cls = {}
    for e in edits:
        by_cls.setdefault(e.cls, []).append(e)
    chosen = []
    for cls, lst in by_cls.items():
        chosen.extend(lst[:max(2, n_edits * len(lst) // max(1, len(edits)))])
    before = _snapshot_and_bytes(rootB)
    for e in chosen[:n_edits + 20]:
        res.count("mutations")
        res.case((T, kind, snapshot.field_key(e.path)))
        res.seen("mutated_attributes", f"{T}:{snapshot.field_key(e.path)}")
        try:
            e.apply(rootA)
        except Exception:
            res.count("mutations_refused")
            continue
        after = _snapshot_and_bytes(rootB)
        res.count("b_comparisons")
        if res.evaluations % 1201 == 1:
            res.sample({"type": T, "b_kind": kind, "mutation_of_A": e.path, "new_value": repr(e.value)[:80], "B_snapshot_and_bytes_unchanged": after == before})
        if after != before:
            d = snapshot.diff(before[0], after[0])
            where = snapshot.field_key(d[0][0]) if d else ("bytes" if after[1] != before[1] else "behaviors")
            res.violation(f"C17:leak:{T}:{kind}:{snapshot.field_key(e.path)}->{where}",
                          f"{T} ({kind}): mutating A at {e.path} changed B: {d[:2] if d else 'saved bytes differ'}", dict(desc, path=e.path))
            return False
    return True


def pattern_differential(res, A, B, kind, rng, desc):
    before = _snapshot_and_bytes(B)
    muts = []
    if hasattr(A, "tracks"):
        muts = [lambda: setattr(A.data[0][0], "vel", 99), lambda: setattr(A.data[A.lines - 1][A.tracks - 1], "ctl", 0x1234),
                lambda: setattr(A, "name", "changed"), lambda: setattr(A, "icon", bytes(range(32))), lambda: setattr(A, "x", 777),
                lambda: setattr(A, "fg_color", (1, 2, 3)), lambda: A.set_via_fn(lambda p, l, t: __import__("rv.api").api.Note(vel=5))]
    else:
        muts = [lambda: setattr(A, "source", 9), lambda: setattr(A, "x", -5), lambda: setattr(A, "flags_PFFF", 77)]
    for i, mu in enumerate(muts):
        res.count("mutations")
        res.case(("pattern", kind, i))
        mu()
        after = _snapshot_and_bytes(B)
        res.count("b_comparisons")
        if after != before:
            res.violation(f"C17:leak:Pattern:{kind}:{i}", f"pattern ({kind}): mutation {i} of A changed B", desc)
            return False
    return True


def make_module(seed, index, tier, T):
    c = workload.module_case(seed, index, tier, T, ctx="project")
    return c.obj


def class_level_state(cls):
    """What a module class and a fresh instance of it show besides controller / option tables (C13's subject): behaviours and
    every other public class attribute that is a set / list / dict / tuple."""
    out = {}
    for k in dir(cls):
        if k.startswith("_") or k in ("controllers", "options"):
            continue
        try:
            v = getattr(cls, k)
        except Exception:
            continue
        if isinstance(v, (set, frozenset)):
            out[k] = sorted(map(repr, v))
        elif isinstance(v, (list, tuple)):
            out[k] = [repr(x)[:60] for x in v][:50]
        elif isinstance(v, dict):
            out[k] = sorted(map(repr, v))[:50]
    try:
        inst = cls()
        out["instance.behaviors"] = sorted(map(repr, getattr(inst, "behaviors", ())))
    except Exception:
        pass
    return out


def run_type(res, T, spec_, rng, sentinels):
    import rv.api as api
    from rv.modules import MODULE_CLASSES
    seed, tier = spec_["seed"], spec_["tier"]
    t = spec.load()[T]
    cls = MODULE_CLASSES[t.mtype]
    desc = {"type": T}
    class_before = class_level_state(cls)
    witness = None
    if T != "Output":
        witness = cls()
        witness_before = sorted(map(repr, getattr(witness, "behaviors", ())))
    if T == "Output":
        pa, pb = api.Project(), api.Project()
        alias_scan(res, pa.output, pb.output, "Output:fresh", desc)
        return
    for rnd in range(spec_["rounds"]):
        idx = 400000 + rnd * 1000 + sorted(spec.load()).index(T)
        # --- fresh vs fresh
        A, B = cls(), cls()
        alias_scan(res, A, B, f"{T}:fresh", desc)
        differential(res, api.Synth(A), api.Synth(B), "fresh", T, rng, spec_["edits"], desc)
        # --- generated A, clone B, both directions
        A = make_module(seed, idx, tier, T)
        B = A.clone()
        alias_scan(res, A, B, f"{T}:clone", desc)
        differential(res, api.Synth(A), api.Synth(B), "clone", T, rng, spec_["edits"], desc)
        A2 = make_module(seed, idx + 500, tier, T)
        B2 = A2.clone()
        differential(res, api.Synth(B2), api.Synth(A2), "clone-reverse", T, rng, spec_["edits"], desc)
        # --- two loads of the same bytes
        raw = api.Synth(make_module(seed, idx + 700, tier, T)).read()
        L1, L2 = workload.load(raw), workload.load(raw)
        alias_scan(res, L1.module, L2.module, f"{T}:same-bytes", desc)
        differential(res, L1, L2, "same-bytes", T, rng, spec_["edits"], desc)
        # --- files that spell out what this library leaves implicit: a Sampler envelope stored with ZERO points, a MultiSynth whose
        #     note-pitch table is stored although it holds the stock tuning.  Two loads of such bytes are two objects, and a
        #     module constructed later starts from the stock values
        special = None
        if T == "Sampler":
            s0 = cls()
            for env_ in (s0.volume_envelope, s0.panning_envelope, s0.pitch_envelope):
                env_.points = []
            special = api.Synth(s0).read()
        elif T == "MultiSynth":
            ms0 = cls()
            chunks_ = [(c_[0], c_[1]) for c_ in iffparse.parse(api.Synth(ms0).read())]
            if not any(c_[0] == b"CHNM" and c_[1] == (3).to_bytes(4, "little") for c_ in chunks_):
                at = max(k_ for k_, c_ in enumerate(chunks_) if c_[0] in (b"CHDT", b"CHFF", b"CHFR")) + 1
                chunks_[at:at] = [(b"CHNM", (3).to_bytes(4, "little")), (b"CHDT", bytes(ms0.np_curve.bytes))]
            special = iffparse.build(chunks_)
        if special is not None and rnd == 0:
            try:
                X1, X2 = workload.load(special), workload.load(special)
                fresh_before = _snapshot_and_bytes(api.Synth(cls()))
                res.count("explicit_default_files")
                alias_scan(res, X1.module, X2.module, f"{T}:explicit-defaults", desc)
                before_x2 = _snapshot_and_bytes(X2)
                if T == "Sampler":
                    X1.module.volume_envelope.points.append((5, 77))
                    X1.module.pitch_envelope.points.extend([(1, 2), (3, 4)])
                else:
                    X1.module.np_curve.values[60] = 12345
                    X1.module.np_curve.values[0] = 1
                if _snapshot_and_bytes(X2) != before_x2:
                    res.violation(f"C17:leak:{T}:explicit-defaults:second-load", f"{T} file that spells out defaults, loaded twice: editing the first load's lists in place changed the second", desc)
                elif _snapshot_and_bytes(api.Synth(cls())) != fresh_before:
                    res.violation(f"C17:leak:{T}:explicit-defaults:fresh-instance", f"{T} file that spells out defaults: editing the loaded lists in place changed what a NEW {T} starts with", desc)
                elif _snapshot_and_bytes(workload.load(special))[0] != before_x2[0]:
                    res.violation(f"C17:leak:{T}:explicit-defaults:third-load", f"{T}: the same bytes load differently after an earlier load's lists were edited in place", desc)
            except Exception as e:
                res.count("explicit_default_files_unusable")
                res.hist("explicit_default_files_unusable_why", f"{T}:{type(e).__name__}")
        # --- generated vs fresh instance of the same type (class-level defaults)
        A3 = make_module(seed, idx + 900, tier, T)
        B3 = cls()
        alias_scan(res, A3, B3, f"{T}:generated-vs-fresh", desc)
        differential(res, api.Synth(A3), api.Synth(B3), "generated-vs-fresh", T, rng, spec_["edits"] // 2, desc)
        # --- B is a pickle round trip of A (how applications pass objects to worker processes / keep undo states)
        import pickle
        try:
            A6 = make_module(seed, idx + 1300, tier, T)
            B6 = pickle.loads(pickle.dumps(A6, rnd % (pickle.HIGHEST_PROTOCOL + 1)))
            res.count("pickled_copies")
        except Exception as e:
            res.count("pickle_unusable")
            res.hist("pickle_unusable_why", f"{T}:{type(e).__name__}")
        else:
            alias_scan(res, A6, B6, f"{T}:pickle", desc)
            if rnd % 2:
                differential(res, api.Synth(A6), api.Synth(B6), "pickle", T, rng, spec_["edits"] // 2, desc)
            else:
                differential(res, api.Synth(B6), api.Synth(A6), "pickle-reverse", T, rng, spec_["edits"] // 2, desc)
        # --- copy.deepcopy of a module that is wired into a project (a MultiCtl drives its neighbours; a module inside a
        #     constructed MetaModule is exposed through it): the copy is edited, the project it was copied out of stays as it is;
        #     then the other way round
        import copy
        try:
            A4 = make_module(seed, idx + 1100, tier, T) if rnd % 2 else cls()
            holder = api.Project()
            host = api.m.MetaModule(project=holder) if rnd % 2 == 0 else None
            holder.attach_module(A4)
            amp = holder.new_module(api.m.Amplifier)
            if T == "MultiCtl":
                A4.mappings.values[0] = A4.Mapping((0, 32768, 1, 0, 0, 0, 0, 0))
            holder.connect(A4, amp)
            holder.connect(amp, holder.output)
            if host is not None:
                host.user_defined_controllers = 2
                host.mappings.values[0] = host.Mapping((A4.index, 0))
                host.mappings.values[1] = host.Mapping((amp.index, 0))
                host.update_user_defined_controllers()
            whole = api.Synth(host) if host is not None else holder
            C4 = copy.deepcopy(A4)
            res.count("deep_copies_of_wired_modules")
        except Exception as e:
            res.count("deep_copy_unusable")
            res.hist("deep_copy_unusable_why", f"{T}:{type(e).__name__}")
        else:
            if C4.parent is holder and C4 not in holder.modules:
                res.count("observation_deep_copy_keeps_original_parent")
            differential(res, api.Synth(C4), whole, "deepcopy-of-wired", T, rng, spec_["edits"], desc)
            C5 = copy.deepcopy(A4)
            differential(res, api.Synth(A4), api.Synth(C5), "deepcopy-of-wired-reverse", T, rng, spec_["edits"] // 2, desc)
    # files with out-of-range values of this type are loaded (leniently, by design); a bystander made BEFORE and one made AFTER
    # still refuse those values
    if witness is not None:
        from rv.errors import ControllerValueError as _CVE
        ranged = [sc for sc in t.controllers if sc.kind in ("range", "compact") and sc.attached]
        if ranged:
            sc = ranged[len(T) % len(ranged)]
            try:
                chunks_ = [(c_[0], c_[1]) for c_ in iffparse.parse(api.Synth(cls()).read())]
                cv = [k for k, c_ in enumerate(chunks_) if c_[0] == b"CVAL"]
                pos = [c_.name for c_ in t.controllers if c_.attached].index(sc.name)
                big = sc.max + 2000
                chunks_[cv[pos]] = (b"CVAL", __import__("struct").pack("<i", big - sc.min if sc.min < 0 else big))
                workload.load(iffparse.build(chunks_))
                res.count("out_of_range_files_loaded_next_to_bystanders")
                for who, inst in (("made before", witness), ("made after", cls())):
                    for probe in (big, sc.max + 1):
                        try:
                            setattr(inst, sc.name, probe)
                        except _CVE:
                            continue
                        except Exception:
                            continue
                        res.violation(f"C17:leak:{T}:class-level:range-widened", f"after a file holding {T}.{sc.name} = {big} was loaded, a bystander {T} ({who}) accepts {sc.name} = {probe} "
                                                                               f"(range {sc.min}..{sc.max})", desc)
                        break
            except Exception:
                res.count("out_of_range_bystander_probe_unusable")
    # what the CLASS shows (and a bystander instance made before all this) is as it was
    res.count("class_level_comparisons")
    class_after = class_level_state(cls)
    if class_after != class_before:
        k = next(k for k in set(class_before) | set(class_after) if class_before.get(k) != class_after.get(k))
        res.violation(f"C17:leak:{T}:class-level:{k}", f"after constructing, loading and mutating {T} instances the class shows {k} = {class_after.get(k)}, before {class_before.get(k)}", desc)
    elif witness is not None and sorted(map(repr, getattr(witness, "behaviors", ()))) != witness_before:
        res.violation(f"C17:leak:{T}:class-level:behaviors", f"a bystander {T} instance shows other behaviours after other instances were mutated", desc)
    # sentinels of every type must not have moved
    for name, (obj, before) in sentinels.items():
        res.count("sentinel_comparisons")
        after = _snapshot_and_bytes(obj)
        if after != before:
            d = snapshot.diff(before[0], after[0])
            res.violation(f"C17:sentinel:{T}->{name}", f"after mutating {T} instances the long-lived {name} instance changed: {d[:2]}", desc)
            sentinels[name] = (obj, after)


def run_containers(res, spec_, rng):
    """Project / Pattern / PatternClone / Synth pairs."""
    import rv.api as api
    seed, tier = spec_["seed"], spec_["tier"]
    desc = {"type": "Project"}
    pa, pb = api.Project(), api.Project()
    alias_scan(res, pa, pb, "Project:fresh", desc)
    differential(res, pa, pb, "fresh", "Project", rng, spec_["edits"], desc)
    for k in range(2 * spec_["rounds"]):
        c = workload.project_case(seed, 450000 + k, tier, max_modules=5)
        A = c.obj
        B = A.clone()
        alias_scan(res, A, B, "Project:clone", desc)
        differential(res, A, B, "clone", "Project", rng, spec_["edits"], desc)
        # links: connect/disconnect in A
        live = [m for m in A.modules if m is not None]
        before = _snapshot_and_bytes(B)
        for _ in range(6):
            f, t = rng.choice(live), rng.choice(live)
            A.connect(f, t if rng.random() < 0.7 else ~t)
            res.count("mutations")
        res.count("b_comparisons")
        if _snapshot_and_bytes(B) != before:
            res.violation("C17:leak:Project:clone:links", "connecting modules in A changed the clone B", desc)
        # a request that mixes modules of A and of its clone (a disconnect, between positions that ARE linked in both): refused,
        # and neither project changes
        from rv.errors import ModuleOwnershipError as _MOE
        live_idx = [m.index for m in A.modules if m is not None and m.index < len(B.modules) and B.modules[m.index] is not None]
        if len(live_idx) >= 2:
            f, t = rng.sample(live_idx, 2)
            A.connect(A.modules[f], A.modules[t])
            B.connect(B.modules[f], B.modules[t])
        edges_a = [(f_, t_) for f_, t_ in monitors.edge_multiset(A) if (f_, t_) in set(monitors.edge_multiset(B))]
        if edges_a:
            f, t = rng.choice(edges_a)
            before_pair = (_snapshot_and_bytes(A), _snapshot_and_bytes(B))
            res.count("cross_clone_requests")
            for attempt in (lambda: B.modules[t].__lshift__(~A.modules[f]), lambda: A.connect(A.modules[f], ~B.modules[t]), lambda: B.modules[f].__rshift__(~A.modules[t])):
                try:
                    attempt()
                    res.violation("C17:leak:Project:clone:cross-project-request-accepted", f"a disconnect naming module {f} of a project and module {t} of its clone was carried out", desc)
                    break
                except _MOE:
                    pass
                except Exception as e:
                    res.violation(f"C17:leak:Project:clone:cross-project-request:{type(e).__name__}", f"a disconnect across a project and its clone raised {e!r}", desc)
                    break
            if (_snapshot_and_bytes(A), _snapshot_and_bytes(B)) != before_pair:
                res.violation("C17:leak:Project:clone:cross-project-request-changed-state", "a refused request across a project and its clone changed one of them", desc)
        raw = A.read()
        L1, L2 = workload.load(raw), workload.load(raw)
        alias_scan(res, L1, L2, "Project:same-bytes", desc)
        differential(res, L2, L1, "same-bytes", "Project", rng, spec_["edits"], desc)
    # patterns re-created field by field from another one (attr.evolve and the like: "the same pattern, a bit different"),
    # deep-copied and pickled ones, in another project: the two are independent
    import copy
    import pickle
    for how in ("evolve", "evolve-then-image", "deepcopy", "pickle"):
        for attached in (False, True):
            A_ = api.Pattern(tracks=3, lines=4, name="verse")
            if attached:
                api.Project().attach_pattern(A_)
            for ln in range(4):
                A_.data[ln][ln % 3].vel = 10 + ln
            try:
                if how.startswith("evolve"):
                    kw = {}
                    for f_ in type(A_).__attrs_attrs__:
                        if f_.init:
                            kw[getattr(f_, "alias", None) or f_.name.lstrip("_")] = getattr(A_, f_.name)
                    kw["project"] = None
                    B_ = type(A_)(**kw)
                    if how == "evolve-then-image":
                        B_.raw_data = A_.raw_data
                else:
                    B_ = copy.deepcopy(A_) if how == "deepcopy" else pickle.loads(pickle.dumps(A_))
            except Exception as e:
                res.count("pattern_copy_unusable")
                res.hist("pattern_copy_unusable_why", f"{how}:{type(e).__name__}")
                continue
            res.count("pattern_copies")
            alias_scan(res, A_, B_, f"Pattern:{how}", {"type": "Pattern", "copy": how})
            pattern_differential(res, A_, B_, how, rng, {"type": "Pattern", "copy": how, "attached": attached})
            pattern_differential(res, B_, A_, how + "-reverse", rng, {"type": "Pattern", "copy": how, "attached": attached})
    # a song with several patterns holding the SAME notes (a chorus entered twice), and modules holding the same curves, loaded
    # from a file / cloned: each pattern, each module has its own copy
    twin_p = api.Project()
    for k in range(3):
        q = api.Pattern(tracks=2, lines=4, name=f"chorus {k}")
        for ln in range(4):
            q.data[ln][ln % 2].note, q.data[ln][ln % 2].vel, q.data[ln][ln % 2].module = api.NOTECMD(13 + ln), 100, 2
        twin_p.attach_pattern(q)
    for k in range(2):
        ws = twin_p.new_module(api.m.WaveShaper)
        ws.curve.values = [(i * 37) % 65536 for i in range(256)]
    for how in ("loaded", "cloned"):
        L = workload.load(twin_p.read()) if how == "loaded" else twin_p.clone()
        res.count("twin_content_projects")
        alias_scan(res, L.patterns[0], L.patterns[1], f"Pattern:twins:{how}", {"type": "Pattern", "how": how})
        alias_scan(res, L.modules[1], L.modules[2], f"WaveShaper:twins:{how}", {"type": "WaveShaper", "how": how})
        before_tw = (L.patterns[1].raw_data, L.patterns[2].raw_data, list(L.modules[2].curve.values))
        L.patterns[0].data[0][0].vel = 7
        L.patterns[0].data[1][1].note = api.NOTECMD(60)
        L.modules[1].curve.values[5] = 1
        if (L.patterns[1].raw_data, L.patterns[2].raw_data, list(L.modules[2].curve.values)) != before_tw:
            res.violation(f"C17:leak:twins:{how}", f"a {how} project with patterns / modules of identical content: editing the first one changed another one", {"how": how})
    # a MultiCtl whose routing is taken over from another one (`mappings=` given the other's table, its Mapping objects or plain
    # tuples): if the library accepts that, the two are independent afterwards
    from rv.modules.multictl import MultiCtl as _MC
    for how in ("mapping-objects", "table-values", "tuples"):
        src_p = api.Project()
        amp_ = src_p.new_module(api.m.Amplifier)
        src_mc = src_p.new_module(_MC, mappings=[(100, 20000, 1, 0, 0, 0, 0, 0), (0, 32768, 2, 0, 0, 0, 0, 0)])
        src_mc >> amp_
        try:
            if how == "mapping-objects":
                arg = list(src_mc.mappings.values[:2])
            elif how == "table-values":
                arg = src_mc.mappings.values
            else:
                arg = [(x.min, x.max, x.controller, 0, 0, 0, 0, 0) for x in src_mc.mappings.values[:2]]
            dst_p = api.Project()
            dst_mc = dst_p.new_module(_MC, mappings=arg)
        except Exception:
            res.count("multictl_routing_copy_refused")
            continue
        res.count("multictl_routing_copies")
        before_src = _snapshot_and_bytes(src_p)
        dst_mc.mappings.values[0].min = 7
        dst_mc.mappings.values[1].controller = 5
        if _snapshot_and_bytes(src_p) != before_src:
            res.violation(f"C17:leak:MultiCtl:routing-copy:{how}", f"a MultiCtl constructed from another one's routing ({how}): editing its mappings changed the other one's project", {"how": how})
            continue
        before_dst = _snapshot_and_bytes(dst_p)
        src_mc.mappings.values[0].max = 9
        if _snapshot_and_bytes(dst_p) != before_dst:
            res.violation(f"C17:leak:MultiCtl:routing-copy-reverse:{how}", f"a MultiCtl constructed from another one's routing ({how}): editing the ORIGINAL's mappings changed the copy's project", {"how": how})
    # a module that belongs to one project is offered to another one through every public spelling of "attach", also with the
    # loader's own keyword: refused, both projects as before
    from rv.errors import ModuleOwnershipError as _MOE2
    for spelling in ("attach", "attach-loading", "iadd", "new_module-parent"):
        P1, P2 = api.Project(), api.Project()
        owned = P1.new_module(api.m.Amplifier, name="owned")
        owned >> P1.output
        P2.new_module(api.m.Filter)
        before_pair = (_snapshot_and_bytes(P1), _snapshot_and_bytes(P2))
        res.count("foreign_attach_spellings")
        try:
            if spelling == "attach":
                P2.attach_module(owned)
            elif spelling == "attach-loading":
                P2.attach_module(owned, loading=True)
            elif spelling == "iadd":
                P2 += owned
            else:
                P2.new_module(lambda **kw: owned)
            accepted = owned in P2.modules
        except _MOE2:
            accepted = False
        except Exception:
            accepted = owned in P2.modules
        if accepted:
            res.violation(f"C17:leak:Project:shared-module:{spelling}", f"a module owned by one project was taken into another one ({spelling}): it now lives in both", {"spelling": spelling})
            continue
        if (_snapshot_and_bytes(P1), _snapshot_and_bytes(P2)) != before_pair:
            res.violation(f"C17:leak:Project:refused-attach-changed-state:{spelling}", f"a refused attach ({spelling}) changed one of the two projects", {"spelling": spelling})
    qa, qb = api.Pattern(tracks=3, lines=4), api.Pattern(tracks=3, lines=4)
    qa.data, qb.data
    alias_scan(res, qa, qb, "Pattern:fresh", {"type": "Pattern"})
    differential(res, qa, qb, "fresh", "Pattern", rng, 0, {"type": "Pattern"})
    ca, cb = api.PatternClone(source=0), api.PatternClone(source=0)
    alias_scan(res, ca, cb, "PatternClone:fresh", {"type": "PatternClone"})
    differential(res, ca, cb, "fresh", "PatternClone", rng, 0, {"type": "PatternClone"})
    # drawn waveforms of unusual length (a file may carry any number of points): the loaded list belongs to the loaded module
    for cls_ in (api.m.Generator, api.m.AnalogGenerator):
        for npts in (0, 16, 31, 33, 64):
            try:
                pts = [(i * 5) % 100 - 50 for i in range(npts)]
                raw_w = api.Synth(cls_(samples=list(pts))).read()
                fresh_before = list(cls_().drawn_waveform.samples)
                first = workload.load(raw_w).module
                got_first = list(first.drawn_waveform.samples)
                for i in range(len(first.drawn_waveform.samples)):
                    first.drawn_waveform.samples[i] = 77
                first.drawn_waveform.samples.append(5)
                second = list(workload.load(raw_w).module.drawn_waveform.samples)
                fresh_after = list(cls_().drawn_waveform.samples)
            except Exception:
                res.count("odd_waveform_length_unsupported")
                continue
            res.count("odd_waveform_length_cases")
            res.case(("odd-waveform", cls_.__name__, npts))
            if second != got_first or fresh_after != fresh_before:
                res.violation(f"C17:leak:{cls_.__name__}:same-bytes:drawn_waveform", f"a {npts}-point drawn waveform was loaded and edited in place; a second load of the same bytes gives {second[:6]}... "
                                                                                    f"(first gave {got_first[:6]}...), a fresh {cls_.__name__}() has {fresh_after[:4]}... (before: {fresh_before[:4]}...)",
                              {"type": cls_.__name__, "points": npts})
    # a NOTE cloned out of project A and put into a pattern of project B (plain cell assignment): the clone is B's business
    for k in range(6):
        A, B = api.Project(), api.Project()
        am = A.new_module(api.m.Amplifier, name="A's amp")
        B.new_module(api.m.Filter, name="B's filter")
        qa2, qb2 = api.Pattern(tracks=2, lines=2), api.Pattern(tracks=2, lines=2)
        A.attach_pattern(qa2)
        B.attach_pattern(qb2)
        src = qa2.data[k % 2][0]
        src.note, src.vel, src.module = api.NOTECMD.C5, 100, 2
        cl = src.clone()
        qb2.data[1][k % 2] = cl
        res.count("note_clone_transplants")
        res.case(("note-clone-transplant", k))
        owner = getattr(cl, "pattern", None)
        try:
            proj_seen = cl.project
        except Exception:
            proj_seen = None
        try:
            mod_seen = cl.mod
        except Exception:
            mod_seen = None
        if owner is qa2 or proj_seen is A or mod_seen is am:
            res.violation("C17:alias:Note:clone-keeps-original-owner", f"a clone of a note of project A, placed into a pattern of project B, still belongs to A "
                                                                       f"(pattern is A's: {owner is qa2}, project is A: {proj_seen is A}, .mod is A's module: {mod_seen is am})", {"type": "Note"})
            continue
        before = (snapshot.snap_project(B), B.read())
        src.vel, src.module = 1, 1
        am.name = "renamed"
        qa2.set_via_fn(lambda p_, l_, t_: api.Note(vel=7))
        if (snapshot.snap_project(B), B.read()) != before:
            res.violation("C17:leak:Note:clone", "editing project A changed project B, which holds a clone of one of A's notes", {"type": "Note"})
    # the same bytes loaded twice with OTHER loads in between, for files that lack optional per-module chunks (name, colour ...):
    # what the second load gives does not depend on what was read in between
    import struct as _struct
    from .. import iffparse
    base = api.Synth(api.m.Reverb(name="Big hall", color=(1, 2, 3))).read()
    other = api.Project()
    other.new_module(api.m.Amplifier, name="somebody else", color=(9, 9, 9), finetune=-3, x=77, y=-5)
    other_raw = other.read()
    for drop in (b"SNAM", b"SCOL", b"SFIN", b"SREL", b"SMII", b"SMIC", b"SMIB", b"SMIP"):
        chunks = [(c[0], c[1]) for c in iffparse.parse(base)]
        if not any(c[0] == drop for c in chunks):
            continue
        lacking = iffparse.build([c for c in chunks if c[0] != drop])
        res.count("same_bytes_with_loads_in_between")
        res.case(("same-bytes-between", drop))
        try:
            first = snapshot.snap_synth(workload.load(lacking))
            workload.load(other_raw)
            workload.load(base)
            second = snapshot.snap_synth(workload.load(lacking))
        except Exception:
            res.count("lacking_chunk_unloadable")
            continue
        if first != second:
            d = snapshot.diff(first, second)
            res.violation(f"C17:leak:load-to-load:{drop.decode()}", f"a file without {drop.decode()} loads as {d[0][1]!r} first and as {d[0][2]!r} after other files were read in between ({d[0][0]})", {"type": "Synth", "dropped": drop.decode()})
    # a refused attach (pattern / clone / module owned by A offered to B) must not leave B holding A's object
    from rv.errors import ModuleOwnershipError, PatternOwnershipError
    for what in ("pattern", "clone", "module"):
        A, B = api.Project(), api.Project()
        B.attach_pattern(api.Pattern(tracks=1, lines=1))
        if what == "pattern":
            obj = api.Pattern(tracks=2, lines=2)
            A.attach_pattern(obj)
        elif what == "clone":
            A.attach_pattern(api.Pattern(tracks=2, lines=2))
            obj = api.PatternClone(source=0)
            A.attach_pattern(obj)
        else:
            obj = A.new_module(api.m.Amplifier)
        before = _snapshot_and_bytes(B)
        for attempt in ("method", "iadd"):
            try:
                if what == "module":
                    B.attach_module(obj) if attempt == "method" else B.__iadd__(obj)
                else:
                    B.attach_pattern(obj) if attempt == "method" else B.__iadd__(obj)
            except (ModuleOwnershipError, PatternOwnershipError):
                pass
        res.count("mutations")
        res.case(("refused-attach", what))
        # now mutate A's object; B must not notice
        if what == "pattern":
            obj.data[0][0].vel = 77
            obj.name = "changed"
        elif what == "clone":
            obj.x = 4242
        else:
            obj.volume = 999
            obj.name = "changed"
        res.count("b_comparisons")
        if _snapshot_and_bytes(B) != before:
            res.violation(f"C17:leak:Project:refused-attach:{what}", f"after project B refused a {what} owned by project A, changing it in A changed B", {"type": "Project", "what": what})
    # legacy sampler instruments (no signature) loaded side by side with each other and with a current one
    from . import c16
    chunks = c16.fixture_chunks()
    lrng = random.Random(5)
    legacy = []
    while len(legacy) < 2:
        kind, raw, _exp = c16.make_variant(chunks, lrng)
        if kind == "signature-wiped":
            legacy.append(raw)
    L1 = workload.load(legacy[0])
    before = _snapshot_and_bytes(L1)
    L2 = workload.load(legacy[1])
    M = workload.load(api.Synth(api.m.Sampler()).read())
    res.count("mutations")
    res.count("b_comparisons")
    res.case(("legacy-samplers-side-by-side",))
    if _snapshot_and_bytes(L1) != before:
        res.violation("C17:leak:Sampler:legacy-side-by-side", "loading a second sampler changed the snapshot / saved bytes of a previously loaded legacy sampler", {"type": "Sampler"})
    alias_scan(res, L1.module, L2.module, "Sampler:legacy-pair", {"type": "Sampler"})
    alias_scan(res, L1.module, M.module, "Sampler:legacy-vs-current", {"type": "Sampler"})
    sa, sb = api.Synth(api.m.Amplifier()), api.Synth(api.m.Amplifier())
    alias_scan(res, sa, sb, "Synth:fresh", {"type": "Synth"})


def run_shard(spec_, res):
    if spec_.get("part") == "soak":
        from .. import soak
        for s_ in spec_["soak_seeds"]:
            soak.run(res, s_, spec_["tier"], PROPERTY, SOAK_KINDS, spec_["steps"])
        return
    import rv.api as api
    from rv.modules import MODULE_CLASSES
    monitors.install()
    rng = random.Random(env.shard_seed(spec_["shard"]))
    # two MetaModules carrying the same labels on different slots, addressed alternately through `u_<label>`
    from .. import aliasprobe
    aliasprobe.run(res, PROPERTY, random.Random(env.shard_seed(spec_["shard"]) + 5), 25 if spec_["tier"] == "quick" else 250, pairs=True)
    # long-lived sentinels: one instance of every type + a project + a pattern
    sentinels = {}
    sp = spec.load()
    for T, t in sorted(sp.items()):
        if T == "Output":
            continue
        syn = api.Synth(MODULE_CLASSES[t.mtype]())
        sentinels[T] = (syn, _snapshot_and_bytes(syn))
    proj = api.Project()
    proj.new_module(api.m.Amplifier) >> proj.output
    proj.attach_pattern(api.Pattern(tracks=2, lines=2))
    sentinels["Project"] = (proj, _snapshot_and_bytes(proj))
    for T in spec_["types"]:
        run_type(res, T, spec_, rng, sentinels)
        res.count("types_done")
        res.seen("types", T)
    embedded_project_clones(res, rng, spec_["types"], 12 if spec_["tier"] == "quick" else 120)
    if spec_["shard"] == 0:
        run_containers(res, spec_, rng)
    if spec_["shard"] == 1:
        failed_nested_loads(res, rng, 150 if spec_["tier"] == "quick" else 1500)
    for name, msg in monitors.take_failures():
        res.violation(f"C17:ambient:{name}", msg, {"monitor": name})
    res.exhaustive = True


def failed_nested_loads(res, rng, n_failures):
    """Loads that FAIL somewhere inside a nested container (the project of a MetaModule, a Sampler's effect, several levels
    down) leave nothing behind: afterwards valid nested files load as they did before, and objects loaded earlier clone as
    they did before."""
    import struct
    import rv.api as api
    from .. import iffparse

    def nest(depth, leaf):
        obj = leaf
        for d in range(depth):
            if d % 3 == 2:
                smp = api.m.Sampler()
                smp.effect = api.Synth(obj)
                obj = smp
            else:
                q = api.Project()
                q.attach_module(obj)
                obj = api.m.MetaModule(project=q)
        return obj

    def poison(raw, how):
        """Break the innermost container of the file (the outer levels stay well-formed)."""
        chunks = [(c[0], c[1]) for c in iffparse.parse(raw)]
        for k, (cid, pl) in enumerate(chunks):
            if cid == b"CHDT" and pl[:4] in (b"SVOX", b"SSYN"):
                inner = poison(pl, how)
                if inner is not None:
                    chunks[k] = (cid, inner)
                    return iffparse.build(chunks)
        # innermost level: no nested container below
        for k, (cid, pl) in enumerate(chunks):
            if cid == b"STYP" and pl.rstrip(b"\0") != b"Output":
                if how == "unknown-type":
                    chunks[k] = (cid, b"No such module\0")
                elif how == "short-cval":
                    chunks.insert(k + 1, (b"CVAL", b"\x01"))
                else:
                    chunks.insert(k + 1, (b"SFIN", b""))
                return iffparse.build(chunks)
        return None

    good_objs = [nest(d, api.m.Amplifier(volume=300 + d)) for d in (1, 2, 3, 5)]
    good = [api.Synth(o).read() for o in good_objs]
    try:
        baseline = [snapshot.snap_synth(workload.load(g)) for g in good]
        loaded_before = [workload.load(g) for g in good]
    except Exception as e:
        res.violation(f"C17:nested-load-raises:{workload.exc_key(e)}", f"valid nested file does not load: {e!r}", {"family": "failed-nested-loads"})
        return
    failures = 0
    attempts = 0
    while failures < n_failures and attempts < n_failures * 3:
        attempts += 1
        g = good[attempts % len(good)]
        bad = poison(g, ("unknown-type", "short-cval", "short-sfin")[attempts % 3])
        if bad is None:
            continue
        try:
            workload.load(bad)
            res.count("poisoned_nested_files_that_loaded")
        except Exception:
            failures += 1
    res.count("failed_nested_loads", failures)
    case = {"family": "failed-nested-loads", "failures": failures}
    res.case(("failed-nested-loads", failures))
    for k, g in enumerate(good):
        res.count("b_comparisons")
        try:
            now = snapshot.snap_synth(workload.load(g))
            cl = loaded_before[k].module.clone()
        except Exception as e:
            res.violation(f"C17:after-failed-loads:{type(e).__name__}", f"after {failures} loads that failed inside nested containers, a valid nested file / a clone of an object loaded earlier "
                                                                         f"raises {e!r}", case)
            return
        if now != baseline[k]:
            d = snapshot.diff(baseline[k], now)
            res.violation(f"C17:after-failed-loads:{snapshot.field_key(d[0][0]) if d else '?'}", f"after {failures} failed nested loads the same valid file loads differently: {d[:2]}", case)
            return
        if snapshot.snap_module(cl, "synth") != snapshot.snap_module(loaded_before[k].module, "synth"):
            res.violation("C17:after-failed-loads:clone", f"after {failures} failed nested loads a clone of an earlier loaded object differs from it", case)
            return


def embedded_project_clones(res, rng, types, n):
    """A project that sits inside a constructed MetaModule (every controller of its module exposed as a user-defined
    controller) is cloned; the clone and the original - project AND MetaModule - are edited in turn."""
    import rv.api as api
    from rv.modules import MODULE_CLASSES
    sp = spec.load()

    def state(inner, mm):
        return (snapshot.snap_project(inner), inner.read(), snapshot.snap_module(mm, "synth"), api.Synth(mm).read())

    def scribble(mod, t):
        for sc in t.controllers:
            if sc.kind in ("range", "compact", "no_offset") and sc.attached:
                try:
                    setattr(mod, sc.name, rng.randint(sc.min, sc.max))
                except Exception:
                    pass
            elif sc.kind == "bool":
                setattr(mod, sc.name, not getattr(mod, sc.name))
    for k in range(n):
        T = rng.choice([x for x in types if x not in ("Output", "MetaModule")] or ["Amplifier"])
        t = sp[T]
        desc = {"scenario": "embedded-project-clone", "type": T}
        res.case(("embedded-project-clone", T, k))
        inner = api.Project()
        mod = inner.new_module(MODULE_CLASSES[t.mtype])
        mod >> inner.output
        mm = api.m.MetaModule(project=inner)
        cnt = min(96, len(t.controllers))
        mm.user_defined_controllers = cnt
        for i in range(cnt):
            mm.mappings.values[i] = mm.Mapping((mod.index, i))
        mm.update_user_defined_controllers()
        try:
            copy = inner.clone()
        except Exception as e:
            res.violation(f"C17:clone-raises:Project:{workload.exc_key(e)}", f"cloning a project embedded in a MetaModule raised {e!r}", desc)
            continue
        res.count("embedded_project_clone_pairs")
        before = state(inner, mm)
        try:
            scribble(copy.modules[mod.index], t)
            copy.name = "edited copy"
            copy.initial_bpm = 77
        except Exception as e:
            res.violation(f"C17:leak:Project:embedded-clone:edit-raises:{type(e).__name__}", f"editing the clone of an embedded project raised {e!r}", desc)
            continue
        after = state(inner, mm)
        if after != before:
            where = ["project snapshot", "project bytes", "MetaModule snapshot", "MetaModule bytes"]
            bad = [w for w, x, y in zip(where, before, after) if x != y]
            res.violation("C17:leak:Project:embedded-clone:original-moved", f"editing every controller of the CLONE of a project embedded in a MetaModule ({T} exposed) changed the original: {bad}", desc)
            continue
        cb = (snapshot.snap_project(copy), copy.read())
        # (controller edits of the ORIGINAL embedded module travel up into the constructed MetaModule along the mappings;
        # that route is outside the statements, DESIGN decision 12 - the original is edited through everything else)
        mod.name, mod.x, mod.y, mod.finetune = "edited", mod.x + 8, mod.y - 8, 17
        inner.name = "edited original"
        inner.initial_tpl = 9
        if (snapshot.snap_project(copy), copy.read()) != cb:
            res.violation("C17:leak:Project:embedded-clone:clone-moved", f"editing the original embedded project ({T}) changed its clone", desc)


def finalize(merged, tier):
    if len(merged["sets"].get("types", ())) != 43:
        merged["inconclusive"].append(f"only {len(merged['sets'].get('types', ()))} of 43 types were exercised")


def replay(case, res):
    res.inconclusive.append("replay by re-running the shard; type, B-kind and attribute path are in the replay file")


# ------------------------------------------------------------------ soak slice (rvmon.soak): long mixed histories on a pool of objects
SOAK_KINDS = ['isolation']


def plan(tier, seed):
    specs = _plan_core(tier, seed)
    k = 2 if tier == "quick" else 8
    for i in range(k):
        specs.append({"tier": tier, "part": "soak", "soak_seeds": [seed * 100003 + 1000 * i + j for j in range(8 if tier == "quick" else 40)],
                      "steps": 150 if tier == "quick" else 300, "seed": seed, "shard": 1000 + i})
    return specs
