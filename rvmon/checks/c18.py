"""C18 - loading restores global strictness and releases files on every exit path (fault enumeration)."""
import gc
import os
import random
import shutil
import struct
import tempfile
import warnings
from io import BytesIO
from pathlib import Path

from .. import env, faults, iffparse, monitors

PROPERTY = "C18"
LEVEL = "fault_enumeration"
RULE = ("one case = one load call on a fixture or generated nested file with one injected fault: InjectedIOError at I/O call index k "
        "(every k), a source-free line failpoint inside rv code (first and last occurrence of every distinct source line the clean load "
        "reaches + sampled event indices), truncation at every chunk boundary and at random offsets, a byte corruption that makes a "
        "handler raise, a non-existent path, a failing open(); each with the strictness flag initially True and False, from BytesIO, "
        "str path and Path.  Monitors on every bound reference of read_sunvox_file judge outer and nested calls on return and on raise. "
        "distinct = distinct (file, source kind, fault kind, fault point, initial flag); non-trivial = all")
EXHAUSTIVE_AXIS = "per file: every read/seek/tell call index; every chunk boundary; every distinct rv source line reached by the clean load (first + last occurrence)"
ASSUMPTIONS = [
    "line failpoints model 'the statement on this line raises'; inside the two mechanism functions (override_raise_controller_value_errors, read_sunvox_file) only statements within a try body are failpoints - the rest is the mechanism's own bookkeeping (plain assignments, the finally bodies) whose failure would be a failing cleanup, not a failing load; every line of every other rv function is a failpoint",
    "'file the library opened itself' is observed by patching pathlib.Path.open from the check to hand out a real OS file object whose .closed is read after the call; ResourceWarning capture is a second channel",
    "whether a given fault makes the load fail is irrelevant (the vendored chunk reader swallows some OSErrors in its seek fallback)",
]
REQUIRED_COUNTERS = ["loads", "strictness_evaluations", "nested_evaluations", "files_opened", "files_closed_checked", "descriptor_checks",
                     "io_faults", "line_faults", "truncations", "loads_raised", "loads_completed"]
WORKERS = {"quick": 8, "thorough": 16}
# quick tier: these files get a failpoint on every distinct source line they reach; the others a sample.
# (thorough: every file gets first+last occurrence of every line + 400 random event indices)
FULL_LINE_FILES = {"gen:mm-in-mm-with-sampler-effect.sunvox", "gen:sampler-with-effect.sunsynth", "metamodule.sunsynth", "sampler.sunsynth",
                   "single-fm.sunvox", "supertracks.sunvox", "issue41/sample.sunvox", "multisynth.sunsynth", "analog-generator.sunsynth",
                   "spectravoice.sunsynth", "vorbis-player.sunsynth", "fmx.sunsynth", "empty.sunvox"}


def nested_files():
    """Generated files with nested loads: MetaModule in MetaModule, sampler with an effect."""
    import rv.api as api
    out = {}
    inner = api.Project()
    inner.name = "inner"
    amp = inner.new_module(api.m.Amplifier, volume=300)
    amp >> inner.output
    smp = inner.new_module(api.m.Sampler)
    smp.effect = api.Synth(api.m.Echo())
    s = smp.Sample()
    s.data = bytes(range(64))
    s.format = smp.Format.int8
    s.channels = smp.Channels.mono
    smp.samples[0] = s
    mid = api.Project()
    mm_inner = mid.new_module(api.m.MetaModule, project=inner, name="mm-inner")
    mm_inner.user_defined_controllers = 2
    mm_inner.mappings.values[0] = mm_inner.Mapping((1, 0))
    mm_inner.mappings.values[1] = mm_inner.Mapping((1, 1))
    outer = api.Project()
    mm = outer.new_module(api.m.MetaModule, project=mid, name="mm-outer")
    mm >> outer.output
    pat = api.Pattern(tracks=2, lines=4)
    outer.attach_pattern(pat)
    out["gen:mm-in-mm-with-sampler-effect.sunvox"] = outer.read()
    out["gen:metamodule-nested.sunsynth"] = api.Synth(mm_inner.clone()).read()
    smp2 = api.m.Sampler()
    smp2.effect = api.Synth(api.m.Reverb())
    out["gen:sampler-with-effect.sunsynth"] = api.Synth(smp2).read()
    return out


def _plan_core(tier, seed):
    fx = env.fixtures()
    names = [os.path.relpath(f, env.FIXTURE_DIR) for f in fx] + ["gen:mm-in-mm-with-sampler-effect.sunvox",
                                                                   "gen:metamodule-nested.sunsynth", "gen:sampler-with-effect.sunsynth"]
    # balance: generated nested files and big fixtures are the expensive ones; greedy by size
    def cost(nm):
        if nm.startswith("gen:"):
            return 10 ** 7 if "mm-in-mm" in nm else 3 * 10 ** 6
        c = os.path.getsize(os.path.join(env.FIXTURE_DIR, nm))
        return c * (20 if "metamodule" in nm else 1)
    n = 16 if tier == "quick" else 32
    bins = [[0, []] for _ in range(n)]
    for nm in sorted(names, key=cost, reverse=True):
        b = min(bins, key=lambda b: b[0])
        b[0] += cost(nm) + 20000
        b[1].append(nm)
    specs = []
    for i, b in enumerate(bins):
        if b[1]:
            specs.append({"tier": tier, "files": b[1], "seed": env.shard_seed(i), "shard": i})
    return specs


class Judge:
    """Strictness / file-release monitors around every bound reference of read_sunvox_file."""

    def __init__(self, res):
        import rv.errors as errors
        import rv.readers.reader as reader_mod
        self.res = res
        self.errors = errors
        self.depth = 0
        self.case = None
        self.orig = reader_mod.read_sunvox_file
        judge = self

        def read_sunvox_file(file_or_name):
            before = errors.RAISE_CONTROLLER_VALUE_ERRORS
            judge.depth += 1
            nested = judge.depth > 1
            try:
                try:
                    obj = judge.orig(file_or_name)
                    how = "return"
                    return obj
                except BaseException:
                    how = "raise"
                    raise
                finally:
                    judge.depth -= 1
                    res.count("strictness_evaluations")
                    if nested:
                        res.count("nested_evaluations")
                    after = errors.RAISE_CONTROLLER_VALUE_ERRORS
                    if after is not before:
                        res.violation(f"C18:strictness:{'nested' if nested else 'outer'}:{how}",
                                      f"read_sunvox_file ({'nested' if nested else 'outermost'}) {how}: flag was {before!r} at entry, {after!r} at exit; case {judge.case}",
                                      judge.case)
            finally:
                pass

        self.n_rebound = monitors.rebind("read_sunvox_file", self.orig, read_sunvox_file)
        self.wrapped = read_sunvox_file
        res.counters["names_rebound"] = self.n_rebound


def _fds():
    try:
        # (the listing's own descriptor is closed again by the time fstat looks at it)
        return {fd for fd in (int(x) for x in os.listdir("/proc/self/fd")) if _fd_alive(fd)}
    except OSError:
        return set()


def _fd_alive(fd):
    try:
        os.fstat(fd)
        return True
    except OSError:
        return False


def lenient_then_strict(res, judge):
    """After a load that KEPT an out-of-range value (readers are lenient), the process is strict again in every respect:
    the very same assignment - same type, controller and value, on a free module - is rejected."""
    import rv.api as api
    import rv.errors as errors
    from rv.errors import ControllerValueError
    from rv.modules import MODULE_CLASSES
    from .. import spec
    sp = spec.load()
    for T, t in sorted(sp.items()):
        if T in ("Output", "MetaModule"):
            continue
        cands = [(i, sc) for i, sc in enumerate(c for c in t.controllers if c.attached) if sc.kind == "range"]
        if not cands:
            continue
        i, sc = cands[len(T) % len(cands)]
        cls = MODULE_CLASSES[t.mtype]
        v = sc.max + 7
        stamped = api.Synth(cls())
        # (the file may say it was written by any version of SunVox, also by one newer than this library knows)
        stamped.sunsynth_version = ((2, 1, 2, 1), (2, 2, 0, 0), (9, 9, 9, 9), (1, 9, 6, 1), (255, 255, 255, 255))[len(T) % 5]
        chunks = [(c[0], c[1]) for c in iffparse.parse(stamped.read())]
        idx = [k for k, c in enumerate(chunks) if c[0] == b"CVAL"]
        if i >= len(idx):
            continue
        chunks[idx[i]] = (b"CVAL", struct.pack("<i", v - sc.min if sc.min < 0 else v))
        case = {"file": f"out-of-range:{T}.{sc.name}", "fault": "lenient-then-strict", "value": v}
        judge.case = case
        errors.RAISE_CONTROLLER_VALUE_ERRORS = True
        # the same module inside a MetaModule that exposes the controller (the loader derives the exposed controller's type
        # from the embedded one while the out-of-range value sits there)
        try:
            inner = api.Project()
            inner.attach_module(judge.wrapped(BytesIO(iffparse.build(chunks))).module)
            mm = api.m.MetaModule(project=inner)
            mm.user_defined_controllers = 1
            mm.mappings.values[0] = mm.Mapping((1, i))
            holder_raw = api.Synth(mm).read()
            judge.wrapped(BytesIO(holder_raw)).module.clone()
            res.count("lenient_loads_through_metamodule")
        except Exception:
            res.count("lenient_loads_through_metamodule_failed")
        for probe in (v, sc.max + 1, v + 1000):
            try:
                setattr(cls(), sc.name, probe)
            except ControllerValueError:
                continue
            except Exception as e:
                res.violation(f"C18:strict-after-lenient-load:wrong-error:{type(e).__name__}", f"{T}().{sc.name} = {probe} raised {e!r}", case)
                break
            res.violation("C18:strict-after-lenient-load:accepted", f"after a MetaModule exposing {T}.{sc.name} (holding {v}, outside {sc.min}..{sc.max}) was loaded, {T}().{sc.name} = {probe} is accepted", case)
            break
        for rep in range(2):
            try:
                o = judge.wrapped(BytesIO(iffparse.build(chunks)))
            except Exception:
                break
            res.count("loads")
            if getattr(o.module, sc.name) != v:
                res.count("lenient_load_did_not_keep_value")
                break
            res.count("lenient_loads_keeping_out_of_range")
            res.case((T, sc.name, "lenient-then-strict", rep))
            try:
                setattr(o.module, sc.name, v)            # the loaded module is handed the value it holds: still out of range
            except ControllerValueError:
                pass
            except Exception as e:
                res.violation(f"C18:strict-after-lenient-load:wrong-error:{type(e).__name__}", f"loaded {T}.{sc.name} = {v} (its own out-of-range value) raised {e!r}", case)
                break
            else:
                res.violation("C18:strict-after-lenient-load:accepted", f"a loaded {T} holding {sc.name} = {v} (outside {sc.min}..{sc.max}): assigning it that value again is accepted", case)
                break
            fresh = cls()
            try:
                setattr(fresh, sc.name, v)
            except ControllerValueError:
                continue
            except Exception as e:
                res.violation(f"C18:strict-after-lenient-load:wrong-error:{type(e).__name__}", f"{T}().{sc.name} = {v} after a lenient load of the same value raised {e!r}", case)
                break
            res.violation("C18:strict-after-lenient-load:accepted", f"a file holding {T}.{sc.name} = {v} (outside {sc.min}..{sc.max}) was loaded; afterwards {T}().{sc.name} = {v} is accepted "
                                                                    f"without ControllerValueError (flag is {errors.RAISE_CONTROLLER_VALUE_ERRORS!r})", case)
            break
        # the same load in a process that turns warnings into errors (python -W error, pytest filterwarnings = error):
        # however the load ends, the flag is back and the assignment is rejected again
        errors.RAISE_CONTROLLER_VALUE_ERRORS = True
        case = dict(case, fault="lenient-load-under-warnings-as-errors")
        judge.case = case
        with warnings.catch_warnings():
            warnings.simplefilter("error")
            try:
                judge.wrapped(BytesIO(iffparse.build(chunks)))
            except Exception:
                res.count("loads_failing_under_warnings_as_errors")
        res.count("loads")
        res.count("loads_under_warnings_as_errors")
        try:
            setattr(cls(), sc.name, v)
        except ControllerValueError:
            pass
        except Exception as e:
            res.violation(f"C18:strict-after-lenient-load:wrong-error:{type(e).__name__}", f"{T}().{sc.name} = {v} raised {e!r}", case)
        else:
            res.violation("C18:strict-after-lenient-load:accepted", f"after a lenient load of {T}.{sc.name} = {v} with warnings turned into errors, {T}().{sc.name} = {v} is accepted "
                                                                    f"(flag is {errors.RAISE_CONTROLLER_VALUE_ERRORS!r})", case)
        errors.RAISE_CONTROLLER_VALUE_ERRORS = True


def undefined_enum_then_strict(res, judge):
    """A file whose enumerated controller holds a number that names no member: whether that load fails or goes through, the
    number is no more a member afterwards than it was before."""
    import rv.api as api
    from rv.modules import MODULE_CLASSES
    from .. import spec
    sp = spec.load()
    for T, t in sorted(sp.items()):
        if T in ("Output", "MetaModule"):
            continue
        attached = [c for c in t.controllers if c.attached]
        cands = [(i, sc) for i, sc in enumerate(attached) if sc.kind == "enum"]
        if not cands:
            continue
        i, sc = cands[len(T) % len(cands)]
        cls = MODULE_CLASSES[t.mtype]
        bad = max(v for _n, v in sc.members) + 37
        chunks = [(c[0], c[1]) for c in iffparse.parse(api.Synth(cls()).read())]
        idx = [k for k, c in enumerate(chunks) if c[0] == b"CVAL"]
        if i >= len(idx):
            continue
        chunks[idx[i]] = (b"CVAL", struct.pack("<i", bad))
        case = {"file": f"undefined-member:{T}.{sc.name}", "fault": "undefined-enum-then-strict", "value": bad}
        judge.case = case
        for rep in range(2):
            try:
                judge.wrapped(BytesIO(iffparse.build(chunks)))
                res.count("undefined_enum_loads_completed")
            except Exception:
                res.count("undefined_enum_loads_raised")
            res.count("loads")
            try:
                setattr(cls(), sc.name, bad)
            except Exception:
                res.count("undefined_enum_assignments_rejected")
                continue
            res.violation("C18:strict-after-lenient-load:undefined-member-accepted", f"after loading a file holding {T}.{sc.name} = {bad} (no such member), {T}().{sc.name} = {bad} is accepted", case)
            break


def big_file_failures(res, judge, tdir):
    """Files of a few MiB, loaded by name, that fail late: descriptors (also ones obtained through mappings or duplicates)
    are back to what they were while the exception is still held by the caller."""
    import rv.api as api
    p = api.Project()
    smp = p.new_module(api.m.Sampler)
    s = smp.Sample()
    s.data, s.format, s.channels = bytes(3 * 1024 * 1024), smp.Format.int16, smp.Channels.stereo
    smp.samples[0] = s
    p.new_module(api.m.Amplifier, name="late module")
    raw = p.read()
    pos = raw.rfind(b"Amplifier\0")
    variants = [("good", raw), ("late-unknown-type", raw[:pos] + b"Amplifiex\0" + raw[pos + 10:]), ("truncated", raw[:len(raw) - 40])]
    # files in OTHER formats handed over by name (a compressed copy, an archive, text, nothing at all): accepted or rejected,
    # the descriptor is released either way
    import bz2
    import gzip
    import lzma
    import zipfile
    small = api.Synth(api.m.Amplifier()).read()
    zbuf = BytesIO()
    with zipfile.ZipFile(zbuf, "w") as z:
        z.writestr("a.sunsynth", small)
    for kind, data in (("gzip-synth", gzip.compress(small)), ("gzip-project", gzip.compress(api.Project().read())), ("gzip-garbage", gzip.compress(b"not a container")),
                       ("gzip-truncated", gzip.compress(small)[:-9]), ("bz2", bz2.compress(small)), ("xz", lzma.compress(small)), ("zip", zbuf.getvalue()),
                       ("text", b"SunVox project\n"), ("empty", b""), ("riff", b"RIFF\x24\0\0\0WAVEfmt "), ("form", b"FORM\0\0\0\x04SVOX"),
                       ("small-good", small)):
        variants.append((kind, data))
    for kind, data in variants:
        path = os.path.join(tdir, f"big-{kind}.sunvox")
        with open(path, "wb") as f:
            f.write(data)
        for arg in (path, Path(path)):
            case = {"file": f"big:{kind}", "bytes": len(data), "source": type(arg).__name__}
            judge.case = case
            before = _fds()
            held = None
            try:
                judge.wrapped(arg)
            except BaseException as e:  # noqa
                held = e
            res.count("loads")
            res.count("big_file_loads")
            res.count("descriptor_checks")
            leaked = [fd for fd in _fds() - before if _fd_alive(fd)]
            if leaked:
                what = []
                for fd in leaked:
                    try:
                        what.append(os.readlink(f"/proc/self/fd/{fd}"))
                    except OSError:
                        what.append("?")
                res.violation(f"C18:descriptor-left-open:{'raise' if held is not None else 'return'}",
                              f"{len(leaked)} descriptor(s) still open after loading a {len(data)}-byte file by name ({kind}; {type(held).__name__ if held else 'returned'}): {what[:3]}", case)
                for fd in leaked:
                    try:
                        os.close(fd)
                    except OSError:
                        pass
            del held
    # the same big file handed over as a STREAM the caller opened: a pipe, a socket file (neither can seek), a text-mode file
    # object opened by mistake, complete and cut short.  Whatever the library does with such an argument - refuse it, buffer it,
    # re-open it by name - it holds no descriptor of its own afterwards
    from .. import workload
    for kind, data in variants[:3]:
        for sname, opener in list(workload.stream_kinds(data, tdir, tag=f"big-{kind}")):
            if sname not in ("pipe", "socket", "unbuffered", "gzip.open"):
                continue
            case = {"file": f"big:{kind}", "bytes": len(data), "source": "caller-" + sname}
            judge.case = case
            arg, closers = opener()
            before = _fds()
            held = None
            try:
                judge.wrapped(arg)
            except BaseException as e:  # noqa
                held = e
            res.count("loads")
            res.count("big_stream_loads")
            res.count("descriptor_checks")
            leaked = [fd for fd in _fds() - before if _fd_alive(fd)]
            if leaked:
                what = []
                for fd in leaked:
                    try:
                        what.append(os.readlink(f"/proc/self/fd/{fd}"))
                    except OSError:
                        what.append("?")
                    try:
                        os.close(fd)
                    except OSError:
                        pass
                res.violation(f"C18:descriptor-left-open:{'raise' if held is not None else 'return'}",
                              f"{len(leaked)} descriptor(s) opened by the library while loading {len(data)} bytes from a caller-supplied {sname} stream are still open "
                              f"({type(held).__name__ if held else 'returned'}): {what[:3]}", case)
            del held
            for c_ in closers:
                try:
                    c_.close()
                except Exception:
                    pass
        # a text-mode file object (open(path) without "b")
        path = os.path.join(tdir, f"big-{kind}.sunvox")
        for enc in ("utf-8", "latin-1"):
            case = {"file": f"big:{kind}", "bytes": len(data), "source": "caller-text-mode:" + enc}
            judge.case = case
            with open(path, "r", encoding=enc, errors="replace") as tf:
                before = _fds()
                held = None
                try:
                    judge.wrapped(tf)
                except BaseException as e:  # noqa
                    held = e
                res.count("loads")
                res.count("text_mode_stream_loads")
                res.count("descriptor_checks")
                leaked = [fd for fd in _fds() - before if _fd_alive(fd)]
                if leaked:
                    for fd in leaked:
                        try:
                            os.close(fd)
                        except OSError:
                            pass
                    res.violation(f"C18:descriptor-left-open:{'raise' if held is not None else 'return'}",
                                  f"{len(leaked)} descriptor(s) opened by the library while it was handed a text-mode file object are still open "
                                  f"({type(held).__name__ if held else 'returned'})", case)
                del held


def boundaries(data):
    try:
        return [c[2] for c in iffparse.parse(data)] + [len(data)]
    except iffparse.Malformed:
        return []


def run_file(res, judge, tracker, fp, name, data, path, rng, tier, full_lines=True):
    import rv.errors as errors
    read = judge.wrapped

    def attempt(kind, point, source, make_arg, flag, arm=None):
        """One load under one fault; all monitors evaluated."""
        case = {"file": name, "fault": kind, "point": point, "source": source, "initial_flag": flag}
        judge.case = case
        res.case((name, kind, point, source, flag))
        res.count("loads")
        res.hist("faults_by_kind", kind)
        errors.RAISE_CONTROLLER_VALUE_ERRORS = flag
        arg = make_arg()
        raised = None
        fds_before = _fds()
        try:
            if arm:
                arm()
            try:
                read(arg)
            finally:
                fp.disarm()
        except BaseException as e:  # noqa - any exception type is a legitimate way to fail
            if isinstance(e, (KeyboardInterrupt, SystemExit)):
                raise
            raised = e
        after = errors.RAISE_CONTROLLER_VALUE_ERRORS
        errors.RAISE_CONTROLLER_VALUE_ERRORS = True
        res.count("loads_raised" if raised is not None else "loads_completed")
        if res.evaluations % 1499 == 1:
            res.sample(dict(case, outcome=type(raised).__name__ if raised is not None else "returned", flag_after=after,
                            fired_at=None if fp.fired_at is None else f"{os.path.relpath(fp.fired_at[0], env.SRC)}:{fp.fired_at[1]}"))
        if raised is not None:
            res.hist("exceptions_by_type", type(raised).__name__)
        if after is not flag:
            res.violation(f"C18:strictness:final:{'raise' if raised is not None else 'return'}",
                          f"after the load the flag is {after!r}, it was {flag!r} before; case {case}", case)
        for f in tracker.take():
            res.count("files_opened")
            res.count("files_closed_checked")
            if not f.closed:
                res.violation(f"C18:file-left-open:{'raise' if raised is not None else 'return'}",
                              f"file opened by the library from a path is still open after the call ({type(raised).__name__ if raised else 'returned'}); case {case}", case)
                f.armed = False
                f.close()
        # whatever the library uses to open a path (pathlib, open(), os.open ...): the process holds no more descriptors
        # after the call than before it
        res.count("descriptor_checks")
        leaked = [fd for fd in _fds() - fds_before if _fd_alive(fd)]
        if leaked:
            what = []
            for fd in leaked:
                try:
                    what.append(os.readlink(f"/proc/self/fd/{fd}"))
                except OSError:
                    what.append("?")
                try:
                    os.close(fd)
                except OSError:
                    pass
            res.violation(f"C18:descriptor-left-open:{'raise' if raised is not None else 'return'}",
                          f"{len(leaked)} descriptor(s) opened during the call are still open after it ({what[:3]}; "
                          f"{type(raised).__name__ if raised else 'returned'}); case {case}", case)
        return raised

    def sources():
        return [("bytesio", None), ("str", str(path)), ("path", Path(path))]

    # ---------------- the setting as applications leave it: not only the two booleans, but whatever truthy / falsy thing a
    # configuration loader put there (1, 0, a string, an object with its own __bool__): after a load it is that very OBJECT again
    class _Live:
        def __init__(self, v):
            self.v = v

        def __bool__(self):
            return self.v
    for odd in (1, 0, "yes", "", _Live(True), _Live(False), None):
        attempt("none", None, "bytesio", lambda: faults.FaultyBytesIO(data), odd)
        attempt("truncated", None, "bytesio", lambda: faults.FaultyBytesIO(data[:max(8, len(data) // 2)]), odd)
        res.count("loads_with_non_boolean_settings", 2)
    # ---------------- a load by path while ANOTHER handle holds an exclusive advisory lock on the file (an editor, a sync tool)
    try:
        import fcntl
        with open(str(path), "rb") as locker:
            fcntl.flock(locker, fcntl.LOCK_EX | fcntl.LOCK_NB)
            try:
                for flag in (True, False):
                    attempt("file-locked-by-another-handle", None, "path", lambda: Path(path), flag)
                    attempt("file-locked-by-another-handle", None, "str", lambda: str(path), flag)
                    res.count("loads_of_locked_files", 2)
            finally:
                fcntl.flock(locker, fcntl.LOCK_UN)
    except (ImportError, OSError):
        res.count("file_locking_unavailable")
    # ---------------- clean loads, all sources, both flags
    for flag in (True, False):
        for sname, sarg in sources():
            attempt("none", None, sname, (lambda sarg=sarg: faults.FaultyBytesIO(data) if sarg is None else sarg), flag)
        # streams of other kinds that the CALLER opened (and closes): unbuffered, buffered, read-write, memory-mapped, a pipe,
        # a decompressing stream, a socket file - complete and cut short
        import gzip as _gzip
        import mmap as _mmap
        import socket as _socket
        import threading as _threading
        for cut in (False, True):
            blob = data[:max(9, len(data) * 2 // 3)] if cut else data
            cpath = str(path) + (".cut" if cut else ".whole")
            with open(cpath, "wb") as f_:
                f_.write(blob)
            for sname in ("caller-fileio", "caller-buffered", "caller-rplusb", "caller-mmap", "caller-gzip", "caller-pipe", "caller-socket"):
                closers = []
                try:
                    if sname == "caller-fileio":
                        s_ = open(cpath, "rb", buffering=0)
                    elif sname == "caller-buffered":
                        s_ = open(cpath, "rb")
                    elif sname == "caller-rplusb":
                        s_ = open(cpath, "r+b")
                    elif sname == "caller-mmap":
                        fh = open(cpath, "rb")
                        closers.append(fh)
                        s_ = _mmap.mmap(fh.fileno(), 0, access=_mmap.ACCESS_READ)
                    elif sname == "caller-gzip":
                        s_ = _gzip.GzipFile(fileobj=BytesIO(_gzip.compress(blob)), mode="rb")
                    elif sname == "caller-pipe":
                        r_, w_ = os.pipe()
                        s_ = os.fdopen(r_, "rb")
                        wf = os.fdopen(w_, "wb")
                        t_ = _threading.Thread(target=lambda wf=wf, blob=blob: (wf.write(blob), wf.close()))
                        t_.start()
                        closers.append(type("J", (), {"close": staticmethod(t_.join)}))
                    else:
                        a_, b_ = _socket.socketpair()
                        s_ = a_.makefile("rb")
                        t_ = _threading.Thread(target=lambda b_=b_, blob=blob: (b_.sendall(blob), b_.close()))
                        t_.start()
                        closers += [a_, type("J", (), {"close": staticmethod(t_.join)})]
                    closers.insert(0, s_)
                except Exception:
                    res.count("caller_stream_kind_unavailable")
                    for c_ in closers:
                        c_.close()
                    continue
                try:
                    attempt("truncated" if cut else "none", None, sname, (lambda s_=s_: s_), flag)
                    res.count("caller_supplied_stream_loads")
                finally:
                    for c_ in closers:
                        try:
                            c_.close()
                        except Exception:
                            pass
            os.unlink(cpath)
        # failing open() and non-existent path
        tracker.fail_open = True
        attempt("open-fails", None, "path", lambda: Path(path), flag)
        tracker.fail_open = False
        attempt("missing-path", None, "str", lambda: str(path) + ".does-not-exist", flag)
        attempt("missing-path", None, "path", lambda: Path(str(path) + ".does-not-exist"), flag)
        # other spellings of "a path": bytes, os.DirEntry, any os.PathLike.  Whether the library accepts them is its
        # business; if it opens something for them it closes it again (descriptor monitor + ResourceWarning channel)
        class _P:
            def __init__(self, p_):
                self.p_ = p_

            def __fspath__(self):
                return self.p_
        attempt("none", None, "bytes-path", lambda: os.fsencode(str(path)), flag)
        attempt("none", None, "pathlike", lambda: _P(str(path)), flag)
        def _entry():
            with os.scandir(os.path.dirname(str(path))) as it:      # (the harness closes its own iterator)
                return next(e for e in it if e.name == os.path.basename(str(path)))
        attempt("none", None, "direntry", _entry, flag)
        gc.collect()
        # a path that can be opened at the OS level but not read as a file
        attempt("directory-path", None, "str", lambda: os.path.dirname(str(path)), flag)
        attempt("directory-path", None, "path", lambda: Path(os.path.dirname(str(path))), flag)

    # ---------------- the application asked for strict READS (rv.errors.RAISE_RANGE_ERRORS_ON_READ = True, set on the errors
    # module as documented there, or on the reader module that imported it): whatever that switch does, the process-wide
    # setting is what it was before each load - complete, truncated, by path
    import rv.readers.reader as _reader_mod
    for where, holder in (("errors", errors), ("reader", _reader_mod)):
        old_switch = getattr(holder, "RAISE_RANGE_ERRORS_ON_READ", None)
        if old_switch is None:
            continue
        holder.RAISE_RANGE_ERRORS_ON_READ = True
        try:
            for flag in (False, True):
                attempt("strict-reads-requested:" + where, None, "bytesio", lambda: faults.FaultyBytesIO(data), flag)
                attempt("strict-reads-requested:" + where + ":truncated", None, "bytesio", lambda: faults.FaultyBytesIO(data[:max(8, len(data) // 2)]), flag)
                attempt("strict-reads-requested:" + where, None, "path", lambda: Path(path), flag)
                res.count("loads_with_strict_reads_requested", 3)
        finally:
            holder.RAISE_RANGE_ERRORS_ON_READ = old_switch
    # ---------------- loads made while the CALLER holds the setting through the library's own context manager: inside the
    # block the setting is the block's value before and after every load, and the caller's value is back after the block
    from rv.errors import override_raise_controller_value_errors as _override
    for outer_flag in (True, False):
        for block_flag in (True, False):
            for kind, mk in (("good", lambda: BytesIO(data)), ("truncated", lambda: BytesIO(data[:max(8, len(data) // 2)])), ("path", lambda: Path(path))):
                errors.RAISE_CONTROLLER_VALUE_ERRORS = outer_flag
                case = {"file": name, "fault": "held-override:" + kind, "outer_flag": outer_flag, "block_flag": block_flag}
                judge.case = case
                res.case((name, "held-override", kind, outer_flag, block_flag))
                res.count("loads")
                res.count("loads_inside_caller_held_override")
                inside_after = None
                with _override(block_flag):
                    try:
                        read(mk())
                    except Exception:
                        pass
                    inside_after = errors.RAISE_CONTROLLER_VALUE_ERRORS
                after_block = errors.RAISE_CONTROLLER_VALUE_ERRORS
                errors.RAISE_CONTROLLER_VALUE_ERRORS = True
                tracker.take()
                if inside_after is not block_flag:
                    res.violation("C18:strictness:inside-caller-block", f"inside `with override_raise_controller_value_errors({block_flag})` the setting is {inside_after!r} after a load ({kind}); case {case}", case)
                elif after_block is not outer_flag:
                    res.violation("C18:strictness:after-caller-block", f"after the caller's block the setting is {after_block!r}, it was {outer_flag!r} before; case {case}", case)

    # ---------------- I/O faults at every call index (BytesIO source), sampled for path sources
    probe = faults.FaultyBytesIO(data)
    errors.RAISE_CONTROLLER_VALUE_ERRORS = True
    try:
        judge.orig(probe)
    except Exception:
        pass
    K = probe.calls
    res.hist("io_calls_per_file", name, K)
    flags = (True, False)
    for k in range(K):
        flag = flags[k % 2] if tier == "quick" else None
        for fl in ((flag,) if flag is not None else flags):
            res.count("io_faults")
            attempt("io", k, "bytesio", lambda k=k: faults.FaultyBytesIO(data, fail_at=k), fl)
    # interruptions that are not Exception subclasses, at sampled call indices
    for k in sorted(set([0, 1, K // 2, K - 1] + [rng.randrange(K) for _ in range(4 if tier == "quick" else 40)])):
        if k < 0:
            continue
        res.count("io_faults")
        res.count("non_exception_faults")

        def mk(k=k):
            f = faults.FaultyBytesIO(data, fail_at=k)
            f.fail_with = faults.InjectedInterrupt
            return f
        attempt("io-interrupt", k, "bytesio", mk, flags[k % 2])
    # path sources: the library opens the file itself; the patched open hands out a faulty real file
    path_points = range(K) if tier == "thorough" else sorted(set([0, 1, 2, K - 1, K // 2] + [rng.randrange(K) for _ in range(6)]))
    for k in path_points:
        if k < 0:
            continue
        res.count("io_faults")
        tracker.fail_at = k
        attempt("io", k, "path", lambda: Path(path), flags[k % 2])
        tracker.fail_at = None

    # ---------------- truncation at every chunk boundary and at random offsets
    cuts = set(boundaries(data)[:-1])
    cuts.update(b + 4 for b in list(cuts)[:50])
    cuts.update(b + 8 for b in list(cuts)[:50])
    nrand = 16 if tier == "quick" else 64
    cuts.update(rng.randrange(len(data)) for _ in range(nrand))
    for cut in sorted(c for c in cuts if 0 <= c < len(data)):
        res.count("truncations")
        attempt("truncate", cut, "bytesio", lambda cut=cut: BytesIO(data[:cut]), flags[cut % 2])
    # a few truncated files on disk (library-opened)
    tdir = os.path.dirname(path)
    for cut in sorted(cuts)[:: max(1, len(cuts) // (6 if tier == "quick" else 30))]:
        tp = os.path.join(tdir, "trunc.bin")
        with open(tp, "wb") as f:
            f.write(data[:cut])
        res.count("truncations")
        attempt("truncate", cut, "path", lambda: Path(tp), flags[cut % 2])

    # ---------------- corruption that makes handlers raise
    chunks = iffparse.parse(data) if boundaries(data) else []
    muts = []
    for cid, payload, off in chunks:
        if cid == b"STYP":
            muts.append(("styp-unknown", off, data[:off + 8] + b"Zz" + data[off + 10:]))
        elif cid == b"CVAL" and len(muts) < 40:
            muts.append(("cval-short", off, data[:off + 4] + struct.pack("<I", 2) + data[off + 8:off + 10] + data[off + 12:]))
        elif cid == b"CMID" and payload:
            muts.append(("cmid-bad-enum", off, data[:off + 8] + b"\xee" + data[off + 9:]))
        elif cid in (b"SFFF", b"BPM ", b"PCHN", b"CHNM") and len(muts) < 60:
            muts.append((cid.decode().strip().lower() + "-short", off, data[:off + 4] + struct.pack("<I", 1) + data[off + 8:off + 9] + data[off + 12:]))
        elif cid == b"CHDT" and len(payload) > 16 and len(muts) < 80:
            bad = bytearray(data)
            for j in range(off + 8, off + 8 + min(len(payload), 64)):
                bad[j] = rng.randrange(256)
            muts.append(("chdt-garbage", off, bytes(bad)))
    for i, (kind, off, bad) in enumerate(muts):
        res.count("corruptions")
        attempt("corrupt:" + kind, off, "bytesio", lambda bad=bad: BytesIO(bad), flags[i % 2])

    # ---------------- source-free line failpoints
    errors.RAISE_CONTROLLER_VALUE_ERRORS = True
    fp.arm(record=True)
    try:
        judge.orig(BytesIO(data))
    except Exception:
        pass
    finally:
        fp.disarm()
    total_events = fp.count
    rec = fp.record or {}
    res.hist("line_events_per_file", name, total_events)
    points = set()
    for (_fn, _ln), (first, last) in rec.items():
        points.add(first)
        points.add(last)
        res.seen("failpoint_lines", f"{os.path.relpath(_fn, env.SRC)}:{_ln}")
    nidx = 25 if tier == "quick" else 400
    points.update(rng.randrange(total_events) for _ in range(min(nidx, total_events)))
    if tier == "quick":
        firsts = {v[0] for v in rec.values()}
        rest = sorted(points - firsts)
        if full_lines:
            # every distinct line once (its first occurrence) + a sample of last occurrences / random indices
            points = firsts | set(rng.sample(rest, min(len(rest), 40)))
            if total_events > 40000:  # very long loads: a sample of the distinct lines on the quick tier
                pts = sorted(points)
                points = set(rng.sample(pts, min(len(pts), 260)))
        else:
            pts = sorted(points)
            points = set(rng.sample(pts, min(len(pts), 45)))
    for i, k in enumerate(sorted(points)):
        res.count("line_faults")
        use_path = (i % 7 == 3)
        attempt("line", k, "path" if use_path else "bytesio",
                (lambda: Path(path)) if use_path else (lambda: BytesIO(data)),
                flags[i % 2], arm=lambda k=k: fp.arm(fail_at=k))


FULL_EVENT_FILES = {"empty.sunvox", "amplifier.sunsynth", "dc-blocker.sunsynth", "gen:sampler-with-effect.sunsynth"}


def every_event(res, judge, fp, name, data):
    """Thorough tier: a fault at EVERY line event of the load, for a few small files (incl. one with a nested load)."""
    import rv.errors as errors
    fp.arm(record=True)
    try:
        judge.orig(BytesIO(data))
    except Exception:
        pass
    finally:
        fp.disarm()
    total = fp.count
    for k in range(total):
        flag = (True, False)[k % 2]
        case = {"file": name, "fault": "line-every-event", "point": k, "source": "bytesio", "initial_flag": flag}
        judge.case = case
        res.case((name, "every-event", k, flag))
        res.count("loads")
        res.count("every_event_faults")
        errors.RAISE_CONTROLLER_VALUE_ERRORS = flag
        fp.arm(fail_at=k)
        try:
            judge.wrapped(BytesIO(data))
            res.count("loads_completed")
        except Exception:
            res.count("loads_raised")
        finally:
            fp.disarm()
        after = errors.RAISE_CONTROLLER_VALUE_ERRORS
        errors.RAISE_CONTROLLER_VALUE_ERRORS = True
        if after is not flag:
            res.violation("C18:strictness:final:every-event", f"fault at event {k} of {name}: flag {flag!r} -> {after!r}", case)


def fifo_loads(res, judge, tracker, tdir, data, rng):
    """Load BY PATH where the path is a named pipe (non-seekable).  Whatever the library does with it, the file it
    opened itself must be closed and the flag restored when the call comes back."""
    import threading
    import rv.errors as errors
    for i, flag in enumerate((True, False, True)):
        fifo = os.path.join(tdir, f"pipe{i}.sunvox")
        os.mkfifo(fifo)

        def writer():
            try:
                with open(fifo, "wb") as w:
                    w.write(data)
            except OSError:
                pass
        th = threading.Thread(target=writer, daemon=True)
        th.start()
        case = {"file": "fifo", "fault": "non-seekable-path", "point": i, "source": "path", "initial_flag": flag}
        judge.case = case
        res.case(("fifo", i, flag))
        res.count("loads")
        res.count("fifo_loads")
        errors.RAISE_CONTROLLER_VALUE_ERRORS = flag
        raised = None
        try:
            judge.wrapped(Path(fifo) if i % 2 else fifo)
        except Exception as e:
            raised = e
        th.join(timeout=5)
        after = errors.RAISE_CONTROLLER_VALUE_ERRORS
        errors.RAISE_CONTROLLER_VALUE_ERRORS = True
        res.count("loads_raised" if raised is not None else "loads_completed")
        if after is not flag:
            res.violation("C18:strictness:final:fifo", f"flag {flag!r} -> {after!r} after loading from a named pipe", case)
        for f in tracker.take():
            res.count("files_opened")
            res.count("files_closed_checked")
            if not f.closed:
                res.violation(f"C18:file-left-open:fifo:{'raise' if raised is not None else 'return'}",
                              "the file the library opened from a named-pipe path is still open after the call", case)
                f.armed = False
                f.close()
        os.unlink(fifo)


def clone_faults(res, judge, fp, name, data, rng, tier):
    """clone() (Project / Synth / Module) is a save followed by a load: the same guarantees hold when a fault
    strikes anywhere inside it.  The load inside clone() goes through the wrapped read_sunvox_file."""
    import rv.errors as errors
    try:
        obj = judge.orig(BytesIO(data))
    except Exception:
        return
    targets = [("container", obj)]
    mod = getattr(obj, "module", None)
    if mod is not None:
        targets.append(("module", mod))
    for what, target in targets:
        fp.arm(record=True)
        try:
            target.clone()
        except Exception:
            pass
        finally:
            fp.disarm()
        total = fp.count
        if not total:
            continue
        firsts = sorted({v[0] for v in (fp.record or {}).values()})
        n = 40 if tier == "quick" else 300
        points = set(rng.sample(firsts, min(len(firsts), n))) | {rng.randrange(total) for _ in range(n // 2)}
        for i, k in enumerate(sorted(points)):
            flag = (True, False)[i % 2]
            case = {"file": name, "fault": "line-in-clone", "point": k, "source": what, "initial_flag": flag}
            judge.case = case
            res.case((name, "clone", what, k, flag))
            res.count("loads")
            res.count("clone_faults")
            errors.RAISE_CONTROLLER_VALUE_ERRORS = flag
            fp.arm(fail_at=k)
            raised = None
            try:
                target.clone()
            except BaseException as e:  # noqa
                if isinstance(e, (KeyboardInterrupt, SystemExit)):
                    raise
                raised = e
            finally:
                fp.disarm()
            after = errors.RAISE_CONTROLLER_VALUE_ERRORS
            errors.RAISE_CONTROLLER_VALUE_ERRORS = True
            res.count("loads_raised" if raised is not None else "loads_completed")
            if after is not flag:
                res.violation(f"C18:strictness:clone:{'raise' if raised is not None else 'return'}",
                              f"after {what}.clone() with a fault at event {k} the flag is {after!r}, it was {flag!r}; case {case}", case)


def run_shard(spec_, res):
    if spec_.get("part") == "soak":
        from .. import soak
        for s_ in spec_["soak_seeds"]:
            soak.run(res, s_, spec_["tier"], PROPERTY, SOAK_KINDS, spec_["steps"])
        return
    rng = random.Random(spec_["seed"])
    tier = spec_["tier"]
    gen = None
    judge = Judge(res)
    if judge.n_rebound == 0:
        res.inconclusive.append("no binding of read_sunvox_file could be wrapped")
        return
    tdir = tempfile.mkdtemp(prefix="rvmon-c18-", dir=os.environ.get("TMPDIR", "/var/tmp"))
    unraisable = []
    import sys
    old_hook = sys.unraisablehook
    sys.unraisablehook = lambda u: unraisable.append(repr(u.exc_value))
    try:
        with warnings.catch_warnings(record=True) as wlist:
            warnings.simplefilter("always", ResourceWarning)
            with faults.OpenTracker() as tracker, faults.LineFailpoints() as fp:
                for name in spec_["files"]:
                    if name.startswith("gen:"):
                        if gen is None:
                            gen = nested_files()
                        data = gen[name]
                    else:
                        with open(os.path.join(env.FIXTURE_DIR, name), "rb") as f:
                            data = f.read()
                    path = os.path.join(tdir, "file" + os.path.splitext(name)[1])
                    with open(path, "wb") as f:
                        f.write(data)
                    run_file(res, judge, tracker, fp, name, data, path, rng, tier, full_lines=name in FULL_LINE_FILES)
                    if name.startswith("gen:") or name in ("metamodule.sunsynth", "sampler.sunsynth", "single-fm.sunvox") or tier == "thorough":
                        clone_faults(res, judge, fp, name, data, rng, tier)
                    if tier == "thorough" and name in FULL_EVENT_FILES:
                        every_event(res, judge, fp, name, data)
                    res.count("files")
                if spec_["shard"] == 0:
                    import rv.api as api
                    fifo_loads(res, judge, tracker, tdir, api.Synth(api.m.Amplifier()).read(), rng)
                if spec_["shard"] == 1:
                    lenient_then_strict(res, judge)
                    undefined_enum_then_strict(res, judge)
            if spec_["shard"] == 2:
                big_file_failures(res, judge, tdir)        # outside the pathlib hook: the library opens these files its own way
            gc.collect()
            rw = [w for w in wlist if issubclass(w.category, ResourceWarning)]
            res.count("resource_warnings", len(rw))
            if rw:
                res.violation("C18:resource-warning", f"{len(rw)} ResourceWarning(s): {str(rw[0].message)[:200]}", {"files": spec_["files"]})
    finally:
        sys.unraisablehook = old_hook
        shutil.rmtree(tdir, ignore_errors=True)
    if spec_["tier"] == "thorough" and spec_["shard"] == 0:
        # restore the real reader first: the plugin run happens in a separate interpreter anyway
        from ._repo_suite import ambient_under_repo_tests
        ambient_under_repo_tests(res, PROPERTY, ["strictness_restored"])
    res.count("unraisable_exceptions", len(unraisable))


def finalize(merged, tier):
    n = merged["counters"].get("names_rebound", 0)
    merged["counters"]["names_rebound_per_shard"] = n / max(1, merged["counters"].get("files", 1))


def replay(case, res):
    res.inconclusive.append("replay by re-running the shard; the fault point is in the replay file")


# ------------------------------------------------------------------ soak slice (rvmon.soak): long mixed histories on a pool of objects
SOAK_KINDS = ['strictness']


def plan(tier, seed):
    specs = _plan_core(tier, seed)
    k = 2 if tier == "quick" else 8
    for i in range(k):
        specs.append({"tier": tier, "part": "soak", "soak_seeds": [seed * 100003 + 1000 * i + j for j in range(8 if tier == "quick" else 40)],
                      "steps": 150 if tier == "quick" else 300, "seed": seed, "shard": 1000 + i})
    return specs
