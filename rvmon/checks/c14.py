"""C14 - ownership and indexing of modules and patterns stay coherent (model-based history checker)."""
import itertools
import random
from io import BytesIO

from .. import env, monitors

PROPERTY = "C14"
LEVEL = "exploration"
RULE = ("one case = one operation (new_module, attach_module of a fresh/duplicate/foreign module or None, += of a module, pattern or "
        "mixed list, attach_pattern of a pattern/clone/None/foreign/duplicate, Note.mod get/set, save+load) applied to a real "
        "project and compared with a slot-list model + the index_coherent invariant; distinct = distinct (slot occupancy, operation) "
        "pairs; non-trivial = all")
EXHAUSTIVE_AXIS = "start states: every pattern of empty positions over <= 6 module slots (2^5), each as built and as loaded"
ASSUMPTIONS = [
    "model: attach takes the lowest empty position else the end; attach_module(None) appends an empty position; a module owned by another project raises ModuleOwnershipError and changes nothing anywhere; re-attaching an attached module is a no-op; save/load keeps the slot list minus trailing empty positions",
    "attaching the same pattern twice is refused by the library (PatternOwnershipError); the statement does not fix that case, so only 'nothing changed when refused' is judged",
    "modules are tracked across save/load by unique names given at construction",
    "start states with gaps are built with the public attach_module(..., loading=True) parameter",
]
REQUIRED_COUNTERS = ["ops", "gap_fills", "foreign_refusals", "duplicate_attaches", "invariant_evaluations", "note_mod_checks", "save_loads"]


def _plan_core(tier, seed):
    n = 4 if tier == "quick" else 16
    per = 2500 if tier == "quick" else 10000
    return [{"tier": tier, "seed": env.shard_seed(i), "shard": i, "n_shards": n, "sequences": per} for i in range(n)]


class World:
    """Real project + model, stepped together."""

    def __init__(self, res, rng):
        import rv.api as api
        self.api = api
        self.res = res
        self.rng = rng
        self.p = api.Project()
        self.holder = None
        if rng.random() < 0.3:
            # "any project" includes the project embedded in a MetaModule, with user-defined controllers mapped onto
            # positions that are occupied, empty or not there yet
            self.holder = api.m.MetaModule(project=self.p)
            self.holder.user_defined_controllers = 8
            for i in range(8):
                self.holder.mappings.values[i] = self.holder.Mapping((i + 1, rng.randrange(3)))
            res.count("worlds_inside_a_metamodule")
        self.slots = ["Output"]          # model: names or None
        self.patterns = []               # model: ("P", name) | ("C", source) | None
        self.counter = 0
        def labelled_metamodule(**kw):
            # a MetaModule whose exposed controllers are labelled with words that are also attribute names of modules
            mm = api.m.MetaModule(**kw)
            mm.user_defined_controllers = 4
            for i, word in enumerate(rng.sample(["Index", "Parent", "Name", "X", "Y", "Layer", "Project", "Flags"], 4)):
                mm.user_defined[i].label = word
            return mm
        from .. import workload as _workload
        self.types = [api.m.Amplifier, api.m.Generator, api.m.Filter, api.m.MultiSynth, api.m.Lfo, labelled_metamodule, api.m.Sampler] + _workload.containerish_types()
        class CountingProject(api.Project):
            """An application's Project subclass with a length (number of patterns carrying notes): zero right now."""

            def __len__(self):
                return 0
        self.other = (api.Project if rng.random() < 0.5 else CountingProject)()       # the foreign project
        self.other_mod = self.other.new_module(api.m.Amplifier, name="foreign")
        self.other_pat = api.Pattern(name="foreignpat", tracks=1, lines=1)
        self.other.attach_pattern(self.other_pat)
        self.other_clone = api.PatternClone(source=0)
        self.other.attach_pattern(self.other_clone)
        self.history = []

    def fresh_name(self):
        self.counter += 1
        return f"m{self.counter}"

    # ---- observation
    def observed_slots(self):
        return [None if m is None else m.name for m in self.p.modules]

    def observed_patterns(self):
        out = []
        for q in self.p.patterns:
            if q is None:
                out.append(None)
            elif isinstance(q, self.api.PatternClone):
                out.append(("C", q.source))
            else:
                out.append(("P", q.name))
        return out

    def check(self, op):
        res = self.res
        res.count("ops")
        res.hist("ops_by_kind", op[0])
        self.history.append(op)
        case = {"history": self.history[-40:], "model_slots": list(self.slots)}
        probs = monitors.index_coherent(self.p)
        res.count("invariant_evaluations")
        if probs:
            res.violation(f"C14:incoherent:{op[0]}", f"after {op}: {probs[:3]}", case)
            return False
        if self.observed_slots() != self.slots:
            res.violation(f"C14:slots:{op[0]}", f"after {op}: module list {self.observed_slots()} != model {self.slots}", case)
            return False
        if self.observed_patterns() != self.patterns:
            res.violation(f"C14:patterns:{op[0]}", f"after {op}: pattern list {self.observed_patterns()} != model {self.patterns}", case)
            return False
        # the foreign project is never affected
        if self.other.modules[1] is not self.other_mod or self.other_mod.parent is not self.other or self.other_mod.index != 1 \
                or len(self.other.modules) != 2 or self.other.patterns != [self.other_pat, self.other_clone] \
                or self.other_pat.project is not self.other or self.other_clone.project is not self.other:
            res.violation(f"C14:foreign-changed:{op[0]}", f"after {op}: the other project/module/pattern was modified", case)
            return False
        res.seen("occupancy_patterns", "".join("x" if s else "." for s in self.slots))
        return True

    # ---- model helpers
    def model_attach(self, name):
        if None in self.slots:
            i = self.slots.index(None)
            self.slots[i] = name
            self.res.count("gap_fills")
            return i
        self.slots.append(name)
        self.res.count("appends")
        return len(self.slots) - 1

    # ---- operations
    def op_new_module(self):
        name = self.fresh_name()
        cls = self.rng.choice(self.types)
        m = self.p.new_module(cls, name=name)
        i = self.model_attach(name)
        ok = self.check(("new_module", cls.__name__, name))
        if ok and m.index != i:
            self.res.violation("C14:index:new_module", f"new module {name} has index {m.index}, model position {i}", {"history": self.history[-40:]})
            return False
        return ok

    def op_attach_fresh(self, via):
        name = self.fresh_name()
        cls = self.rng.choice(self.types)
        r = self.rng.random()
        if r < 0.2:
            m = cls(name=name, parent=self.p)       # the constructor accepts the owning project as a keyword
            self.res.count("constructed_with_parent_keyword")
        elif r < 0.3:
            m = cls(name=name, parent=self.p, index=self.rng.randint(0, 5))
            self.res.count("constructed_with_parent_keyword")
        else:
            m = cls(name=name)
        if via == "iadd":
            self.p += m
        else:
            r = self.p.attach_module(m)
            if r is not m:
                self.res.violation("C14:attach-return", "attach_module did not return the module", {"history": self.history[-40:]})
        self.model_attach(name)
        return self.check((f"attach_fresh_{via}", cls.__name__, name))

    def op_attach_dup(self, via):
        live = [m for m in self.p.modules if m is not None]
        m = self.rng.choice(live)
        self.res.count("duplicate_attaches")
        if via == "iadd":
            self.p += m
        elif self.rng.random() < 0.4:
            via = "attach-loading"
            self.p.attach_module(m, loading=True)
        else:
            self.p.attach_module(m)
        return self.check((f"attach_dup_{via}", m.name))

    def op_attach_foreign(self, via):
        from rv.errors import ModuleOwnershipError
        self.res.count("foreign_refusals")
        try:
            if via == "iadd":
                self.p += self.other_mod
            elif self.rng.random() < 0.4:
                via = "attach-loading"
                self.p.attach_module(self.other_mod, loading=True)      # (the loader's own keyword is part of the signature)
            else:
                self.p.attach_module(self.other_mod)
        except ModuleOwnershipError:
            return self.check((f"attach_foreign_{via}",))
        self.res.violation(f"C14:foreign-accepted:{via}", "a module owned by another project was accepted", {"history": self.history[-40:]})
        return False

    def op_new_module_foreign(self):
        """new_module is an attach like any other: a module that belongs elsewhere (constructor keyword parent=<other project>,
        or a factory handing back a module of the other project) is refused and nothing changes."""
        from rv.errors import ModuleOwnershipError
        kind = self.rng.choice(("parent-keyword", "factory"))
        self.res.count("foreign_refusals")
        before_other = (list(self.other.modules), self.other_mod.parent, self.other_mod.index)
        try:
            if kind == "parent-keyword":
                self.p.new_module(self.rng.choice(self.types), parent=self.other, name=self.fresh_name())
            else:
                self.p.new_module(lambda **kw: self.other_mod)
        except ModuleOwnershipError:
            pass
        except Exception as e:
            self.res.violation(f"C14:foreign-wrong-error:new_module:{type(e).__name__}", f"new_module ({kind}) with a module owned elsewhere raised {e!r}", {"history": self.history[-40:]})
            return False
        else:
            self.res.violation(f"C14:foreign-accepted:new_module-{kind}", "new_module accepted a module owned by another project", {"history": self.history[-40:]})
            return False
        if (list(self.other.modules), self.other_mod.parent, self.other_mod.index) != before_other:
            self.res.violation("C14:foreign-refused-but-changed:new_module", "the refused new_module changed the other project", {"history": self.history[-40:]})
            return False
        return self.check(("new_module_foreign", kind))

    def op_second_output(self):
        """An Output constructed by hand is a module like any other as far as positions go: accepted or refused, the
        project stays coherent (refused => nothing changed).  Files with two outputs are not this property's business,
        so the world stops saving afterwards."""
        n_before = self.observed_slots()
        o = self.api.m.Output()
        try:
            if self.rng.random() < 0.5:
                self.p.attach_module(o)
            else:
                self.p += o
            accepted = True
        except Exception:
            accepted = False
        if accepted:
            self.no_more_saves = True
            self.model_attach("Output")
            self.res.count("observation_second_output_accepted")
        else:
            self.res.count("observation_second_output_refused")
            if self.observed_slots() != n_before or o.parent is not None:
                self.res.violation("C14:refused-but-changed:second-output", f"a refused Output was left behind: positions {self.observed_slots()}, its parent {o.parent!r}", {"history": self.history[-40:]})
                return False
        return self.check(("second_output", accepted))

    def op_attach_none(self):
        self.p.attach_module(None)
        self.slots.append(None)
        return self.check(("attach_none",))

    def op_iadd_list(self):
        from rv.errors import ModuleOwnershipError, PatternOwnershipError
        items, desc = [], []
        with_foreign = self.rng.random() < 0.4
        k = self.rng.randint(1, 4)
        pos_foreign = self.rng.randrange(k) if with_foreign else None
        expect_error = False
        for j in range(k):
            if j == pos_foreign:
                items.append(self.other_mod)
                desc.append("FOREIGN")
                expect_error = True
                continue
            kind = self.rng.choice(("mod", "mod", "pat", "dup", "dup-fresh"))
            fresh_here = [x for x in items if isinstance(x, self.api.m.Module) and x is not self.other_mod and x.parent is None]
            if kind == "dup-fresh" and fresh_here:
                # a module that appears a second time in the very list that attaches it
                m = self.rng.choice(fresh_here)
                items.append(m)
                desc.append("dup-fresh:" + m.name)
                self.res.count("iadd_lists_with_repeated_new_module")
                continue
            if kind == "dup-fresh":
                kind = "mod"
            if kind == "mod":
                name = self.fresh_name()
                items.append(self.rng.choice(self.types)(name=name))
                desc.append(name)
                if not expect_error:
                    self.model_attach(name)
            elif kind == "pat":
                name = self.fresh_name()
                items.append(self.api.Pattern(name=name, tracks=2, lines=2))
                desc.append("pat:" + name)
                if not expect_error:
                    self.patterns.append(("P", name))
            else:
                live = [m for m in self.p.modules if m is not None]
                m = self.rng.choice(live)
                items.append(m)
                desc.append("dup:" + m.name)
        if with_foreign:
            self.res.count("foreign_refusals")
        try:
            if items and all(isinstance(x, self.api.m.Module) for x in items) and self.rng.random() < 0.4:
                # the library's own list type for groups of modules (what `>>` returns), bound to this project
                from rv.modules.module import ModuleList
                self.p += ModuleList(self.p, items)
                desc.append("as-ModuleList")
                self.res.count("iadd_module_lists")
            elif self.rng.random() < 0.2:
                self.p += list(items)          # (`+=` takes a module, a pattern or a LIST of them; other iterables are not part of it)
            else:
                self.p += items
            raised = False
        except ModuleOwnershipError:
            raised = True
        if raised != expect_error:
            self.res.violation("C14:iadd-list-error", f"+= {desc}: raised={raised}, expected={expect_error}", {"history": self.history[-40:]})
            return False
        return self.check(("iadd_list", desc))

    def op_attach_pattern(self):
        from rv.errors import PatternOwnershipError
        kind = self.rng.choice(("pattern", "pattern", "clone", "none", "foreign", "foreign-clone", "dup", "iadd"))
        if kind in ("pattern", "iadd"):
            name = self.fresh_name()
            pat = self.api.Pattern(name=name, tracks=self.rng.randint(1, 4), lines=self.rng.randint(1, 8))
            if kind == "iadd":
                self.p += pat
            else:
                idx = self.p.attach_pattern(pat)
                if idx != len(self.patterns):
                    self.res.violation("C14:attach_pattern-index", f"attach_pattern returned {idx}, expected {len(self.patterns)}", {"history": self.history[-40:]})
            self.patterns.append(("P", name))
        elif kind == "clone":
            src = self.rng.randrange(max(1, len(self.patterns)))
            self.p.attach_pattern(self.api.PatternClone(source=src))
            self.patterns.append(("C", src))
        elif kind == "none":
            self.p.attach_pattern(None)
            self.patterns.append(None)
        elif kind in ("foreign", "foreign-clone"):
            self.res.count("foreign_refusals")
            victim = self.other_pat if kind == "foreign" else self.other_clone
            try:
                if self.rng.random() < 0.5:
                    self.p.attach_pattern(victim)
                else:
                    self.p += victim
            except PatternOwnershipError:
                pass
            else:
                self.res.violation(f"C14:{kind}-pattern-accepted", f"a {'pattern clone' if kind == 'foreign-clone' else 'pattern'} owned by another project was accepted", {"history": self.history[-40:]})
                return False
        elif kind == "dup":
            live = [q for q in self.p.patterns if q is not None]
            if not live:
                return True
            q = self.rng.choice(live)
            try:
                self.p.attach_pattern(q)
            except PatternOwnershipError:
                self.res.count("observation_duplicate_pattern_refused")
            else:
                self.res.count("observation_duplicate_pattern_accepted")
                self.patterns = self.observed_patterns()  # unspecified: adopt
        return self.check(("attach_pattern", kind))

    def op_note_mod(self):
        from rv.errors import ModuleOwnershipError
        pats = [q for q in self.p.patterns if isinstance(q, self.api.Pattern)]
        if not pats:
            return True
        q = self.rng.choice(pats)
        how = self.rng.choice(("as-is", "as-is", "fn", "gen", "gen-scribble"))
        if how != "as-is":
            # the pattern's cells are replaced in bulk first; whatever cell objects it holds afterwards resolve modules
            # through the owning project all the same
            Note = self.api.Note
            if how == "fn":
                q.set_via_fn(lambda pat, l, t: Note(module=self.rng.randint(0, len(self.slots) + 1)) if (l + t) % 2 else pat.data[l][t])
            else:
                def g(pat, new, scribble=(how == "gen-scribble")):
                    for l in range(pat.lines):
                        for t in range(pat.tracks):
                            if scribble and (l + t) % 2 == 0:
                                new[l][t] = Note(module=self.rng.randint(0, len(self.slots) + 1))   # discouraged but documented
                            elif self.rng.random() < 0.5:
                                yield l, t, Note(module=self.rng.randint(0, len(self.slots) + 1))
                q.set_via_gen(g)
            self.res.hist("note_mod_after_bulk_edit", how)
        note = q.data[self.rng.randrange(q.lines)][self.rng.randrange(q.tracks)]
        self.res.count("note_mod_checks")
        if self.rng.random() < 0.5:
            k = self.rng.choice([0, 1, len(self.slots), len(self.slots) + 1, len(self.slots) + 5, self.rng.randint(0, len(self.slots))])
            if self.rng.random() < 0.6:
                # whatever the cell's command column holds (a note, note-off, the project-wide commands ...), the module column
                # names a position
                note.note = self.api.NOTECMD(self.rng.choice([0, 1, 60, 120, 128, 129, 130, 131, 132, 133, 134]))
                self.res.hist("note_mod_command_column", int(note.note))
            note.module = k
            try:
                got = note.mod
            except Exception as e:
                self.res.violation(f"C14:note-mod-raises:{type(e).__name__}", f"note.mod on a cell of an attached pattern (cells last replaced {how}) raised {e!r}",
                                   {"history": self.history[-40:], "k": k, "how": how})
                return False
            want = None
            if k > 0 and k - 1 < len(self.slots):
                want = self.p.modules[k - 1]
                if (want.name if want is not None else None) != self.slots[k - 1]:
                    want = "model-mismatch"
            if got is not want:
                self.res.violation("C14:note-mod-get", f"note.module={k}: note.mod is {got!r}, expected the module at position {k - 1} ({self.slots[k - 1] if 0 < k <= len(self.slots) else None})",
                                   {"history": self.history[-40:], "k": k})
                return False
        else:
            live = [m for m in self.p.modules if m is not None]
            m = self.rng.choice(live)
            if self.rng.random() < 0.5:
                note.mod = m
            else:
                note.module = int(m)        # int(module) is documented as the number to put into a pattern
            if note.module != m.index + 1 or note.mod is not m:
                self.res.violation("C14:note-mod-set", f"note.mod = module at {m.index}: note.module={note.module}, note.mod={note.mod!r}", {"history": self.history[-40:]})
                return False
            # unattached module is refused
            try:
                note.mod = self.api.m.Amplifier()
            except ModuleOwnershipError:
                pass
            else:
                self.res.violation("C14:note-mod-unattached", "note.mod accepted a module without project", {"history": self.history[-40:]})
                return False
        return self.check(("note_mod",))

    def op_legacy_reload(self):
        """A file stamped with a SunVox version below 1.9.5.0: the module column of its cells is one byte wide (the high byte is
        documented as junk there) - for EVERY cell, also one that holds nothing but a module number."""
        if getattr(self, "no_more_saves", False) or len(self.slots) > 250:
            return True
        pats = [q for q in self.p.patterns if isinstance(q, self.api.Pattern)]
        live = [m for m in self.p.modules if m is not None]
        if not pats or not live:
            return True
        q = self.rng.choice(pats)
        m = self.rng.choice(live)
        ln, tr = self.rng.randrange(q.lines), self.rng.randrange(q.tracks)
        n = q.data[ln][tr]
        n.note, n.vel, n.ctl, n.val = self.api.NOTECMD(0), 0, 0, 0
        if self.rng.random() < 0.5:
            n.vel = 64
        n.module = (m.index + 1) | (self.rng.randrange(1, 256) << 8)
        keep = self.p.sunvox_version
        self.p.sunvox_version = self.rng.choice([(1, 9, 4, 0), (1, 7, 0, 0), (1, 9, 4, 255)])
        raw = self.p.read()
        self.p.sunvox_version = keep
        n.module = m.index + 1
        loaded = self.api.read_sunvox_file(BytesIO(raw))
        self.res.count("legacy_reloads")
        pi = self.p.patterns.index(q)
        got = loaded.patterns[pi].data[ln][tr]
        if got.module != m.index + 1 or got.mod is not loaded.modules[m.index]:
            self.res.violation("C14:note-mod-legacy-file", f"file stamped below 1.9.5.0: cell ({ln},{tr}) module column loads as {got.module:#x} -> {got.mod!r}, expected position {m.index} "
                                                           f"({'module-only cell' if not got.vel else 'cell with velocity'})", {"history": self.history[-40:]})
            return False
        return self.check(("legacy_reload",))

    def op_empty_by_hand(self):
        """The application empties a position itself (`project.modules[i] = None`, the only way to take a module out).  The next
        attachment takes the lowest empty position as always; the removed object, offered again, is attached like any module."""
        # (only modules nothing is wired to: taking a wired module out by hand leaves links that name an empty position - the
        #  application's own inconsistency, nothing to judge)
        def unwired(i, m):
            if any(x != -1 for x in list(m.in_links) + list(m.out_links)):
                return False
            return not any(o is not None and (i in o.in_links or i in o.out_links) for o in self.p.modules)
        idx = [i for i, m in enumerate(self.p.modules) if m is not None and i > 0 and unwired(i, m)]
        if not idx:
            return True
        i = self.rng.choice(idx)
        old = self.p.modules[i]
        self.p.modules[i] = None
        name = self.slots[i]
        self.slots[i] = None
        self.res.count("positions_emptied_by_hand")
        # (the removed object still says it belongs here: the application has to clear that itself before using it elsewhere)
        how = self.rng.choice(("leave", "reattach", "reattach-after-another"))
        if how == "leave":
            old.parent, old.index = None, None
            return self.check(("empty_by_hand", i, how))
        if how == "reattach-after-another":
            name2 = self.fresh_name()
            self.p.new_module(self.api.m.Filter, name=name2)
            self.model_attach(name2)
        old.parent, old.index = None, None
        self.p.attach_module(old)
        self.model_attach(name)
        return self.check(("empty_by_hand", i, how))

    def op_wiring(self):
        """Modules get wired between attachments (single pairs, fan-out, fan-in, operators, disconnects): wiring never moves
        anything, and the next attachment still takes the lowest empty position."""
        mods = [m for m in self.p.modules if m is not None]
        if len(mods) < 2:
            return True
        rng = self.rng
        a = rng.choice(mods)
        some = rng.sample(mods, min(len(mods), rng.randint(1, 3)))
        form = rng.choice(("pair", "fan-out", "fan-in", "rshift-list", "lshift-list", "disconnect", "lists"))
        try:
            if form == "pair":
                self.p.connect(a, some[0])
            elif form == "fan-out":
                self.p.connect(a, some)
            elif form == "fan-in":
                self.p.connect(some, a)
            elif form == "rshift-list":
                a >> some
            elif form == "lshift-list":
                a << some
            elif form == "lists":
                self.p.connect(some, list(reversed(some)))
            else:
                self.p.disconnect(a, some[0]) if hasattr(self.p, "disconnect") else self.p.connect(~a, some)
        except Exception as e:
            self.res.count("wiring_refused")
            self.res.hist("wiring_refused_why", type(e).__name__)
        self.res.count("wiring_ops")
        return self.check(("wiring", form, len(some)))

    def op_save_load(self):
        if getattr(self, "no_more_saves", False):
            return True
        raw = self.p.read()
        self.p = self.api.read_sunvox_file(BytesIO(raw))
        while self.slots and self.slots[-1] is None:
            self.slots.pop()
        self.res.count("save_loads")
        return self.check(("save_load",))

    def step(self):
        r = self.rng.random()
        via = self.rng.choice(("attach", "iadd"))
        if r < 0.18:
            return self.op_new_module()
        if r < 0.32:
            return self.op_attach_fresh(via)
        if r < 0.40:
            return self.op_attach_dup(via)
        if r < 0.45:
            return self.op_attach_foreign(via)
        if r < 0.47:
            return self.op_new_module_foreign()
        if r < 0.48:
            return self.op_second_output()
        if r < 0.58:
            return self.op_attach_none()
        if r < 0.68:
            return self.op_iadd_list()
        if r < 0.80:
            return self.op_attach_pattern()
        if r < 0.90:
            return self.op_note_mod()
        if r < 0.93:
            return self.op_legacy_reload()
        if r < 0.955:
            return self.op_wiring()
        if r < 0.97:
            return self.op_empty_by_hand()
        return self.op_save_load()


def start_state(world, mask, loaded):
    """Occupy slots 1..len(mask) according to mask (True = module, False = empty) via the loading path."""
    for bit in mask:
        if bit:
            name = world.fresh_name()
            m = world.rng.choice(world.types)(name=name)
            world.p.attach_module(m, loading=True)
            world.slots.append(name)
        else:
            world.p.attach_module(None, loading=True)
            world.slots.append(None)
    world.history.append(("start", "".join("x" if b else "." for b in mask), "loaded" if loaded else "built"))
    if not world.check(("start_state",)):
        return False
    if loaded:
        return world.op_save_load()
    return True


def big_song_note_references(res, rng):
    """A song with more than 256 modules whose notes address the late ones; its header says it was written by a current SunVox
    but is BASED ON an older one (a legacy song opened and saved again): after save/load every note still resolves to the module
    at the position it named."""
    import rv.api as api
    for based_on in ((1, 9, 4, 0), (1, 7, 0, 0), (1, 9, 5, 0), (2, 1, 2, 1)):
        p = api.Project()
        for i in range(300):
            p.new_module(api.m.Amplifier, name=f"a{i}")
        pat = api.Pattern(tracks=2, lines=4)
        p.attach_pattern(pat)
        picks = [299, 255, 256, 300, 43, 1, 257, 128]
        for k, pos in enumerate(picks):
            pat.data[k % 4][k // 4].mod = p.modules[pos]
        p.based_on_version = based_on
        case = {"family": "big-song-note-references", "based_on_version": list(based_on), "sunvox_version": list(p.sunvox_version)}
        res.count("big_song_note_reference_cases")
        try:
            q = api.read_sunvox_file(BytesIO(p.read()))
            got = [q.patterns[0].data[k % 4][k // 4].mod for k in range(len(picks))]
        except Exception as e:
            res.violation(f"C14:note-mod-raises:{type(e).__name__}", f"song with 300 modules based on {based_on}: {e!r}", case)
            continue
        for pos, g in zip(picks, got):
            if g is not q.modules[pos]:
                res.violation("C14:note-mod:after-load", f"song written by {p.sunvox_version} based on {based_on}: the note that named position {pos} resolves to "
                                                         f"{None if g is None else g.index} after save/load", case)
                break


def run_shard(spec_, res):
    if spec_.get("part") == "soak":
        from .. import soak
        for s_ in spec_["soak_seeds"]:
            soak.run(res, s_, spec_["tier"], PROPERTY, SOAK_KINDS, spec_["steps"])
        return
    rng = random.Random(spec_["seed"])
    monitors.install()
    masks = [m for k in range(0, 6) for m in itertools.product((False, True), repeat=k)]
    nseq = spec_["sequences"]
    for s in range(nseq):
        w = World(res, rng)
        idx = s * spec_["n_shards"] + spec_["shard"]
        mask = masks[idx % len(masks)]
        loaded = (idx // len(masks)) % 2 == 1
        res.case((spec_["seed"], s))
        if not start_state(w, mask, loaded):
            continue
        res.seen("start_masks", ("L" if loaded else "B") + "".join("x" if b else "." for b in mask))
        for _ in range(rng.randint(1, 30)):
            res.evaluations += 1
            if not w.step():
                break
            res.digests.add(hash((tuple(w.slots), w.history[-1][0])) & 0xFFFFFFFFFFFF)
        if s == 0:
            res.sample({"start_mask": "".join("x" if b else "." for b in mask), "loaded": loaded, "history": w.history[:8], "final_slots": w.slots})
    if spec_["tier"] == "thorough" and spec_["shard"] == 0:
        from ._repo_suite import ambient_under_repo_tests
        ambient_under_repo_tests(res, PROPERTY, ["index_coherent"])
    if spec_["shard"] == 0:
        big_song_note_references(res, rng)
    # several threads: some load files (also old-version ones), others attach to their own gapped projects and write note
    # images with 16-bit module numbers - switching at I/O calls (rvmon.sched)
    if spec_["shard"] % 2 == 1:
        from .. import threadtasks
        threadtasks.run_loads(res, PROPERTY, random.Random(spec_["seed"] + 17), spec_["seed"], spec_["tier"], 8 if spec_["tier"] == "quick" else 60)
    for name, msg in monitors.take_failures():
        res.violation(f"C14:ambient:{name}", msg, {"monitor": name})
    res.count("ambient_invariant_evaluations", monitors.COUNTERS.get("index_coherent.evaluations", 0))


def finalize(merged, tier):
    n = merged["sets"].get("start_masks", set())
    want = 2 * sum(2 ** k for k in range(6))
    merged["exhaustive"] = len(n) == want
    if len(n) != want:
        merged["inconclusive"].append(f"only {len(n)} of {want} start states were used")


def replay(case, res):
    res.inconclusive.append("C14 replays by re-running the shard with the recorded seed (history is in the replay file)")


# ------------------------------------------------------------------ soak slice (rvmon.soak): long mixed histories on a pool of objects
SOAK_KINDS = ['structure']


def plan(tier, seed):
    specs = _plan_core(tier, seed)
    k = 2 if tier == "quick" else 8
    for i in range(k):
        specs.append({"tier": tier, "part": "soak", "soak_seeds": [seed * 100003 + 1000 * i + j for j in range(8 if tier == "quick" else 40)],
                      "steps": 150 if tier == "quick" else 300, "seed": seed, "shard": 1000 + i})
    return specs
