"""C19 - bulk pattern edits are all-or-nothing and notes stay owned by their pattern (fault enumeration)."""
import random

from .. import env

PROPERTY = "C19"
LEVEL = "fault_enumeration"
RULE = ("one case = one bulk edit (set_via_fn or set_via_gen) on a real pattern, either completing or failing at an injected point "
        "(fn: every (line, track) cell; gen: after every yield count, optionally after scribbling on the scratch array); the wrapper "
        "monitor compares raw_data before/after on failure and cell contents + note ownership after success; distinct = distinct "
        "(shape, setter, fault point, attached?, chain position) tuples; non-trivial = all")
EXHAUSTIVE_AXIS = "all shapes up to 8x8: a fault at every cell (fn) and after every yield count (gen), attached and unattached"
ASSUMPTIONS = [
    "'contents exactly as before' is judged on Pattern.raw_data and the shape of Pattern.data; whether the very same Note objects remain is recorded as an observation",
    "a generator may scribble on the scratch array it is handed (documented as discouraged but possible): on success those cells are part of the result, on failure nothing may change",
    "project-aware accessors are exercised after success: note.pattern is the pattern, note.project is its project, note.mod resolves on attached patterns",
]
REQUIRED_COUNTERS = ["edits_failed_injected", "edits_succeeded", "ownership_checks", "atomicity_checks"]


class Injected(Exception):
    pass


class InjectedBase(BaseException):
    """A failure that is not an Exception subclass (like KeyboardInterrupt raised from the callable)."""


_SHAPES = [0]


class NonNote(Exception):
    """Not raised: stands for 'the callable fails by handing over something that is not a note' (None)."""


FAULT_TYPES = [Injected, StopIteration, InjectedBase, ZeroDivisionError, KeyError, NonNote]
CAUGHT = (Injected, StopIteration, InjectedBase, ZeroDivisionError, KeyError, RuntimeError)


def plan(tier, seed):
    specs = []
    shapes = [(t, l) for t in range(1, 9) for l in range(1, 9)]
    n = 4 if tier == "quick" else 16
    for i in range(n):
        specs.append({"tier": tier, "part": "exhaustive", "shapes": shapes[i::n], "seed": env.shard_seed(i)})
    for i in range(2 if tier == "quick" else 16):
        specs.append({"tier": tier, "part": "random", "n": 150 if tier == "quick" else 1500, "seed": env.shard_seed(100 + i)})
    return specs


def make_note(rng, api):
    from rv.note import NOTECMD
    vals = _NOTEVALS
    cls = api.Note
    if rng.random() < 0.12:
        # an application's own note class, defined where it is used (not importable by name)
        class TaggedNote(api.Note):
            tag = "app"
        cls = TaggedNote
        if rng.random() < 0.5:
            # ... one that says of itself whether it holds anything (an empty cell is falsy, has length 0)
            class SizedNote(api.Note):
                def __bool__(self):
                    return not self.is_empty()

                def __len__(self):
                    return 0 if self.is_empty() else 1
            cls = SizedNote
            if rng.random() < 0.5:
                return cls()            # an empty cell, supplied to blank what was there
    return cls(note=NOTECMD(rng.choice(vals)), vel=rng.randint(0, 129), module=rng.randrange(65536),
                    ctl=rng.randrange(65536), val=rng.randrange(65536))


_NOTEVALS = None


def new_pattern(rng, api, tracks, lines, attached, shrink=True):
    p = api.Pattern(tracks=tracks, lines=lines)
    # pre-fill with recognisable content
    for ln in range(lines):
        for tr in range(tracks):
            n = p.data[ln][tr]
            style = rng.randrange(6)
            if style == 0:
                n.module = 1 + (ln * tracks + tr) % 0xFFFE       # a cell with nothing but a module number
            elif style == 1:
                n.note = api.NOTECMD(rng.choice(_NOTEVALS[1:]))
            elif style == 2:
                pass                                             # empty cell
            else:
                n.vel = (ln * tracks + tr) % 130
                n.module = rng.randrange(65536) if style == 3 else 0
                n.ctl = rng.randrange(65536)
                n.val = (ln << 8 | tr) & 0xFFFF
    if rng.random() < 0.15:
        # contents and header fields as FILES carry them (legal there, never produced by the constructors): velocity bytes above
        # 129 in some cells, an icon that is not 32 bytes, given by plain assignment
        import struct as _struct
        for _k in range(rng.randint(1, 3)):
            n = p.data[rng.randrange(lines)][rng.randrange(tracks)]
            n.raw_data = _struct.pack("<BBHHH", rng.choice([0, 1, 60, 128]), rng.randint(130, 255), rng.randrange(65536), rng.randrange(65536), rng.randrange(65536))
        if rng.random() < 0.5:
            p.icon = bytes(rng.choice([0, 16, 31, 33]))
    if shrink and rng.random() < 0.12 and (lines > 1 or tracks > 1):
        # the pattern is made smaller after its notes exist ("edit only the first N lines"): the cells beyond stay where they are
        if lines > 1 and rng.random() < 0.6:
            p.lines = rng.randint(1, lines - 1)
        else:
            p.tracks = rng.randint(1, max(1, tracks - 1))
    proj = None
    if attached:
        proj = api.Project()
        proj.new_module(api.m.Amplifier)
        if rng.random() < 0.3:
            # applications hang their own things on the objects: a callback, a handle, a locally defined helper object
            proj.on_change = lambda *a: None
            proj.app_state = type("AppState", (), {"pattern": p})()
        if rng.random() < 0.5:
            # a project with the heavier module types (curves, embedded projects, samples) that has been saved before
            for cls in rng.sample([api.m.MultiSynth, api.m.MetaModule, api.m.Sampler, api.m.WaveShaper, api.m.MultiCtl, api.m.SpectraVoice, api.m.Fmx], 3):
                proj.new_module(cls)
            proj.attach_pattern(p)
            proj.read()
            return p, proj
        proj.attach_pattern(p)
    return p, proj


def ownership_ok(res, pat, proj, case, setter):
    res.count("ownership_checks")
    for ln, line in enumerate(pat.data):
        for tr, note in enumerate(line):
            if note.pattern is not pat:
                res.violation(f"C19:ownership:{setter}", f"after a successful {setter} cell ({ln},{tr}).pattern is {'None' if note.pattern is None else 'another object'}", case)
                return False
    # project-aware accessors keep working
    note = pat.data[0][0]
    try:
        pr = note.project
        if pr is not proj:
            res.violation(f"C19:note-project:{setter}", f"note.project is {pr!r}, expected the owning project", case)
            return False
        if proj is not None:
            note.module = 2
            if note.mod is not proj.modules[1]:
                res.violation(f"C19:note-mod:{setter}", "note.mod does not resolve to the module at its position", case)
                return False
    except Exception as e:
        res.violation(f"C19:accessor-raises:{setter}", f"project-aware accessor raised {e!r} after a successful {setter}", case)
        return False
    return True


def edit(res, rng, api, pat, proj, setter, fault_at, scribble, dup_yield, case, scroll=False):
    """Perform one bulk edit with an optional injected fault. Returns True if no violation."""
    tracks, lines = pat.tracks, pat.lines           # the DECLARED shape: what the bulk setters walk
    glines, gtracks = len(pat.data), len(pat.data[0]) if pat.data else 0     # the grid that exists (larger after the pattern was made smaller)
    before_raw = pat.raw_data
    before_ids = [[id(n) for n in line] for line in pat.data]
    before_cells = [[n.raw_data for n in line] for line in pat.data]
    expected = [row[:] for row in before_cells]
    counter = {"n": 0}
    # which exception the callable fails with is part of the fault (a generator cannot leak StopIteration: PEP 479 turns it into RuntimeError)
    shared_note = make_note(rng, api) if (not scroll and rng.random() < 0.25) else None
    if shared_note is not None:
        res.count("edits_supplying_one_note_object_for_many_cells")
    fault_type = FAULT_TYPES[(fault_at or 0) % len(FAULT_TYPES)] if fault_at is not None else Injected
    res.hist("fault_exception_types", fault_type.__name__) if fault_at is not None else None

    if setter == "fn":
        def fn(p, ln, tr):
            k = counter["n"]
            counter["n"] += 1
            if fault_at is not None and k == fault_at:
                if fault_type is NonNote:
                    counter["n"] += 0
                    return None
                raise fault_type(f"cell {k}")
            if p is not pat:
                raise AssertionError("fn called with a different pattern")
            if scroll:
                # the pattern's own live cell objects, moved one line up (each object ends up in exactly one cell)
                note = p.data[(ln + 1) % lines][tr]
                expected[ln][tr] = before_cells[(ln + 1) % lines][tr]
                return note
            if shared_note is not None and (ln + tr) % 3 == 0:
                expected[ln][tr] = shared_note.raw_data          # one Note object supplied for many cells (a shared "rest")
                return shared_note
            note = make_note(rng, api)
            expected[ln][tr] = note.raw_data
            return note
        _SHAPES[0] += 1
        shape = _SHAPES[0] % 3
        if shape == 1:
            import functools
            call = lambda: pat.set_via_fn(functools.partial(lambda extra, p_, l_, t_: fn(p_, l_, t_), None))      # no __name__
        elif shape == 2:
            class _Callable:
                def __call__(self, p_, l_, t_):
                    return fn(p_, l_, t_)
            call = lambda: pat.set_via_fn(_Callable())
        else:
            call = lambda: pat.set_via_fn(fn)
    else:
        cells = [(ln, tr) for ln in range(lines) for tr in range(tracks)]
        rng.shuffle(cells)
        cells = cells[:rng.randint(0, len(cells))] if fault_at is None and not scroll else cells
        if dup_yield and cells:
            cells = cells + [cells[0]]

        def gen(p, new):
            for (ln, tr) in cells:
                if scribble:
                    s_ln, s_tr = rng.randrange(lines), rng.randrange(tracks)
                    if shared_note is not None or rng.random() < 0.5:     # (an in-place change of a SHARED note object would show in every cell holding it)
                        n2 = make_note(rng, api)
                        new[s_ln][s_tr] = n2
                    else:
                        # the note object found in the working array is changed IN PLACE (documented as possible)
                        n2 = new[s_ln][s_tr]
                        n2.vel = (n2.vel + 1 + rng.randrange(100)) % 130
                        n2.val = rng.randrange(65536)
                        # an earlier edit may have put ONE note object into several cells: the working array keeps that
                        # sharing, so the in-place change shows in each of them
                        for l_ in range(lines):
                            for t_ in range(tracks):
                                if new[l_][t_] is n2:
                                    expected[l_][t_] = n2.raw_data
                    expected[s_ln][s_tr] = n2.raw_data
                if fault_at is not None and counter["n"] == fault_at:
                    if fault_type is NonNote:
                        counter["n"] += 1
                        yield ln, tr, None
                        continue
                    raise fault_type(f"yield {counter['n']}")
                counter["n"] += 1
                if scroll:
                    note = p.data[(ln + 1) % lines][tr]
                    expected[ln][tr] = before_cells[(ln + 1) % lines][tr]
                elif shared_note is not None and (ln + tr) % 3 == 0:
                    note = shared_note
                    expected[ln][tr] = note.raw_data
                else:
                    note = make_note(rng, api)
                    expected[ln][tr] = note.raw_data
                if glines == lines and gtracks == tracks and rng.random() < 0.1:
                    # cells counted from the end, as everywhere in Python ("the last line": -1)
                    yield (ln - lines if rng.random() < 0.7 else ln), (tr - tracks if rng.random() < 0.5 else tr), note
                    continue
                yield ln, tr, note
            if fault_at is not None and counter["n"] == fault_at and fault_type is not NonNote:
                raise fault_type("after last yield")
        _SHAPES[0] += 1
        shape = _SHAPES[0] % 4
        if shape == 1 and fault_at is None and not scribble:
            # the callable hands back a LIST (any iterable of (line, track, note) will do), built up front
            call = lambda: pat.set_via_gen(lambda p_, new_: list(gen(p_, new_)))
        elif shape == 2 and not scribble:
            call = lambda: pat.set_via_gen(lambda p_, new_: iter(list(gen(p_, new_))) if fault_at is None else gen(p_, new_))
        elif shape == 3:
            import functools
            call = lambda: pat.set_via_gen(functools.partial(lambda extra, p_, new_: gen(p_, new_), None))
        else:
            call = lambda: pat.set_via_gen(gen)

    try:
        r = call()
        raised = None
    except CAUGHT as e:
        raised = e
    except Exception as e:
        if fault_type is NonNote and fault_at is not None:
            raised = e                      # however the library reports the missing note: the edit did not complete
        else:
            res.violation(f"C19:unexpected-exception:{setter}", f"{setter} raised {e!r}", case)
            return False
    if raised is None and fault_at is not None and counter["n"] > fault_at and fault_type is not NonNote:
        # the callable DID fail (the fault point was reached) but the setter returned normally: the failure was swallowed
        res.count("edits_failed_injected")
        if pat.raw_data != before_raw:
            res.violation(f"C19:not-atomic:{setter}:swallowed-{fault_type.__name__}", f"{setter}: the callable failed with {fault_type.__name__} at {fault_at}, the setter returned normally and the pattern was partly replaced", case)
            return False
        return True
    if raised is not None:
        res.count("edits_failed_injected")
        res.count("atomicity_checks")
        if pat.raw_data != before_raw or [len(l) for l in pat.data] != [gtracks] * glines:
            changed = [(ln, tr) for ln in range(min(glines, len(pat.data))) for tr in range(min(gtracks, len(pat.data[ln]))) if pat.data[ln][tr].raw_data != before_cells[ln][tr]][:5]
            res.violation(f"C19:not-atomic:{setter}", f"{setter} failed at {raised} but cells {changed} changed", case)
            return False
        if [[id(n) for n in line] for line in pat.data] != before_ids:
            res.count("observation_note_identity_changed_on_failure")
        # ownership still intact after a failed edit
        if any(n.pattern is not pat for line in pat.data for n in line):
            res.violation(f"C19:ownership-after-failure:{setter}", "a failed edit left notes not owned by the pattern", case)
            return False
        return True
    res.count("edits_succeeded")
    if r is not pat:
        res.count("observation_setter_did_not_return_self")
    strangers = [(ln, tr, type(n).__name__) for ln, line in enumerate(pat.data) for tr, n in enumerate(line) if not isinstance(n, api.Note)]
    if strangers:
        res.violation(f"C19:non-note-installed:{setter}", f"after a {setter} that reported success, cells {strangers[:4]} hold objects that are not notes", case)
        return False
    got = [[n.raw_data for n in line] for line in pat.data]
    if [len(r_) for r_ in got] != [gtracks] * glines:
        res.violation(f"C19:untouched-cell-changed:{setter}", f"after successful {setter}: the grid is {len(got)} x {sorted(set(len(r_) for r_ in got))}, it was {glines} x {gtracks} "
                                                             f"(declared shape {lines} x {tracks}): cells the edit never visited are gone", case)
        return False
    if got != expected:
        diff = [(ln, tr) for ln in range(glines) for tr in range(gtracks) if got[ln][tr] != expected[ln][tr]][:5]
        kind = "untouched-cell-changed" if any(expected[ln][tr] == before_cells[ln][tr] for ln, tr in diff) else "wrong-note"
        res.violation(f"C19:{kind}:{setter}", f"after successful {setter}: cells {diff} differ from the notes supplied", case)
        return False
    return ownership_ok(res, pat, proj, case, setter)


def untouched_pattern_faults(res, rng, api, shapes):
    """A freshly constructed pattern whose cell grid was never read or written: its contents are, by definition,
    all-empty cells.  The monitor must not touch .data / .raw_data before the faulty edit (that would create the grid)."""
    for tracks, lines in shapes:
        cells = tracks * lines
        for setter in ("fn", "gen"):
            for attached in (False, True):
                for k in sorted({0, 1, cells // 2, cells - 1}):
                    if k < 0 or k >= cells:
                        continue
                    pat = api.Pattern(tracks=tracks, lines=lines)
                    if attached:
                        proj = api.Project()
                        proj.attach_pattern(pat)
                    counter = {"n": 0}
                    case = {"tracks": tracks, "lines": lines, "setter": setter, "fault_at": k, "attached": attached, "untouched": True}
                    res.case(("untouched", tracks, lines, setter, k, attached))
                    res.count("untouched_pattern_faults")

                    def fn(p, ln, tr):
                        i = counter["n"]
                        counter["n"] += 1
                        if i == k:
                            raise Injected("cell")
                        return make_note(rng, api)

                    def gen(p, new):
                        for ln in range(lines):
                            for tr in range(tracks):
                                if counter["n"] == k:
                                    raise Injected("yield")
                                counter["n"] += 1
                                yield ln, tr, make_note(rng, api)
                    try:
                        pat.set_via_fn(fn) if setter == "fn" else pat.set_via_gen(gen)
                    except Injected:
                        pass
                    res.count("edits_failed_injected")
                    res.count("atomicity_checks")
                    if pat.raw_data != bytes(8 * cells):
                        res.violation(f"C19:not-atomic:{setter}", f"{setter} on a never-touched {tracks}x{lines} pattern failed at {k} but the pattern is no longer empty", case)


def attached_during_the_edit(res, rng, api):
    """The callable itself attaches the (so far free) pattern to a project while the edit is under way (a builder that registers
    what it fills): after the successful edit the pattern belongs to that project in both directions."""
    for setter in ("fn", "gen"):
        for at in ("first-cell", "last-cell"):
            pat = api.Pattern(tracks=2, lines=3)
            proj = api.Project()
            proj.new_module(api.m.Amplifier)
            state = {"n": 0}
            case = {"setter": setter, "attached_at": at, "family": "attached-during-the-edit"}

            def maybe_attach():
                state["n"] += 1
                if (at == "first-cell" and state["n"] == 1) or (at == "last-cell" and state["n"] == 6):
                    proj.attach_pattern(pat)
            try:
                if setter == "fn":
                    def fn(p_, l_, t_):
                        maybe_attach()
                        return api.Note(vel=1 + l_ * 2 + t_)
                    pat.set_via_fn(fn)
                else:
                    def gen(p_, new_):
                        for l_ in range(3):
                            for t_ in range(2):
                                maybe_attach()
                                yield l_, t_, api.Note(vel=1 + l_ * 2 + t_)
                    pat.set_via_gen(gen)
            except Exception as e:
                res.violation(f"C19:unexpected-exception:{setter}", f"{setter} whose callable attaches the pattern to a project ({at}) raised {e!r}", case)
                continue
            res.count("edits_attaching_the_pattern")
            if [[n.vel for n in line] for line in pat.data] != [[1 + l_ * 2 + t_ for t_ in range(2)] for l_ in range(3)]:
                res.violation(f"C19:wrong-note:{setter}", "notes supplied while the pattern was being attached were not installed", case)
                continue
            if pat not in proj.patterns or pat.project is not proj:
                res.violation(f"C19:note-project:{setter}", f"the callable attached the pattern to a project ({at}); afterwards project.patterns holds it: {pat in proj.patterns}, "
                                                           f"pattern.project is the project: {pat.project is proj}", case)
                continue
            ownership_ok(res, pat, proj, case, setter)


def foreign_owned_notes(res, rng, api):
    """The callable hands over Note objects that currently belong to ANOTHER pattern (copying from a template without
    clone()).  After the edit they are contents of this pattern and must be owned by it."""
    for attached_src in (False, True):
        for attached_dst in (False, True):
            for setter in ("fn", "gen"):
                src = api.Pattern(tracks=3, lines=4)
                for ln in range(4):
                    for tr in range(3):
                        src.data[ln][tr].vel = 1 + ln * 3 + tr
                if attached_src:
                    sp = api.Project()
                    sp.attach_pattern(src)
                dst, proj = new_pattern(rng, api, 3, 4, attached_dst, shrink=False)
                case = {"setter": setter, "source_attached": attached_src, "destination_attached": attached_dst, "notes": "taken from another pattern"}
                res.case(("foreign-notes", setter, attached_src, attached_dst))
                res.count("foreign_owned_note_edits")
                # once in a process that turns warnings into errors: whatever the library has to say about such notes, the
                # edit is all-or-nothing there too
                import warnings
                dst2, _ = new_pattern(rng, api, 3, 4, attached_dst, shrink=False)
                src2 = api.Pattern(tracks=3, lines=4)
                for ln in range(4):
                    for tr in range(3):
                        src2.data[ln][tr].vel = 1 + ln * 3 + tr
                if attached_src:
                    api.Project().attach_pattern(src2)
                before2 = dst2.raw_data
                with warnings.catch_warnings():
                    warnings.simplefilter("error")
                    try:
                        if setter == "fn":
                            dst2.set_via_fn(lambda p, ln, tr: src2.data[ln][tr])
                        else:
                            dst2.set_via_gen(lambda p, new: ((ln, tr, src2.data[ln][tr]) for ln in range(4) for tr in range(3)))
                        done = True
                    except Warning:
                        done = False
                res.count("edits_under_warnings_as_errors")
                if not done and dst2.raw_data != before2:
                    res.violation(f"C19:not-atomic:{setter}", f"{setter} with warnings turned into errors raised, but the pattern's contents changed", dict(case, warnings="error"))
                if done and [[n.vel for n in line] for line in dst2.data] != [[1 + ln * 3 + tr for tr in range(3)] for ln in range(4)]:
                    res.violation(f"C19:wrong-note:{setter}", "notes taken from another pattern were not installed (warnings as errors)", case)
                if setter == "fn":
                    dst.set_via_fn(lambda p, ln, tr: src.data[ln][tr])
                else:
                    dst.set_via_gen(lambda p, new: ((ln, tr, src.data[ln][tr]) for ln in range(4) for tr in range(3)))
                res.count("edits_succeeded")
                if [[n.vel for n in line] for line in dst.data] != [[1 + ln * 3 + tr for tr in range(3)] for ln in range(4)]:
                    res.violation(f"C19:wrong-note:{setter}", "notes taken from another pattern were not installed", case)
                    continue
                ownership_ok(res, dst, proj, case, setter)


def run_exhaustive(res, rng, api, shapes):
    for tracks, lines in shapes:
        cells = tracks * lines
        for attached in (False, True):
            for setter in ("fn", "gen"):
                pat, proj = new_pattern(rng, api, tracks, lines, attached, shrink=False)
                points = list(range(cells)) if setter == "fn" else list(range(cells + 1))
                for k in points + [None]:
                    scribble = setter == "gen" and k is not None and k % 3 == 1
                    case = {"tracks": tracks, "lines": lines, "attached": attached, "setter": setter, "fault_at": k, "scribble": scribble}
                    res.case((tracks, lines, attached, setter, k))
                    res.hist("fault_points_by_setter", setter if k is not None else setter + "-success")
                    if not edit(res, rng, api, pat, proj, setter, k, scribble, False, case):
                        pat, proj = new_pattern(rng, api, tracks, lines, attached, shrink=False)
                # the successful edit once more, this time moving the pattern's own cell objects around
                case = {"tracks": tracks, "lines": lines, "attached": attached, "setter": setter, "fault_at": None, "scroll": True}
                res.count("edits_moving_own_cells")
                edit(res, rng, api, pat, proj, setter, None, False, False, case, scroll=True)
    res.exhaustive = True


def run_random(res, rng, api, n):
    for s in range(n):
        tracks, lines = rng.randint(1, 32), rng.randint(1, 64 if rng.random() < 0.2 else 12)
        attached = rng.random() < 0.5
        pat, proj = new_pattern(rng, api, tracks, lines, attached)
        if (pat.tracks, pat.lines) != (tracks, lines):
            res.count("patterns_made_smaller_after_their_notes_existed")
        tracks, lines = pat.tracks, pat.lines
        chain = []
        for c in range(rng.randint(2, 5)):
            setter = rng.choice(("fn", "gen"))
            cells = tracks * lines
            fault = rng.randrange(cells + (1 if setter == "gen" else 0)) if rng.random() < 0.5 else None
            scribble = setter == "gen" and rng.random() < 0.3
            dup = setter == "gen" and fault is None and rng.random() < 0.3
            scroll = rng.random() < 0.2
            if scroll:
                scribble = dup = False
                res.count("edits_moving_own_cells")
            chain.append([setter, fault, scribble, dup, scroll])
            case = {"tracks": tracks, "lines": lines, "attached": attached, "chain": chain}
            res.case((s, c, tracks, lines, attached, setter, fault, scribble, dup))
            res.hist("chain_position", c)
            if not edit(res, rng, api, pat, proj, setter, fault, scribble, dup, case, scroll=scroll):
                break
        if s == 0:
            res.sample({"tracks": tracks, "lines": lines, "attached": attached, "chain[setter,fault_at,scribble,dup_yield,move_own_cells]": chain})


def run_shard(spec_, res):
    global _NOTEVALS
    import rv.api as api
    from rv.note import NOTECMD
    _NOTEVALS = sorted({int(m) for m in NOTECMD})
    rng = random.Random(spec_["seed"])
    if spec_["part"] == "exhaustive":
        run_exhaustive(res, rng, api, [tuple(s) for s in spec_["shapes"]])
        untouched_pattern_faults(res, rng, api, [tuple(s) for s in spec_["shapes"]])
        foreign_owned_notes(res, rng, api)
        attached_during_the_edit(res, rng, api)
        res.sample({"shape": spec_["shapes"][0], "setter": "fn", "fault_at": "every cell index, then success"})
    else:
        run_random(res, rng, api, spec_["n"])


def replay(case, res):
    global _NOTEVALS
    import rv.api as api
    from rv.note import NOTECMD
    _NOTEVALS = sorted({int(m) for m in NOTECMD})
    rng = random.Random(0)
    pat, proj = new_pattern(rng, api, case["tracks"], case["lines"], case.get("attached", False), shrink=False)
    if "chain" in case:
        for setter, fault, scribble, dup, *rest in case["chain"]:
            if not edit(res, rng, api, pat, proj, setter, fault, scribble, dup, case, scroll=bool(rest and rest[0])):
                return
    else:
        edit(res, rng, api, pat, proj, case["setter"], case.get("fault_at"), case.get("scribble", False), False, case, scroll=case.get("scroll", False))
