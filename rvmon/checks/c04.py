"""C04 - loading decodes foreign files per the format and skips unknown chunks."""
import os
import random
import struct

from .. import build, env, iffparse, monitors, refcodec, snapshot, spec, workload

PROPERTY = "C04"
LEVEL = "exploration"
RULE = ("cases: (a) one abstract project/synth description encoded by the independent reference encoder (rvmon.refcodec.encode), which "
        "makes legal choices rv's writer never makes (permuted project header chunks, TIME/REPS/FLGS present when 0 or absent, SLnK "
        "always/never/native, SLNK with trailing -1, drawn waveform written when default and without CHFF/CHFR, note-pitch curve always "
        "written, fewer CVALs than controllers, the 1.x header subset), loaded by rv and compared field by field with the description; "
        "(b) every shipped fixture decoded by the independent decoder and compared with the loaded object; (c) structure-preserving edits of "
        "fixtures and generated files: an unknown chunk (ids ZZZZ, 'Xy 1', q___, empty and non-empty) inserted at EVERY chunk boundary "
        "incl. boundaries inside embedded MetaModule projects and sampler effects, each optional chunk dropped in turn, the CVAL list "
        "truncated at every length. distinct = distinct files loaded; non-trivial = all")
EXHAUSTIVE_AXIS = "every chunk boundary (also nested) of every fixture and of the generated files used, for the unknown-chunk insertion; every CVAL-list length; every optional chunk occurrence"
ASSUMPTIONS = [
    "'optional' is taken from the documents: SMIN, PNME (YAML optional), CHFF/CHFR of drawn waveforms (not written if default), TIME/REPS (default 0), BVER (legacy fix-up -> 1.7.0.0), FLGS (default 0), SLnK (slots re-derived, consistent)",
    "module-section chunks are not permuted (their order is documented and the reader may rely on SFFF, SNAM, STYP opening the section); only independent project header chunks are",
    "for the 1.x header subset only successful loading and correct decoding of the chunks present are required",
    "loaded module flags are file flags OR the type's default flags (documented legacy fix-up); chunk ids are ASCII",
    "CVAL truncation is applied to non-MetaModule modules of the top-level object",
]
REQUIRED_COUNTERS = ["encoded_files_loaded", "fixtures_compared", "unknown_chunk_insertions", "optional_chunk_drops", "cval_truncations", "nested_boundaries"]
WORKERS = {"quick": 8, "thorough": 16}

UNKNOWN = [(b"ZZZZ", b""), (b"Xy 1", b"\x01\x02\x03"), (b"q___", b"SVOX" + bytes(40)),
           # identifiers the format documents as unused by current SunVox: carried by old files, meaning nothing
           (b"PSYN", bytes(4)), (b"PCTL", b"\x07\0\0\0"), (b"PAMD", bytes(4))]


def plan(tier, seed):
    fx = [os.path.relpath(f, env.FIXTURE_DIR) for f in env.fixtures()]
    n = 8 if tier == "quick" else 32
    return [{"tier": tier, "seed": seed, "shard": i, "n_shards": n, "fixtures": fx[i::n],
             "encoded": 150 if tier == "quick" else 600, "edit_files": 8 if tier == "quick" else 30} for i in range(n)]


def _snap(o):
    from rv.project import Project
    return snapshot.snap_project(o) if isinstance(o, Project) else snapshot.snap_synth(o)


# ------------------------------------------------------------------ (a) reference-encoded files
def expected_after_choices(N, ch):
    """What the description denotes once the encoder's choices are applied (truncated CVAL lists, legacy header)."""
    import copy
    E = copy.deepcopy(N)
    by = spec.by_mtype()
    if ch.cval_keep and E["kind"] == "project":
        for idx, keep in ch.cval_keep.items():
            m = E["modules"][idx]
            if m is None or m["type"] == "MetaModule":
                continue
            t = by[m["type"]]
            names = [c.name for c in t.controllers if c.attached]
            for nm in names[keep:]:
                m["controllers"][nm] = t.ctl(nm).default_value()
                m["cmid"][nm] = (0, 0, 0, 0)
    return E


def links_equivalent(res, E, S, ch, desc):
    """In-links always; slots only when the file carried them; else same edges + consistency (as C08)."""
    for i, (a, b) in enumerate(zip(E["modules"], S["modules"])):
        if a is None or b is None:
            continue
        if a["links"]["in"] != b["links"]["in"]:
            res.violation("C04:links-in", f"module {i}: SLNK {a['links']['in']} loaded as {b['links']['in']} (choices {ch.describe()})", desc)
            return False
        if ch.slnk2 != "never" and a["links"] != b["links"]:
            # explicit slots (or the documented all-zero elision): tables are fully determined by the file
            res.violation("C04:links-slots", f"module {i}: link tables {a['links']} loaded as {b['links']} (choices {ch.describe()})", desc)
            return False
    return True


def strip_links(S):
    import copy
    S = copy.deepcopy(S)

    def one(m):
        # embedded projects are reached through MetaModules and through the effect synth of a Sampler, at any depth
        if m is None:
            return
        m.pop("links", None)
        pl = m.get("payload") or {}
        if m["type"] == "MetaModule" and pl.get("project"):
            rec(pl["project"])
        elif m["type"] == "Sampler" and pl.get("effect"):
            one(pl["effect"].get("module"))

    def rec(p):
        for m in p["modules"]:
            one(m)
    if S["kind"] == "project":
        rec(S)
    else:
        one(S["module"])
    return S


def _chain(dmod, i, depth=0):
    """What a MetaModule's i-th user-defined controller is mapped onto in the END (through nested MetaModules), read from the
    independently decoded file: ('offset', k) | ('enum',) | ('bool',) | None (not judged)."""
    if depth > 6:
        return None
    pl = dmod.get("payload") or {}
    maps = pl.get("mappings") or []
    if i >= len(maps):
        return ("offset", 0)
    mi, ci = maps[i][0], maps[i][1]
    mods = (pl.get("project") or {}).get("modules") or []
    if mi == 0 or mi >= len(mods) or mods[mi] is None:
        return ("offset", 0)                       # names no module: the generic 0..44100 controller
    target = mods[mi]
    t = spec.by_mtype().get(target["type"])
    if t is None:
        return None
    if target["type"] == "MetaModule":
        builtin = [c for c in t.controllers if not c.name.startswith("user_defined")]
        if ci >= len(builtin):
            j = ci - len(builtin)
            if j >= 96:
                return ("offset", 0)
            if j >= target["options"].get("user_defined_controllers", 0):
                return None                        # a hidden slot of the inner module: its type is not derivable from the file
            return _chain(target, j, depth + 1)
        sc = builtin[ci]
    else:
        if ci >= len(t.controllers):
            return None if target["type"] == "Sampler" else ("offset", 0)
        sc = t.controllers[ci]
    if sc.kind == "enum":
        return ("enum",)
    if sc.kind == "bool":
        return ("bool",)
    if sc.kind in ("no_offset", "dependent"):
        return ("offset", 0)
    return ("offset", sc.min if sc.min < 0 else 0)


def typed_user_values(res, raw, S, desc, origin):
    """The visible value of every exposed MetaModule controller after LOADING, against the documented rule 'stored value plus
    the (negative) minimum of the controller it is mapped onto', resolved through nested MetaModules from the bytes alone."""
    try:
        dec, _problems = refcodec.decode(raw)
    except Exception:
        return

    def walk(smod, dmod, path):
        if smod is None or dmod is None or smod.get("type") != dmod.get("type"):
            return
        if dmod["type"] == "MetaModule":
            n = dmod["options"].get("user_defined_controllers", 0)
            for i in range(min(n, 96)):
                name = f"user_defined_{i + 1}"
                rawv = dmod["user_values_raw"].get(name)
                what = _chain(dmod, i)
                if rawv is None or what is None or name not in smod["controllers"]:
                    res.count("typed_user_values_not_judged")
                    continue
                got = smod["controllers"][name]
                want = rawv + what[1] if what[0] == "offset" else (bool(rawv) if what[0] == "bool" else rawv)
                res.count("typed_user_values_judged")
                res.hist("typed_user_values_by_kind", what[0] + ("-shifted" if what[0] == "offset" and what[1] else ""))
                if getattr(got, "value", got) != want:
                    res.violation(f"C04:decode-user-value:{what[0]}", f"{origin} {path}/{name}: stored {rawv}, mapped (through the embedded projects) onto {what}: denotes {want!r}, rv loaded {got!r}", desc)
                    return
            sm = ((smod.get("payload") or {}).get("project") or {}).get("modules") or []
            dm = ((dmod.get("payload") or {}).get("project") or {}).get("modules") or []
            for k, (a, b) in enumerate(zip(sm, dm)):
                walk(a, b, f"{path}/embedded[{k}]")
    if S.get("kind") == "project" and dec.get("kind") == "project":
        for k, (a, b) in enumerate(zip(S["modules"], dec["modules"])):
            walk(a, b, f"/modules[{k}]")
    elif S.get("kind") == "synth" and dec.get("kind") == "synth":
        walk(S["module"], dec["module"], "/module")


def nested_proxy_files(res, rng, n):
    """Files in which an exposed controller reaches its real target through one or two further MetaModules; targets of every
    kind (signed, compact, no-offset, unit-dependent, enum, bool, zero-based).  Judged by typed_user_values only (bytes ->
    documented meaning), so it does not matter which library wrote the bytes."""
    import rv.api as api
    from rv.modules import MODULE_CLASSES
    sp = spec.load()
    cands = [(T, i, sc) for T, t in sorted(sp.items()) if T not in ("Output", "MetaModule") for i, sc in enumerate(t.controllers) if sc.attached]
    signed = [c for c in cands if c[2].kind in ("range", "compact") and c[2].min < 0]
    for k in range(n):
        T, ci, sc = rng.choice(signed) if k % 2 == 0 else rng.choice(cands)
        levels = 2 + k % 2
        proj = api.Project()
        mod = proj.new_module(MODULE_CLASSES[sp[T].mtype])
        try:
            if sc.kind in ("range", "compact", "no_offset"):
                setattr(mod, sc.name, rng.randint(sc.min, sc.max))
        except Exception:
            pass
        mm = api.m.MetaModule(project=proj)
        mm.user_defined_controllers = 1
        mm.mappings.values[0] = mm.Mapping((mod.index, ci))
        mm.update_user_defined_controllers()
        for _ in range(levels - 1):
            outer_p = api.Project()
            outer_p.attach_module(mm)
            outer = api.m.MetaModule(project=outer_p)
            outer.user_defined_controllers = 1
            outer.mappings.values[0] = outer.Mapping((mm.index, 5))
            outer.update_user_defined_controllers()
            mm = outer
        if k % 5 == 0:
            # every one of the 96 slots of the outermost module exposed, each holding its own stored value
            mm.user_defined_controllers = 96
            for i in range(1, 96):
                try:
                    mm.set_raw(f"user_defined_{i + 1}", 100 + i)
                except Exception:
                    pass
            res.count("nested_proxy_files_with_96_slots")
        desc = {"nested_proxy": f"{T}.{sc.name}", "levels": levels}
        try:
            raw = api.Synth(mm).read()
            o = workload.load(raw)
        except Exception as e:
            res.violation(f"C04:foreign-file-unloadable:{workload.exc_key(e)}", f"nested MetaModules exposing {T}.{sc.name} through {levels} levels do not save/load: {e!r}", desc)
            continue
        res.count("nested_proxy_files")
        res.case(raw)
        typed_user_values(res, raw, build.norm(_snap(o), "after"), desc, "nested-proxy")


def encoded_case(res, seed, index, tier, rng):
    import rv.api as api
    kind = "project" if index % 3 else "synth"
    try:
        if kind == "project":
            c = workload.project_case(seed, 600000 + index, tier)
            N = build.norm(c.snap, "before")
        else:
            types = sorted(T for T in spec.load() if T != "Output")
            T = types[index % len(types)]
            c = workload.module_case(seed, 600000 + index, tier, T, ctx="project")
            N = build.norm(snapshot.snap_synth(api.Synth(c.obj)), "before")
    except Exception:
        res.count("generated_unusable")
        return
    ch = refcodec.Choices(rng)
    if kind == "project" and rng.random() < 0.3:
        ch.cval_keep = {}
        for i, m in enumerate(N["modules"]):
            if m is not None and m["controllers"] and m["type"] != "MetaModule" and rng.random() < 0.6:
                ch.cval_keep[i] = rng.randrange(len(m["controllers"]) + 1)
    if kind == "project" and rng.random() < 0.1:
        ch.legacy_header = True
    desc = dict(c.describe(), choices=ch.describe())
    raw = refcodec.encode(N, ch)
    res.case(raw)
    res.count("encoded_files")
    for k, v in ch.describe().items():
        if k in ("slnk2", "legacy_header", "time_reps_when_zero", "drawn_omit_ff_fr"):
            res.hist("encoder_choices", f"{k}={v}")
    try:
        o = workload.load(raw)
    except Exception as e:
        res.violation(f"C04:foreign-file-unloadable:{workload.exc_key(e)}", f"reference-encoded {kind} does not load: {e!r} (choices {ch.describe()})", desc)
        return
    res.count("encoded_files_loaded")
    if res.evaluations % 53 == 1:
        res.sample({"family": "reference-encoded", "kind": kind, "bytes": len(raw), "choices": ch.describe()})
    S = build.norm(_snap(o), "after")
    typed_user_values(res, raw, S, desc, "reference-encoded")
    E = expected_after_choices(N, ch)
    if ch.legacy_header and kind == "project":
        for k in ("initial_bpm", "initial_tpl", "global_volume", "file_version"):
            if E[k] != S[k]:
                res.violation(f"C04:legacy-header:{k}", f"1.x header subset: {k} encoded {E[k]} loaded {S[k]}", desc)
        if S["based_on_version"] != (1, 7, 0, 0):
            res.violation("C04:legacy-header:based_on_version", f"file without BVER loads based_on_version {S['based_on_version']}, documented default (1, 7, 0, 0)", desc)
        for k in list(E):
            if k not in ("modules", "patterns", "kind", "initial_bpm", "initial_tpl", "global_volume", "file_version"):
                S[k] = E[k]
    if kind == "project":
        if len(E["modules"]) != len(S["modules"]) or [m is None for m in E["modules"]] != [m is None for m in S["modules"]]:
            res.violation("C04:module-positions", f"positions in file {[None if m is None else m['type'] for m in E['modules']]} loaded as {[None if m is None else m['type'] for m in S['modules']]}", desc)
            return
        if not links_equivalent(res, E, S, ch, desc):
            return
        probs = monitors.links_consistent(o)
        if probs:
            res.violation("C04:links-inconsistent", f"tables after loading the foreign file: {probs[:2]} (choices {ch.describe()})", desc)
            return
    d = snapshot.diff(strip_links(E), strip_links(S))
    for path, a, b in d[:3]:
        res.violation(f"C04:decode:{snapshot.field_key(path)}", f"{path}: the documented encoding denotes {a}, rv loaded {b} (choices {ch.describe()})", desc)
    if not d and index % 2 == 1 and kind == "project":
        # what a loaded pattern holds is settled by the load: resizing or moving the object BEFORE anyone looks at its notes
        # does not re-read the note bytes with the new geometry
        try:
            o2 = workload.load(raw)
        except Exception as e:
            res.violation(f"C04:second-load-raises:{workload.exc_key(e)}", f"loading the same bytes a second time raised {e!r}", desc)
            return
        for k, (pa, pb) in enumerate(zip(o.patterns, o2.patterns)):
            if pa is None or pb is None or not hasattr(pb, "tracks") or not pa.tracks or not pa.lines:
                continue
            how = (index // 2 + k) % 4
            t0, l0 = pb.tracks, pb.lines
            if how == 0:
                pb.tracks += 1
            elif how == 1:
                pb.lines += 3
            elif how == 2:
                pb.tracks, pb.lines = max(1, t0 - 1), max(1, l0 - 1)
            else:
                pb.x, pb.y, pb.name = pb.x + 4, pb.y - 32, "moved"
            res.count("patterns_resized_before_first_look")
            try:
                want = [[n.raw_data for n in line] for line in pa.data]
                got = [[n.raw_data for n in line[:t0]] for line in pb.data[:l0]]
            except Exception as e:
                res.violation(f"C04:pattern-first-look:{workload.exc_key(e)}", f"pattern {k}: reading the notes after changing {['tracks', 'lines', 'tracks and lines', 'position'][how]} raised {e!r}", desc)
                break
            if want != got:
                res.violation("C04:pattern-first-look:notes-differ", f"pattern {k} ({t0}x{l0}): its notes depend on {['tracks', 'lines', 'tracks and lines', 'position'][how]} "
                                                                    f"being changed before they were first read", desc)
                break
    if not d and index % 2 == 0:
        # what bytes denote cannot depend on what happened to an object loaded from them earlier
        from . import c06
        touched = c06.mutate_live(o, random.Random(index), 6, prefer=("/payload/project/", "/effect/", "/payload/"))
        if touched:
            res.count("reloads_after_editing_first_result")
            try:
                S_b = build.norm(_snap(workload.load(raw)), "after")
            except Exception as e:
                res.violation(f"C04:second-load-raises:{workload.exc_key(e)}", f"loading the same bytes a second time raised {e!r}", desc)
                return
            if ch.legacy_header and kind == "project":
                for k in list(E):
                    if k not in ("modules", "patterns", "kind", "initial_bpm", "initial_tpl", "global_volume", "file_version"):
                        S_b[k] = E[k]
            d2 = snapshot.diff(strip_links(E), strip_links(S_b))
            for path, a, b in d2[:3]:
                res.violation(f"C04:decode-second-load:{snapshot.field_key(path)}",
                              f"{path}: second load of the same bytes gives {b}, the encoding denotes {a} (the first result had been edited in place: {touched[:3]})", desc)


# ------------------------------------------------------------------ (b) fixtures against the independent decoder
def fixture_compare(res, name, raw):
    res.count("fixtures_compared")
    desc = {"fixture": name}
    try:
        dec, _pr = refcodec.decode(raw)
    except Exception as e:
        res.inconclusive.append(f"independent decoder cannot parse fixture {name}: {e!r}")
        return None
    try:
        o = workload.load(raw)
    except Exception as e:
        res.violation(f"C04:fixture-unloadable:{workload.exc_key(e)}", f"{name} does not load: {e!r}", desc)
        return None
    S = build.norm(_snap(o), "after")
    typed_user_values(res, raw, S, desc, f"fixture {name}")
    by = spec.by_mtype()
    for path, a, b in refcodec.compare(S, dec):
        if b is None or b in ("<absent>", "None") or a == "<absent>":
            continue  # chunk absent from the (older) file: defaults are judged in the drop-optional family
        if path.endswith("/links/in_slots"):
            continue
        if path.endswith("/flags"):
            # documented fix-up: loaded flags = file flags | default flags of the type
            continue
        res.violation(f"C04:fixture-decode:{snapshot.field_key(path)}", f"{name}: {path}: rv loaded {snapshot._short(a)}, the documented encoding denotes {snapshot._short(b)}", desc)
    # flags fix-up rule checked explicitly
    def flags_ok(ms, ds, where):
        if ms is None or ds is None:
            return
        want = ds["flags"] | by[ms["type"]].default_flags
        if ms["flags"] != want:
            res.violation("C04:fixture-decode:flags", f"{name}: {where} flags {ms['flags']:#x}, file {ds['flags']:#x} | defaults = {want:#x}", desc)
    if dec["kind"] == "project":
        for i, (ms, ds) in enumerate(zip(S["modules"], dec["modules"])):
            flags_ok(ms, ds, f"module {i}")
    else:
        flags_ok(S["module"], dec["module"], "module")
    return o


# ------------------------------------------------------------------ (c) structure-preserving edits
def nested_paths(chunks, prefix=()):
    """Yield (path, inner_chunks) for every embedded SVOX/SSYN payload (CHDT) recursively."""
    for i, (cid, pl, _off) in enumerate(chunks):
        if cid == b"CHDT" and (pl.startswith(b"SVOX\0\0\0\0") or pl.startswith(b"SSYN\0\0\0\0")):
            try:
                inner = iffparse.parse(pl)
            except iffparse.Malformed:
                continue
            yield prefix + (i,), inner
            yield from nested_paths(inner, prefix + (i,))


def rebuild(chunks, path, new_inner):
    """Replace the nested stream at `path` (indices of CHDT chunks) by new_inner; returns top-level bytes."""
    if not path:
        return iffparse.build(new_inner)
    i = path[0]
    inner = iffparse.parse(chunks[i][1])
    sub = rebuild(inner, path[1:], new_inner)
    out = [(c[0], c[1]) for c in chunks]
    out[i] = (b"CHDT", sub)
    return iffparse.build(out)


def edits_unknown(res, origin, raw, base_snap, desc, rng, tier):
    top = iffparse.parse(raw)
    levels = [((), top)] + list(nested_paths(top))
    for path, chunks in levels:
        nb = len(chunks) + 1
        positions = range(1, nb)  # never before the header chunk
        if tier == "quick" and nb > 60:
            positions = sorted(set(rng.sample(range(1, nb), 60)) | {1, nb - 1})
        states = position_states(chunks)
        for pos in positions:
            mis = MISPLACED[states[pos]]
            if tier == "thorough":
                todo = UNKNOWN + mis
            elif pos % 3 == 0:
                todo = [mis[(pos // 3 + len(path)) % len(mis)]]
            else:
                todo = [UNKNOWN[(pos + len(path)) % len(UNKNOWN)]]
            for cid, pl in todo:
                if (cid, pl) in mis:
                    res.count("misplaced_known_ids_inserted")
                    res.hist("misplaced_ids", f"{cid.decode().strip()}@{states[pos]}")
                new = [(c[0], c[1]) for c in chunks]
                new.insert(pos, (cid, pl))
                data = rebuild(top, path, new)
                res.count("unknown_chunk_insertions")
                if res.counters["unknown_chunk_insertions"] % 1777 == 1:
                    res.sample({"family": "unknown chunk", "file": origin, "chunk": cid.decode(), "boundary": pos, "nesting": list(path),
                                "before_chunk": chunks[pos][0].decode("latin1") if pos < len(chunks) else "EOF"})
                if path:
                    res.count("nested_boundaries")
                res.evaluations += 1
                try:
                    o = workload.load(data)
                except Exception as e:
                    res.violation(f"C04:unknown-chunk-breaks-load:{workload.exc_key(e)}",
                                  f"{origin}: unknown chunk {cid!r} inserted at boundary {pos} (nesting {path}) makes the load fail: {e!r}",
                                  dict(desc, pos=pos, nesting=list(path), chunk=cid.decode()))
                    return
                S = _snap(o)
                if S != base_snap:
                    d = snapshot.diff(base_snap, S)
                    res.violation(f"C04:unknown-chunk-changes:{snapshot.field_key(d[0][0]) if d else '?'}",
                                  f"{origin}: unknown chunk {cid!r} at boundary {pos} (nesting {path}, before {chunks[pos][0] if pos < len(chunks) else 'EOF'!r}) changed {d[:2]}",
                                  dict(desc, pos=pos, nesting=list(path), chunk=cid.decode()))
                    return
    res.count("nested_boundaries", 0)
    # ... and none of all that is remembered: the unedited file still reads as it did
    try:
        S = _snap(workload.load(raw))
    except Exception as e:
        res.violation(f"C04:reload-after-unknown-chunks:{workload.exc_key(e)}", f"{origin}: after the files with extra chunks, the plain file fails to load: {e!r}", desc)
        return
    res.count("plain_reloads_after_unknown_chunks")
    if S != base_snap:
        d = snapshot.diff(base_snap, S)
        res.violation(f"C04:unknown-chunk-remembered:{snapshot.field_key(d[0][0]) if d else '?'}",
                      f"{origin}: after loading variants with extra (unknown-there) chunks, the plain file loads differently: {d[:2]}", desc)


OPTIONAL_DEFAULTS = {b"BVER": ("based_on_version", (1, 7, 0, 0)), b"TIME": ("timeline_position", 0), b"REPS": ("restart_position", 0),
                     b"FLGS": ("flags", 0)}


def edits_drop_optional(res, origin, raw, base_snap, desc):
    chunks = iffparse.parse(raw)
    kind = base_snap["kind"]
    # index of the module / pattern each chunk belongs to (top level)
    mod_i, pat_i = -1, -1
    in_mod = False
    owner = []
    nsend = npend = 0
    for cid, pl, _ in chunks:
        owner.append((nsend, npend))
        if cid == b"SEND":
            nsend += 1
        if cid == b"PEND":
            npend += 1
    for i, (cid, pl, _off) in enumerate(chunks):
        exp = None
        if kind == "project" and cid in OPTIONAL_DEFAULTS and owner[i] == (0, 0) and not any(c[0] in (b"SFFF", b"PDTA", b"PPAR") for c in chunks[:i]):
            key, dv = OPTIONAL_DEFAULTS[cid]
            exp = ("project", key, dv)
        elif cid == b"SMIN":
            exp = ("module", owner[i][0], "midi_out_name", None)
        elif cid == b"PNME":
            exp = ("pattern", owner[i][1], "name", None)
        elif cid == b"SLnK":
            exp = ("slots", owner[i][0])
        elif cid in (b"CHFF", b"CHFR") and i >= 2:
            # only for drawn waveform chunks: CHNM 0 of an Analog generator / Generator with 32 data bytes
            j = i - 1
            while j > 0 and chunks[j][0] in (b"CHFF", b"CHFR"):
                j -= 1
            if chunks[j][0] == b"CHDT" and len(chunks[j][1]) == 32 and chunks[j - 1][0] == b"CHNM" and chunks[j - 1][1] == b"\0\0\0\0":
                midx = owner[i][0]
                ms = base_snap["modules"][midx] if kind == "project" else base_snap["module"]
                if ms is not None and ms["type"] in ("Analog generator", "Generator"):
                    exp = ("same",)
        if exp is None:
            continue
        new = [(c[0], c[1]) for k, c in enumerate(chunks) if k != i]
        data = iffparse.build(new)
        res.count("optional_chunk_drops")
        res.hist("optional_drops_by_id", cid.decode())
        res.evaluations += 1
        d2 = dict(desc, dropped=cid.decode(), chunk_index=i)
        try:
            o = workload.load(data)
        except Exception as e:
            res.violation(f"C04:optional-chunk-required:{cid.decode()}:{workload.exc_key(e)}", f"{origin}: without optional chunk {cid!r} (#{i}) the load fails: {e!r}", d2)
            continue
        S = _snap(o)
        import copy
        E = copy.deepcopy(base_snap)
        if exp[0] == "project":
            E[exp[1]] = exp[2]
        elif exp[0] == "module":
            (E["modules"][exp[1]] if kind == "project" else E["module"])[exp[2]] = exp[3]
        elif exp[0] == "pattern":
            E["patterns"][exp[1]][exp[2]] = exp[3]
        elif exp[0] == "slots":
            probs = monitors.links_consistent(o)
            if probs:
                # removing SLnK from a module with non-trivial slots while others keep theirs is ill-formed (C08): observed, not judged
                res.count("observation_partial_slnk_removal_inconsistent")
                continue
            if monitors.edge_multiset(o) != monitors.edge_multiset(workload.load(raw)):
                res.violation("C04:optional-SLnK-changes-edges", f"{origin}: dropping SLnK (#{i}) changed the set of connections", d2)
            E, S = strip_links(E), strip_links(S)
        if E != S:
            d = snapshot.diff(E, S)
            res.violation(f"C04:optional-default:{cid.decode()}:{snapshot.field_key(d[0][0]) if d else '?'}",
                          f"{origin}: without {cid!r} (#{i}) expected documented default, got {d[:2]}", d2)


def edits_truncate_cvals(res, origin, raw, base_snap, desc):
    chunks = iffparse.parse(raw)
    by = spec.by_mtype()
    kind = base_snap["kind"]
    # sections of CVAL runs at top level
    i = 0
    nsend = 0
    while i < len(chunks):
        if chunks[i][0] == b"SEND":
            nsend += 1
        if chunks[i][0] == b"CVAL":
            j = i
            while j < len(chunks) and chunks[j][0] == b"CVAL":
                j += 1
            n = j - i
            ms = base_snap["modules"][nsend] if kind == "project" else base_snap["module"]
            if ms is not None and ms["type"] != "MetaModule":
                t = by[ms["type"]]
                names = [c.name for c in t.controllers if c.attached][:n]
                has_cmid = j < len(chunks) and chunks[j][0] == b"CMID"
                for keep in range(0, n):
                    new = [(c[0], c[1]) for c in chunks[:i + keep]]
                    rest = [(c[0], c[1]) for c in chunks[j:]]
                    if has_cmid:
                        rest[0] = (b"CMID", rest[0][1][:8 * keep])
                        if keep == 0:
                            rest = rest[1:]
                    data = iffparse.build(new + rest)
                    res.count("cval_truncations")
                    res.evaluations += 1
                    d2 = dict(desc, module=nsend, kept=keep, of=n)
                    try:
                        o = workload.load(data)
                    except Exception as e:
                        res.violation(f"C04:truncated-cvals-unloadable:{workload.exc_key(e)}", f"{origin}: {keep} of {n} CVALs: load fails {e!r}", d2)
                        break
                    S = _snap(o)
                    import copy
                    E = copy.deepcopy(base_snap)
                    em = E["modules"][nsend] if kind == "project" else E["module"]
                    for nm in names[keep:]:
                        em["controllers"][nm] = t.ctl(nm).default_value()
                        em["cmid"][nm] = (0, 0, 0, 0)
                    if E != S:
                        d = snapshot.diff(E, S)
                        res.violation(f"C04:truncated-cvals:{snapshot.field_key(d[0][0]) if d else '?'}",
                                      f"{origin}: module {nsend} ({ms['type']}) with {keep} of {n} CVALs: {d[:2]}", d2)
                        break
            i = j
            continue
        i += 1


def edits_no_modules(res, origin, raw, base_snap, desc):
    """The pattern-clipboard container: project header and patterns, no module chunks at all (a documented file type)."""
    if base_snap.get("kind") != "project":
        return
    chunks = [(c[0], c[1]) for c in iffparse.parse(raw)]
    cut = None
    for i, c in enumerate(chunks):
        if c[0] == b"PEND":
            cut = i + 1
    if cut is None:
        cut = next((i for i, c in enumerate(chunks) if c[0] in (b"SFFF", b"SEND")), len(chunks))
    res.count("no_module_containers")
    try:
        o = workload.load(iffparse.build(chunks[:cut]))
    except Exception as e:
        res.violation(f"C04:no-module-container-unloadable:{workload.exc_key(e)}", f"{origin}: header + patterns without any module chunk does not load: {e!r}", desc)
        return
    S = _snap(o)
    for k in base_snap:
        if k in ("modules", "kind"):
            continue
        if S.get(k) != base_snap[k]:
            res.violation(f"C04:no-module-container:{k if k != 'patterns' else 'patterns'}", f"{origin}: without module chunks {k} loads as {snapshot._short(S.get(k))}, with them as {snapshot._short(base_snap[k])}", desc)
            return


def edits_permute_groups(res, origin, raw, base_snap, desc, rng):
    """The module-specific chunks of a module (number / data / format / rate groups) in another order: the format attaches no
    meaning to their order.  Only MetaModule records are permuted: a Sampler's sample header / sample data chunks are a
    pair by position (header first), which the library relies on - observed, not judged."""
    top = iffparse.parse(raw)
    chunks = [(c[0], c[1]) for c in top]
    out, i, permuted = [], 0, 0
    styp = None
    while i < len(chunks):
        if chunks[i][0] == b"STYP":
            styp = chunks[i][1].rstrip(b"\0")
        if chunks[i][0] != b"CHNM" or styp != b"MetaModule":
            out.append(chunks[i])
            i += 1
            continue
        groups = []
        while i < len(chunks) and chunks[i][0] == b"CHNM":
            g = [chunks[i]]
            i += 1
            while i < len(chunks) and chunks[i][0] in (b"CHDT", b"CHFF", b"CHFR"):
                g.append(chunks[i])
                i += 1
            groups.append(g)
        if len(groups) > 1:
            rng.shuffle(groups)
            permuted += 1
        for g in groups:
            out.extend(g)
    if not permuted:
        return
    res.count("chunk_group_permutations")
    try:
        o = workload.load(iffparse.build(out))
    except Exception as e:
        res.violation(f"C04:permuted-chunk-groups-unloadable:{workload.exc_key(e)}", f"{origin}: module-specific chunk groups in another order do not load: {e!r}", desc)
        return
    S = _snap(o)
    if S != base_snap:
        d = snapshot.diff(base_snap, S)
        res.violation(f"C04:permuted-chunk-groups:{snapshot.field_key(d[0][0]) if d else '?'}", f"{origin}: with the module-specific chunk groups in another order {d[:2]}", desc)


# ids the format DOES define, but for another part of the file: where they stand here they mean nothing, and what a reader
# learned from skipping them must not change how it reads the places where they do mean something
MISPLACED = {
    "module": [(b"NAME", b"misplaced\0"), (b"BPM ", struct.pack("<i", 999)), (b"GVOL", struct.pack("<i", 7)), (b"PNME", b"x\0"), (b"TIME", bytes(4)), (b"BVER", bytes(4))],
    "pattern": [(b"SNAM", bytes(32)), (b"CVAL", struct.pack("<i", 5)), (b"NAME", b"misplaced\0"), (b"GVOL", struct.pack("<i", 7)), (b"STYP", b"Amplifier\0")],
    "project": [(b"SNAM", bytes(32)), (b"CVAL", struct.pack("<i", 5)), (b"CHNM", bytes(4)), (b"PNME", b"x\0"), (b"PCHN", struct.pack("<i", 3)), (b"STYP", b"Amplifier\0"), (b"CMID", bytes(8))],
    "synth": [(b"NAME", b"misplaced\0"), (b"BPM ", struct.pack("<i", 999)), (b"GVOL", struct.pack("<i", 7)), (b"PNME", b"x\0"), (b"CVAL", struct.pack("<i", 5)), (b"SNAM", bytes(32))],
}


def position_states(chunks):
    """For every insertion boundary of one nesting level: which reader is in charge there."""
    kind = "synth" if chunks and chunks[0][0] == b"SSYN" else "project"
    out, state = [], kind
    for c in chunks:
        out.append(state)
        if c[0] == b"SFFF":
            state = "module"
        elif c[0] == b"SEND":
            state = kind
        elif c[0] in (b"PDTA", b"PPAR") and state == kind:
            state = "pattern"
        elif c[0] == b"PEND":
            state = kind
    out.append(state)
    return out


def run_edits(res, origin, raw, desc, rng, tier):
    try:
        base = workload.load(raw)
    except Exception:
        res.count("edit_base_unloadable")
        return
    base_snap = _snap(base)
    res.case(raw)
    edits_unknown(res, origin, raw, base_snap, desc, rng, tier)
    edits_drop_optional(res, origin, raw, base_snap, desc)
    edits_truncate_cvals(res, origin, raw, base_snap, desc)
    edits_no_modules(res, origin, raw, base_snap, desc)
    edits_permute_groups(res, origin, raw, base_snap, desc, rng)


def older_sampler_layouts(res, rng, n):
    """Sampler files in the layouts older SunVox versions wrote (envelopes only in the legacy fields of the instrument record,
    shorter records, no signature), built without rv from the SunVox-written fixture: the documented conversion
    (y * 0x200 + range minimum, counts, flag bits) is what loading must give.  Generator and oracle are C16's."""
    from . import c16
    from ..runner import Result
    chunks = c16.fixture_chunks()
    for k in range(n):
        scratch = Result()
        c16.check_legacy(scratch, chunks, rng, k)
        res.count("older_sampler_layout_files")
        res.evaluations += 1
        for v in scratch.violations:
            if ":legacy-conversion:" in v["key"] or ":legacy-unloadable:" in v["key"]:
                res.violation(v["key"].replace("C16:", "C04:older-layout:", 1), v["what"], v.get("case"))
        # ... and instruments as other writers store them (a chunk left out, undocumented flag bits, a slot without waveform block)
        scratch = Result()
        src = chunks
        if (k // 3) % 2:
            try:
                import rv.api as api
                gc = workload.module_case(1, 778000 + k, "quick", "Sampler", ctx="synth")
                src = [(c_[0], c_[1]) for c_ in iffparse.parse(api.Synth(gc.obj).read())]
            except Exception:
                src = chunks
        c16.foreign_variants(scratch, src, rng, k, generated=src is not chunks)
        res.count("foreign_instrument_files")
        for v in scratch.violations:
            res.violation(v["key"].replace("C16:", "C04:", 1), v["what"], v.get("case"))


def run_shard(spec_, res):
    if spec_.get("shard") == 0:
        nested_proxy_files(res, random.Random(spec_.get("seed", 0) + 3), 60 if spec_["tier"] == "quick" else 600)
        older_sampler_layouts(res, random.Random(spec_.get("seed", 0) + 4), 40 if spec_["tier"] == "quick" else 400)
    import rv.api as api
    monitors.install()
    rng = random.Random(env.shard_seed(spec_["shard"]))
    tier, seed = spec_["tier"], spec_["seed"]
    start = spec_["shard"] * spec_["encoded"]
    for i in range(start, start + spec_["encoded"]):
        encoded_case(res, seed, i, tier, rng)
    for name in spec_["fixtures"]:
        with open(os.path.join(env.FIXTURE_DIR, name), "rb") as f:
            raw = f.read()
        fixture_compare(res, name, raw)
        run_edits(res, f"fixture:{name}", raw, {"fixture": name}, rng, tier)
    for k in range(spec_["edit_files"]):
        idx = 650000 + spec_["shard"] * 1000 + k
        try:
            c = workload.project_case(seed, idx, tier, max_modules=4)
            N = build.norm(c.snap, "before")
            raw = refcodec.encode(N, refcodec.Choices(rng)) if k % 2 else c.obj.read()
        except Exception:
            res.count("generated_unusable")
            continue
        run_edits(res, f"generated:{'ref-encoded' if k % 2 else 'rv-written'}#{idx}", raw, c.describe(), rng, tier)
    # MetaModules that came from a file answer to `u_<label>` for exactly the controller whose label chunk says so (unlabelled
    # controllers in front of labelled ones included)
    from .. import aliasprobe
    aliasprobe.run(res, "C04", random.Random(seed * 7 + spec_["shard"]), 12 if tier == "quick" else 120)
    # the same bytes handed over in every kind of stream and under odd file names: what they denote does not depend on that
    import shutil
    import tempfile
    tdir = tempfile.mkdtemp(prefix="rvmon-c04-", dir=os.environ.get("TMPDIR", "/var/tmp"))
    try:
        todo = []
        for name in spec_["fixtures"][:2]:
            with open(os.path.join(env.FIXTURE_DIR, name), "rb") as f:
                todo.append((f.read(), {"fixture": name}))
        try:
            c = workload.project_case(seed, 660000 + spec_["shard"], tier, max_modules=5)
            todo.append((refcodec.encode(build.norm(c.snap, "before"), refcodec.Choices(rng)), c.describe()))
        except Exception:
            res.count("generated_unusable")
        for k, (raw, desc) in enumerate(todo):
            sub = os.path.join(tdir, str(k))
            os.makedirs(sub)
            workload.loads_through_streams_and_names(res, "C04", raw, _snap, desc, sub)
    finally:
        shutil.rmtree(tdir, ignore_errors=True)
    for name, msg in monitors.take_failures():
        res.violation(f"C04:ambient:{name}", msg, {"monitor": name})
    if spec_["shard"] == 0:
        pass
    res.exhaustive = tier == "thorough"


def replay(case, res):
    monitors.install()
    res.inconclusive.append("replay by re-running the shard; file, edit family and position are in the replay file")
