"""C10 - stored controller encodings are exact bijections on each controller's range.

Complete enumeration on real module instances through Module.set_raw / getattr /
Module.get_raw / Controller.pattern_value; the oracle is rvmon.spec's arithmetic.
"""
import enum
from io import BytesIO

from .. import spec

PROPERTY = "C10"
LEVEL = "exploration"
RULE = ("one case = one (module type, controller, unit variant, value) quadruple driven through "
        "set_raw -> getattr -> get_raw -> pattern_value on a real module instance; every value of every "
        "range, every enum member and both booleans are enumerated, so all cases are distinct by "
        "construction; non-trivial = all of them (each is a distinct point of the encoding)")
EXHAUSTIVE_AXIS = "(controller, unit variant, value) for all 502 spec controllers + one user-defined representative"
ASSUMPTIONS = [
    "rvmon.spec's three-line arithmetic per kind is the reading of the property: stored = v - min if min < 0 (range, compact, unit-dependent) else v; no_offset stored = v; enum stored = member value; bool stored = 0/1",
    "pattern encoding judged for ranged kinds only (range, unit-dependent: scaled; compact: v - min); enum/bool pass through unjudged",
    "user-defined MetaModule controllers are represented by user_defined_1 with its unmapped range 0..44100",
]
REQUIRED_COUNTERS = ["pairs_checked", "pattern_endpoints_checked"]
WORKERS = {"quick": 4, "thorough": 16}


def _tasks():
    sp = spec.load()
    tasks = []
    for T, t in sorted(sp.items()):
        for c in t.controllers:
            if c.kind == "dependent":
                for unit in c.ranges:
                    lo, hi = c.ranges[unit]
                    tasks.append((hi - lo + 1, T, c.name, unit))
            elif c.kind in ("enum",):
                tasks.append((len(c.members), T, c.name, None))
            elif c.kind == "bool":
                tasks.append((2, T, c.name, None))
            else:
                tasks.append((c.max - c.min + 1, T, c.name, None))
    tasks.append((44101, "MetaModule", "user_defined_1", None))
    return tasks


def _plan_core(tier, seed):
    n = 4 if tier == "quick" else 16
    tasks = sorted(_tasks(), reverse=True)
    bins = [[0, []] for _ in range(n)]
    for cost, T, c, u in tasks:
        b = min(bins, key=lambda b: b[0])
        b[0] += cost
        b[1].append([T, c, u])
    return [{"tier": tier, "tasks": b[1], "shard": i} for i, b in enumerate(bins)]


def _val(x):
    return x.value if isinstance(x, enum.Enum) else x


def check_controller(res, T, cname, unit, via_clone=False):
    from rv.modules import MODULE_CLASSES
    sp = spec.load()
    t = sp[T]
    cls = MODULE_CLASSES[t.mtype]
    mod = cls()
    if via_clone:
        mod = mod.clone()
        res.count("via_clone_controllers")
    K = f"{T}.{cname}" + (f"[{unit}]" if unit else "")
    if cname == "user_defined_1":
        sc = spec.Ctl()
        sc.name, sc.kind, sc.min, sc.max = cname, "range", 0, 44100
        sc.members = sc.ranges = None
        mod.user_defined_controllers = 1
    else:
        sc = t.ctl(cname)
    if sc.kind == "dependent":
        unit_enum = getattr(cls, sc.enum)
        setattr(mod, sc.depends_on, unit_enum[unit])
        got_t = cls.controllers[cname].instance_value_type(mod)
        res.case((K, "unit-range"))
        if (got_t.min, got_t.max) != sc.ranges[unit]:
            res.violation(f"C10:unit-range:{K}", f"{K}: unit selects {got_t!r}, spec says {sc.ranges[unit]}", {"ctl": K})
    ctl = cls.controllers[cname]
    if sc.kind in ("range", "compact", "no_offset") and cname != "user_defined_1":
        # an assignment that is REFUSED (out of range, strict mode) leaves value and stored form as they were
        # (unit-dependent controllers only warn, by design: not probed)
        from rv.errors import ControllerValueError as _CVE
        lo_, hi_ = sc.bounds(unit)
        keep = lo_ + (hi_ - lo_) // 3
        try:
            setattr(mod, cname, keep)
            raw_keep = mod.get_raw(cname)
            for bad in (hi_ + 28, lo_ - 100):
                try:
                    setattr(mod, cname, bad)
                except _CVE:
                    pass
                except Exception:
                    pass
                res.count("refused_assignments_checked")
                if _val(getattr(mod, cname)) != keep or mod.get_raw(cname) != raw_keep:
                    res.violation(f"C10:refused-assignment-stored:{sc.kind}", f"{K}: value {keep} (stored {raw_keep}); after the refused assignment of {bad} the controller reads "
                                                                             f"{getattr(mod, cname)!r}, stored form {mod.get_raw(cname)}", {"ctl": K, "bad": bad})
                    break
        except Exception as e:
            res.count("refused_assignment_probe_unusable")
    dom = sc.domain(unit)
    lo_hi = sc.bounds(unit) if sc.kind in ("range", "compact", "no_offset", "dependent") else None
    prev_raw = prev_pat = None
    bad = 0
    n = 0
    set_raw, get_raw, pattern_value = mod.set_raw, mod.get_raw, ctl.pattern_value
    offset = sc.kind in ("range", "compact", "dependent") and lo_hi[0] < 0
    for v in dom:
        n += 1
        want_raw = sc.stored(v, unit)
        set_raw(cname, want_raw)
        back = getattr(mod, cname)
        raw = get_raw(cname)
        why = None
        if _val(back) != v or (sc.kind == "bool" and type(back) is not bool):
            why = ("decode", f"set_raw({want_raw}) reads back {back!r}, expected {v!r}")
        elif raw != want_raw:
            why = ("encode", f"value {v!r} encodes to {raw!r}, expected {want_raw!r}")
        elif offset and raw < 0:
            why = ("negative", f"value {v!r} stored as negative {raw}")
        elif prev_raw is not None and not raw > prev_raw:
            why = ("collision", f"stored({v!r})={raw} not above stored(previous)={prev_raw}")
        prev_raw = raw
        if lo_hi is not None:
            pat = pattern_value(mod, v)
            if sc.kind == "compact":
                if pat != v - lo_hi[0]:
                    why = why or ("pattern-compact", f"pattern_value({v})={pat}, expected {v - lo_hi[0]}")
            else:
                if prev_pat is not None and pat < prev_pat:
                    why = why or ("pattern-monotone", f"pattern_value({v})={pat} < pattern_value({v - 1})={prev_pat}")
                if not isinstance(pat, int) or pat < 0 or pat > 0x8000:
                    why = why or ("pattern-range", f"pattern_value({v})={pat!r} outside 0..0x8000")
            prev_pat = pat
        if why:
            bad += 1
            res.violation(f"C10:{why[0]}:{T}.{cname}", f"{K}: {why[1]}", {"type": T, "controller": cname, "unit": unit, "value": _val(v), "via_clone": via_clone})
            if bad > 3:
                break
    if lo_hi is not None and sc.kind != "compact":
        lo, hi = lo_hi
        res.count("pattern_endpoints_checked", 2)
        if pattern_value(mod, lo) != 0:
            res.violation(f"C10:pattern-min:{T}.{cname}", f"{K}: pattern_value(min={lo}) = {pattern_value(mod, lo)} != 0", {"type": T, "controller": cname, "unit": unit, "value": lo})
        if pattern_value(mod, hi) != 0x8000:
            res.violation(f"C10:pattern-max:{T}.{cname}", f"{K}: pattern_value(max={hi}) = {pattern_value(mod, hi)} != 0x8000", {"type": T, "controller": cname, "unit": unit, "value": hi})
    elif lo_hi is not None:
        res.count("pattern_endpoints_checked", 2)
    if lo_hi is not None and res.evaluations % 7 == 0:
        lo, hi = lo_hi
        res.sample({"type": T, "controller": cname, "unit": unit, "kind": sc.kind, "values_enumerated": n, "via_clone": via_clone,
                    "observed_min": {"value": lo, "stored": get_raw(cname) if set_raw(cname, sc.stored(lo, unit)) is None else None, "pattern": pattern_value(mod, lo)},
                    "observed_max": {"value": hi, "stored": get_raw(cname) if set_raw(cname, sc.stored(hi, unit)) is None else None, "pattern": pattern_value(mod, hi)}})
    if lo_hi is not None and cname != "user_defined_1" and sc.kind != "dependent":
        # the same numbers handed over as int SUBCLASS instances (an application's IntEnum, a typed int): the encodings depend on
        # the number and the controller, not on the Python type carrying the number
        import enum as _enum
        lo, hi = lo_hi
        picks = sorted({lo, hi, (lo + hi) // 2, min(hi, lo + 1)})
        App = _enum.IntEnum("App", {f"V{i}": v for i, v in enumerate(picks)})

        class _Int(int):
            pass
        for member in list(App) + [_Int(v) for v in picks]:
            v = int(member)
            res.count("int_subclass_encodings")
            try:
                fresh = cls()
                setattr(fresh, cname, member)
                raw_m = fresh.get_raw(cname)
                pat_m, pat_i = pattern_value(fresh, member), pattern_value(fresh, v)
            except Exception as e:
                res.violation(f"C10:encode:{T}.{cname}:int-subclass-raises", f"{K}: value {member!r} raised {e!r}", {"type": T, "controller": cname, "value": v})
                break
            if raw_m != sc.stored(v, unit) or pat_m != pat_i or type(pat_m) is not int and not isinstance(pat_m, int):
                res.violation(f"C10:encode:{T}.{cname}:int-subclass", f"{K}: {member!r} stores as {raw_m!r} (documented {sc.stored(v, unit)}), pattern form {pat_m!r} (for the plain int {pat_i!r})",
                              {"type": T, "controller": cname, "value": v})
                break
    res.evaluations += n
    res.distinct += n
    res.count("pairs_checked", n)
    res.hist("pairs_by_kind", sc.kind, n)
    res.count("controllers_enumerated")


PROXY_TARGETS = [("Amplifier", "volume"), ("Amplifier", "balance"), ("Amplifier", "bipolar_dc_offset"), ("MultiSynth", "transpose"),
                 ("VorbisPlayer", "finetune"), ("Adsr", "attack_curve"), ("Amplifier", "inverse"), ("Lfo", "freq"), ("Glide", "freq_multiply"), ("Vibrato", "freq"),
                 ("Delay", "delay_l"), ("Echo", "delay"), ("Loop", "length")]


def check_proxy(res, T, cname, via_file=False, full=True, history="plain"):
    """A MetaModule user-defined controller mapped onto an embedded controller takes over its value type:
    the stored encoding of the proxy must be the same bijection (thorough tier)."""
    import rv.api as api
    from rv.modules import MODULE_CLASSES
    sp = spec.load()
    t = sp[T]
    sc = t.ctl(cname)
    emb = api.Project()
    m = emb.new_module(MODULE_CLASSES[t.mtype])
    mm = api.m.MetaModule(project=emb)
    if history == "options-chunk":
        # the MetaModule already sits in a song; its options (the count of exposed controllers among them) arrive as the options
        # block of a template, through the public load_chunk() hook
        from rv.modules import Chunk
        host = api.Project()
        host.attach_module(mm)
        template = api.m.MetaModule()
        template.user_defined_controllers = 1
        ch = Chunk()
        ch.chnm = type(mm).options_chnm
        ch.chdt = dict(template.options_chunks())[b"CHDT"]
        mm.load_chunk(ch)
        res.count("proxy_options_chunk_histories")
    else:
        mm.user_defined_controllers = 1
    mm.mappings.values[0] = mm.Mapping((1, sc.number - 1))
    mm.update_user_defined_controllers()
    if history == "nested":
        # macro controls handed up one level: an OUTER MetaModule exposes the user-defined controller of the MetaModule it embeds;
        # the outer slot encodes like the controller it finally stands for
        shell = api.Project()
        shell.attach_module(mm)
        outer = api.m.MetaModule(project=shell)
        outer.user_defined_controllers = 1
        outer.mappings.values[0] = outer.Mapping((mm.index, list(mm.controllers).index("user_defined_1")))
        outer.update_user_defined_controllers()
        mm = outer
        res.count("proxy_nested_histories")
    if via_file:
        mm = mm.clone()  # the reader resolves the mapped value types again
        m = mm.project.modules[1]
    if history == "recount":
        # the controller is hidden and shown again (count lowered, then raised) without re-deriving the mappings
        mm.user_defined_controllers = 0
        mm.user_defined_controllers = 1
        res.count("proxy_recount_histories")
    units = [next(iter(sc.ranges))] if sc.kind == "dependent" else [None]
    if history == "units" and sc.kind == "dependent":
        units = list(sc.ranges)
    for unit in units:
        if history == "units" and sc.kind == "dependent":
            # the embedded unit controller changes, the mappings are derived again: the proxy follows the new unit
            setattr(m, sc.depends_on, getattr(type(m), sc.enum)[unit])
            mm.update_user_defined_controllers()
            res.count("proxy_unit_changes")
        _check_proxy_domain(res, mm, sc, T, cname, unit, via_file, full, history)


def _check_proxy_domain(res, mm, sc, T, cname, unit, via_file, full, history):
    n = 0
    prev = None
    dom = list(sc.domain(unit))
    if not full and len(dom) > 600:
        dom = dom[:200] + dom[len(dom) // 2 - 100:len(dom) // 2 + 100] + dom[-200:]
    proxy = type(mm).controllers["user_defined_1"]
    if sc.kind in ("range", "compact", "no_offset", "dependent"):
        lo, hi = sc.bounds(unit)
        res.case((T, cname, "proxy-pattern", via_file))
        want_lo, want_hi = (0, hi - lo) if sc.kind == "compact" else (0, 0x8000)
        got_lo, got_hi = proxy.pattern_value(mm, lo), proxy.pattern_value(mm, hi)
        if (got_lo, got_hi) != (want_lo, want_hi):
            res.violation(f"C10:proxy-pattern:{sc.kind}:{T}.{cname}", f"user-defined controller mapped on {T}.{cname} ({sc.kind}, via_file={via_file}, history={history}, unit={unit}): pattern encoding of min/max is {got_lo:#x}/{got_hi:#x}, expected {want_lo:#x}/{want_hi:#x}",
                          {"type": T, "controller": cname, "via_file": via_file})
    for v in dom:
        n += 1
        want = sc.stored(v, unit)
        mm.set_raw("user_defined_1", want)
        back = mm.user_defined_1
        raw = mm.get_raw("user_defined_1")
        if _val(back) != v or raw != want or (prev is not None and raw <= prev):
            res.violation(f"C10:proxy:{sc.kind}:{T}.{cname}", f"user-defined controller mapped on {T}.{cname} ({sc.kind}, via_file={via_file}, history={history}, unit={unit}): stored {want} reads {back!r}, re-encodes to {raw!r} (value {v!r})",
                          {"type": T, "controller": cname, "value": _val(v), "via_file": via_file})
            break
        prev = raw
    res.evaluations += n
    res.distinct += n
    res.count("proxy_pairs_checked", n)
    # the bytes: what the SYNTH writer and the PROJECT writer put into the controller's CVAL chunk, read back without rv
    import struct
    import rv.api as api
    from .. import iffparse, workload
    sample_vals = [dom[0], dom[-1], dom[len(dom) // 2]]
    try:
        dflt = sc.default_value()
        dflt = next((x for x in dom if _val(x) == _val(dflt)), None)
    except Exception:
        dflt = None
    if dflt is not None and dflt not in sample_vals:
        sample_vals.append(dflt)                 # the value the TARGET starts out with is a value like any other for the slot
        res.count("proxy_file_checks_at_target_default")
    target = mm.project.modules[1]
    if history == "nested":
        target = target.project.modules[1]
    holder = None
    for ctx in ("synth", "project"):
        if ctx == "project":
            if mm.parent is None:
                holder = api.Project()
                holder.attach_module(mm)
            else:
                holder = mm.parent
        for v in sample_vals:
            want = sc.stored(v, unit)
            mm.set_raw("user_defined_1", want)
            if via_file:
                # a loaded MetaModule is not linked to its embedded modules: the embedded controller is edited on its own and
                # holds something else than the slot when the file is written
                other = dom[0] if _val(v) != _val(dom[0]) else dom[-1]
                try:
                    setattr(target, cname, other)
                    res.count("proxy_files_with_slot_and_target_apart")
                except Exception:
                    res.count("proxy_target_edit_refused")
            raw = api.Synth(mm).read() if ctx == "synth" else holder.read()
            chunks = iffparse.parse(raw)
            # CVALs of the MetaModule's own block: in a project file, the block whose STYP is MetaModule and that is not nested
            cvals, inside = [], False
            for cid, pl, *_ in chunks:
                if cid == b"STYP":
                    inside = pl.rstrip(b"\0") == b"MetaModule"
                    if inside:
                        cvals = []
                elif cid == b"CVAL" and inside:
                    cvals.append(struct.unpack("<i", pl)[0])
                elif cid == b"SEND" and inside and cvals:
                    break
            res.count("proxy_cval_bytes_checked")
            if len(cvals) < 6 or cvals[5] != want:
                res.violation(f"C10:proxy-bytes:{ctx}:{sc.kind}:{T}.{cname}", f"user-defined controller mapped on {T}.{cname} holding {v!r}: the {ctx} writer stores {cvals[5] if len(cvals) > 5 else None}, documented stored form {want} "
                                                                            f"(via_file={via_file}, history={history}, unit={unit})", {"type": T, "controller": cname, "value": _val(v), "ctx": ctx})
                return
            back = workload.load(raw)
            got = (back.module if ctx == "synth" else back.modules[mm.index]).user_defined_1
            if _val(got) != _val(v):
                res.violation(f"C10:proxy-file:{ctx}:{sc.kind}:{T}.{cname}", f"user-defined controller mapped on {T}.{cname} holding {v!r} loads back as {got!r} from the {ctx} file", {"type": T, "controller": cname, "value": _val(v), "ctx": ctx})
                return


def embedded_edits(res, tier):
    """Controllers of modules that live INSIDE a loaded module (a Sampler's effect synth; the project of a MetaModule whose
    embedded file carries any version stamp, also one newer than this library writes): assigning v and saving stores the
    documented encoding of v - read back from the bytes without rv - and reloading returns v."""
    import random
    import rv.api as api
    from rv.modules import MODULE_CLASSES
    from .. import refcodec, workload
    sp = spec.load()
    rng = random.Random(23)
    cands = [(T, sc) for T, t in sorted(sp.items()) if T not in ("Output", "MetaModule") for sc in t.controllers
             if sc.kind in ("range", "compact", "no_offset") and sc.attached]
    for k in range(60 if tier == "quick" else 600):
        T, sc = rng.choice([c for c in cands if c[1].min < 0] if k % 2 else cands)
        cls = MODULE_CLASSES[sp[T].mtype]
        inner_mod = cls()
        v0 = rng.randint(sc.min, sc.max)
        setattr(inner_mod, sc.name, v0)
        how = ("sampler-effect", "metamodule", "metamodule-newer-stamp", "metamodule-in-metamodule")[k % 4]
        if how == "sampler-effect":
            outer = api.m.Sampler()
            outer.effect = api.Synth(inner_mod)
            find = lambda o: o.effect.module
            dec_path = lambda d: d["module"]["payload"]["effect"]["module"]
        else:
            proj = api.Project()
            proj.attach_module(inner_mod)
            if how == "metamodule-newer-stamp":
                proj.sunvox_version = rng.choice([(2, 1, 3, 0), (2, 2, 0, 0), (9, 9, 9, 9)])
            outer = api.m.MetaModule(project=proj)
            find = lambda o: o.project.modules[1]
            dec_path = lambda d: d["module"]["payload"]["project"]["modules"][1]
            if how == "metamodule-in-metamodule":
                proj2 = api.Project()
                proj2.attach_module(outer)
                outer = api.m.MetaModule(project=proj2)
                find = lambda o: o.project.modules[1].project.modules[1]
                dec_path = lambda d: d["module"]["payload"]["project"]["modules"][1]["payload"]["project"]["modules"][1]
        case = {"type": T, "controller": sc.name, "container": how}
        res.case(("embedded-edit", T, sc.name, how, k))
        res.count("embedded_edit_cases")
        res.hist("embedded_edit_containers", how)
        try:
            loaded = outer.clone()
            target = find(loaded)
            v = rng.choice([x for x in (sc.min, sc.max, rng.randint(sc.min, sc.max)) if x != v0] or [v0])
            setattr(target, sc.name, v)
            raw = api.Synth(loaded).read()
            dec, _problems = refcodec.decode(raw)
            stored_typed = dec_path(dec)["controllers"][sc.name]
            again = find(workload.load(raw).module)
        except Exception as e:
            res.violation(f"C10:embedded-edit-raises:{how}:{workload.exc_key(e)}", f"{T}.{sc.name} inside a loaded {how}: {e!r}", case)
            continue
        if stored_typed != v or getattr(again, sc.name) != v:
            res.violation(f"C10:encode:embedded:{how}:{sc.kind}", f"{T}.{sc.name} = {v} assigned inside a loaded {how} (was {v0}): the file stores {stored_typed} (decoded per the documented "
                                                                  f"encoding), reloading gives {getattr(again, sc.name)}", case)


def surplus_cval_files(res, tier):
    """Files from a NEWER writer: more CVAL chunks than this library knows controllers for the type.  The known controllers
    decode exactly as without the surplus; values that live elsewhere (the Sampler's vibrato / fade-out fields in its
    instrument record) are not touched by it."""
    import random
    import struct
    import rv.api as api
    from rv.modules import MODULE_CLASSES
    from .. import iffparse, workload
    sp = spec.load()
    rng = random.Random(11)
    for T, t in sorted(sp.items()):
        if T == "Output":
            continue
        cls = MODULE_CLASSES[t.mtype]
        m = cls()
        want = {}
        for sc in t.controllers:
            if T == "MetaModule" and sc.name.startswith("user_defined"):
                continue
            try:
                if sc.kind in ("range", "compact", "no_offset"):
                    v = sc.max if sc.default_value() != sc.max else sc.min
                elif sc.kind == "bool":
                    v = not sc.default_value()
                elif sc.kind == "enum":
                    v = [x for _n, x in sc.members if x != sc.default_value()][-1]
                else:
                    continue
                setattr(m, sc.name, v)
                want[sc.name] = v
            except Exception:
                pass
        for ctx in ("synth", "project"):
            if ctx == "synth":
                raw = api.Synth(m).read()
            else:
                p = api.Project()
                p.attach_module(m)
                raw = p.read()
            chunks = [(c[0], c[1]) for c in iffparse.parse(raw)]
            last = max(i for i, c in enumerate(chunks) if c[0] == b"CVAL") if any(c[0] == b"CVAL" for c in chunks) else None
            if last is None:
                continue
            k = rng.randint(1, 6)
            extra = [(b"CVAL", struct.pack("<i", rng.choice([1, 2, 200, 77, 31000]))) for _ in range(k)]
            out = chunks[:last + 1] + extra + chunks[last + 1:]
            # the CMID record grows with the CVAL list in real files
            for i, c in enumerate(out):
                if c[0] == b"CMID" and i > last:
                    out[i] = (b"CMID", c[1] + bytes([0, 0, 0, 0, 0, 0, 0, 0xFF]) * k)
                    break
            res.count("surplus_cval_files")
            res.case((T, ctx, "surplus-cval", k))
            desc = {"type": T, "ctx": ctx, "surplus": k}
            try:
                o = workload.load(iffparse.build(out))
            except Exception as e:
                res.violation(f"C10:surplus-cval-unloadable:{T}:{workload.exc_key(e)}", f"{T} ({ctx}) with {k} surplus CVAL chunks does not load: {e!r}", desc)
                break
            lm = o.module if ctx == "synth" else o.modules[1]
            for name, v in want.items():
                got = _val(getattr(lm, name))
                if got != _val(v):
                    res.violation(f"C10:decode:{T}.{name}:surplus-cval", f"{T}.{name} stored as {v!r}; with {k} surplus CVAL chunks behind the known ones it loads as {got!r} ({ctx})", desc)
                    break


def reflect_histories(res, tier):
    """A MultiCtl's own `value` after reflect(): whatever route put the value there (file, set_raw, assignment, reflect with
    or without sending it out again), its stored form is the value itself."""
    import random
    import rv.api as api
    from .. import workload
    rng = random.Random(5)
    for k in range(40 if tier == "quick" else 400):
        p = api.Project()
        amp = p.new_module(api.m.Amplifier, volume=rng.randint(0, 1024))
        mc = p.new_module(api.m.MultiCtl, value=rng.randint(0, 32768), mappings=[(0, 32768, 1, 0, 0, 0, 0, 0)])
        mc >> amp
        route = k % 3
        if route == 1:
            p = workload.load(p.read())
            amp, mc = p.modules[1], p.modules[2]
        elif route == 2:
            mc.set_raw("value", rng.randint(0, 32768))
        for step in range(3):
            amp.volume = rng.randint(0, 1024)
            prop_ = rng.random() < 0.5
            mc.reflect(0, propagate=prop_)
            res.count("reflect_checks")
            res.case(("reflect", k, step, prop_, route))
            v, raw = mc.value, mc.get_raw("value")
            if raw != v:
                res.violation("C10:encode:MultiCtl.value:after-reflect", f"after reflect(0, propagate={prop_}) (route {('constructed', 'loaded', 'set_raw')[route]}): value reads {v}, stored form {raw}",
                              {"route": route, "propagate": prop_, "step": step})
                break
            q = workload.load(p.read())
            if q.modules[mc.index].value != v:
                res.violation("C10:decode:MultiCtl.value:after-reflect", f"after reflect(0, propagate={prop_}): value {v} is saved and loaded as {q.modules[mc.index].value}",
                              {"route": route, "propagate": prop_, "step": step})
                break


def short_cval_files(res, tier):
    """Old-format files stop their CVAL list before newer controllers (the shipped lfo/loop/issue109 files do).  A module
    loaded from such a file, whose unit is then SET by the user, must encode the dependent controller under that unit."""
    import struct
    from io import BytesIO
    import rv.api as api
    from rv.modules import MODULE_CLASSES
    from .. import iffparse
    sp = spec.load()
    for T, t in sorted(sp.items()):
        deps = [c for c in t.controllers if c.kind == "dependent"]
        if not deps:
            continue
        cls = MODULE_CLASSES[t.mtype]
        raw = api.Synth(cls()).read()
        chunks = [(c[0], c[1]) for c in iffparse.parse(raw)]
        names = [c.name for c in t.controllers]
        for sc in deps:
            unit_pos = names.index(sc.depends_on)
            dep_pos = names.index(sc.name)
            for keep in sorted({unit_pos, max(dep_pos + 1, 1), 1}):
                if keep > unit_pos:
                    continue  # the unit controller itself must be missing from the file
                out, seen = [], 0
                for cid, pl in chunks:
                    if cid == b"CVAL":
                        seen += 1
                        if seen > keep:
                            continue
                    if cid == b"CMID":
                        pl = pl[:8 * keep]
                        if not pl:
                            continue
                    out.append((cid, pl))
                try:
                    m = api.read_sunvox_file(BytesIO(iffparse.build(out))).module
                except Exception as e:
                    res.violation(f"C10:short-cval-file-unloadable:{T}", f"{T} file with {keep} CVALs does not load: {e!r}", {"type": T, "kept": keep})
                    continue
                ctl = cls.controllers[sc.name]
                for unit, (lo, hi) in sc.ranges.items():
                    setattr(m, sc.depends_on, getattr(cls, sc.enum)[unit])
                    res.case((T, sc.name, "short-cval", keep, unit))
                    res.count("short_cval_unit_checks")
                    got = (ctl.pattern_value(m, lo), ctl.pattern_value(m, hi))
                    m.set_raw(sc.name, hi)
                    back, raw_hi = getattr(m, sc.name), m.get_raw(sc.name)
                    if got != (0, 0x8000) or back != hi or raw_hi != hi:
                        res.violation(f"C10:short-cval-file:{T}.{sc.name}",
                                      f"{T} loaded from a file with {keep} CVALs, unit set to {unit}: pattern(min,max)={got[0]:#x},{got[1]:#x} (expected 0x0,0x8000), stored max {raw_hi} reads {back}",
                                      {"type": T, "controller": sc.name, "unit": unit, "kept": keep})
                        break


def sampler_record_histories(res, tier):
    """The Sampler's controllers that live in its instrument record (not in CVAL chunks), on Samplers with a past: one that was
    handed a chunk of another Sampler through the public load_chunk() hook, one loaded from a file whose writer left the
    instrument record out, one loaded from a complete file.  v -> file -> v."""
    import random
    import rv.api as api
    from rv.modules import Chunk
    from .. import iffparse, workload
    # (documented instrument-record fields: vibrato type 0..2 at $92, attack/depth 0..255, rate 0..63, fade-out 0..8192)
    recs = [("vibrato_type", [0, 1, 2]), ("vibrato_attack", range(256)), ("vibrato_depth", range(256)), ("vibrato_rate", range(64)), ("volume_fadeout", range(8193))]
    rng = random.Random(41)

    def handed_a_chunk():
        src = api.m.Sampler()
        src.volume_envelope.points = [(0, 0x8000), (16, 0x4000), (64, 0)]
        pairs = dict(src.volume_envelope.chunks())
        ch = Chunk()
        ch.chnm = int.from_bytes(pairs[b"CHNM"], "little")
        ch.chdt = pairs[b"CHDT"]
        dst = api.m.Sampler()
        dst.load_chunk(ch)
        return dst

    def file_without_record():
        chunks = [(c[0], c[1]) for c in iffparse.parse(api.Synth(api.m.Sampler()).read())]
        out, skip = [], False
        for cid, pl in chunks:
            if cid == b"CHNM":
                skip = pl == bytes(4)
            if skip and cid in (b"CHNM", b"CHDT", b"CHFF", b"CHFR"):
                continue
            skip = False
            out.append((cid, pl))
        return workload.load(iffparse.build(out)).module

    for hname, make in (("handed-a-chunk", handed_a_chunk), ("file-without-record", file_without_record), ("complete-file", lambda: api.m.Sampler().clone())):
        for name, dom in recs:
            dom = list(dom)
            vals = dom if len(dom) <= 8 else [dom[0], dom[-1], dom[len(dom) // 2], rng.choice(dom), rng.choice(dom)]
            for v in vals:
                case = {"type": "Sampler", "controller": name, "value": v, "history": hname}
                res.case(("sampler-record", hname, name, v))
                res.count("sampler_record_history_checks")
                try:
                    m = make()
                    setattr(m, name, api.m.Sampler.VibratoType(v) if name == "vibrato_type" else v)
                    m.panning = -100
                    if v % 2:
                        # (the instrument's name, next to these fields in the record, is longer than its 22-byte field and is
                        #  cut inside a multi-byte character)
                        m.instrument_name = ("Grand Piano \u00e9\u00e9\u00e9\u00e9\u00e9\u65e5\u672c" if v % 4 == 1 else "\U0001f600" * 6).encode("utf8")
                    back = workload.load(api.Synth(m).read()).module
                except Exception as e:
                    res.violation(f"C10:sampler-record-raises:{hname}:{workload.exc_key(e)}", f"Sampler ({hname}).{name} = {v!r}: {e!r}", case)
                    break
                got = getattr(back, name)
                if _val(got) != v or back.get_raw(name) != m.get_raw(name) or back.panning != -100:
                    res.violation(f"C10:sampler-record:{hname}:{name}", f"Sampler ({hname}): {name} = {v!r} reads back {got!r} from the written file (panning {back.panning})", case)
                    break


def subclassed_ranges(res):
    """An application module type whose added controllers use its OWN refinements of the library's range kinds (a Range in
    steps of two, a CompactRange for semitones, a NoOffsetRange): such a controller encodes like the kind it refines - stored
    form and pattern column, on the module and through a MetaModule slot mapped onto it."""
    import rv.api as api
    from rv import controller as rvc
    from rv.errors import RangeValidationError
    from rv.modules import MODULE_CLASSES
    originals = dict(MODULE_CLASSES)

    class EvenRange(rvc.Range):
        def validate(self, value):
            super().validate(value)
            if value % 2:
                raise RangeValidationError(value, self.min, self.max)

    class Semitones(rvc.CompactRange):
        pass

    kinds = [("even", EvenRange, -64, 64, 2, "range"), ("semitones", Semitones, -24, 24, 1, "compact"), ("plain-sub", type("Plain", (rvc.Range,), {}), 0, 1000, 1, "range"),
             ("positive-even", EvenRange, 10, 50, 2, "range")]
    if hasattr(rvc, "NoOffsetRange"):
        kinds.append(("no-offset", type("Signed", (rvc.NoOffsetRange,), {}), -100, 100, 1, "no_offset"))
    try:
        ns = {"__module__": api.m.Amplifier.__module__, "__doc__": api.m.Amplifier.__doc__}
        for nm, cls_, lo, hi, _step, _k in kinds:
            ns["rvmon_" + nm.replace("-", "_")] = rvc.Controller(cls_(lo, hi), lo if lo > 0 else 0)
        try:
            Step = type("Amplifier", (api.m.Amplifier,), ns)
        except Exception as e:
            res.count("range_subclass_module_refused")
            res.hist("range_subclass_module_refused_why", type(e).__name__)
            return
        for where in ("module", "cloned", "through-metamodule"):
            mod = Step()
            if where == "cloned":
                mod = mod.clone()
                if type(mod) is not Step:
                    res.count("range_subclass_clone_is_stock_class")
                    continue
            for nm, cls_, lo, hi, step, kind in kinds:
                name = "rvmon_" + nm.replace("-", "_")
                ctl = type(mod).controllers[name]
                owner, cname = mod, name
                if where == "through-metamodule":
                    inner = api.Project()
                    inner.attach_module(mod) if mod.parent is None else None
                    mm = api.m.MetaModule(project=mod.parent)
                    mm.user_defined_controllers = 1
                    mm.mappings.values[0] = mm.Mapping((mod.index, list(type(mod).controllers).index(name)))
                    mm.update_user_defined_controllers()
                    owner, cname, ctl = mm, "user_defined_1", type(mm).controllers["user_defined_1"]
                case = {"family": "subclassed-ranges", "kind": nm, "where": where}
                res.case(("subclassed-ranges", nm, where))
                prev = None
                for v in range(lo, hi + 1, step):
                    res.count("subclassed_range_values")
                    want_raw = v if kind == "no_offset" else (v - lo if lo < 0 else v)
                    want_pat = (v - lo) if kind == "compact" else int((v - lo) / ((hi - lo) / 32768))
                    try:
                        owner.set_raw(cname, want_raw)
                        back, raw, pat = getattr(owner, cname), owner.get_raw(cname), ctl.pattern_value(owner, v)
                    except Exception as e:
                        res.violation(f"C10:subclassed-range-raises:{nm}:{workload_exc(e)}", f"{nm} ({where}): value {v}: {e!r}", case)
                        break
                    if back != v or raw != want_raw or pat != want_pat or (prev is not None and pat <= prev and kind != "range"):
                        res.violation(f"C10:subclassed-range:{kind}:{where}", f"controller with a refined {kind} range {lo}..{hi} ({nm}, {where}): value {v}: stored form {want_raw} reads {back}, "
                                                                             f"re-encodes to {raw}; pattern column {pat:#x}, the {kind} rule gives {want_pat:#x}", case)
                        break
                    prev = pat
    finally:
        MODULE_CLASSES.clear()
        MODULE_CLASSES.update(originals)


def application_module_types(res):
    """A module type the library does not know, written by an application the way the built-in ones are written: a controller
    whose range depends on a unit controller (the DEFAULT unit is not the enum's first member, and the fall-back range is not
    the first unit's range), plain and compact ranges.  Its controllers encode by the same rules."""
    import enum
    import rv.api as api
    from rv import controller as rvc
    from rv.modules import MODULE_CLASSES, Behavior as B, Module
    originals = dict(MODULE_CLASSES)
    try:
        class Mode(enum.IntEnum):
            bipolar = 0
            boost = 1
            cut = 2
        ranges = {Mode.bipolar: (-128, 128), Mode.boost: (0, 256), Mode.cut: (0, 64)}
        ns = {"name": "Tilt", "mtype": "Tilt", "mgroup": "Effect", "flags": 0x51, "default_flags": 0x51, "behaviors": {B.receives_audio, B.sends_audio}, "Mode": Mode,
              "volume": rvc.Controller((0, 256), 256),
              "amount": rvc.Controller(rvc.DependentRange("mode", {k: rvc.WarnOnlyRange(*v) for k, v in ranges.items()}, rvc.WarnOnlyRange(0, 256)), 0),
              "mode": rvc.Controller(Mode, Mode.boost),
              "shift": rvc.Controller(rvc.CompactRange(-24, 24), 0)}
        try:
            Tilt = type("Tilt", (Module,), ns)
        except Exception as e:
            res.count("application_module_type_refused")
            res.hist("application_module_type_refused_why", type(e).__name__)
            return
        ctl = Tilt.controllers["amount"]
        for via_file in (False, True):
            for mode, (lo, hi) in ranges.items():
                mod = Tilt()
                mod.mode = mode
                if via_file:
                    try:
                        # (both ends of the unit's range go through a file: the reader meets the dependent controller's stored
                        #  value BEFORE the unit's, as in every file of a type declared the library's way)
                        for v0 in (lo, hi):
                            mod.amount = v0
                            back0 = api.read_sunvox_file(BytesIO(api.Synth(mod).read())).module
                            res.count("application_module_type_file_roundtrips")
                            if back0.amount != v0 or back0.mode != mode:
                                res.violation("C10:encode:application-type:dependent", f"unit {mode.name}: amount = {v0} goes through a file and comes back as {back0.amount} (unit {back0.mode!r})",
                                              {"family": "application-module-type", "unit": mode.name, "via_file": True})
                                break
                        mod = api.read_sunvox_file(BytesIO(api.Synth(mod).read())).module
                    except Exception as e:
                        res.violation(f"C10:application-type-raises:{workload_exc(e)}", f"application module type: save/load raised {e!r}", {"family": "application-module-type"})
                        continue
                    if type(mod) is not Tilt or mod.mode != mode:
                        res.count("application_module_type_not_reloaded_as_itself")
                        continue
                case = {"family": "application-module-type", "unit": mode.name, "via_file": via_file}
                res.case(("application-module-type", mode.name, via_file))
                t_ = ctl.instance_value_type(mod)
                if (t_.min, t_.max) != (lo, hi):
                    res.violation("C10:unit-range:application-type", f"unit {mode.name} (value {int(mode)}) selects range {t_.min}..{t_.max}, declared {lo}..{hi}", case)
                    continue
                for v in range(lo, hi + 1):
                    res.count("application_module_type_values")
                    want_raw = v - lo if lo < 0 else v
                    mod.set_raw("amount", want_raw)
                    back, raw = mod.amount, mod.get_raw("amount")
                    if back != v or raw != want_raw:
                        res.violation("C10:encode:application-type:dependent", f"unit {mode.name}: stored {want_raw} reads {back}, re-encodes to {raw} (value {v}, range {lo}..{hi})", case)
                        break
                if (ctl.pattern_value(mod, lo), ctl.pattern_value(mod, hi)) != (0, 0x8000):
                    res.violation("C10:pattern:application-type:dependent", f"unit {mode.name}: pattern encoding of min/max is {ctl.pattern_value(mod, lo):#x}/{ctl.pattern_value(mod, hi):#x}", case)
    finally:
        MODULE_CLASSES.clear()
        MODULE_CLASSES.update(originals)


def extended_sampler(res):
    """An application's Sampler subclass that adds controllers (declared after the Sampler's own ones, i.e. after its record
    fields that are not written as CVALs): they are stored like any other controller - stand-alone, cloned and in a project."""
    import rv.api as api
    from rv import controller as rvc
    from rv.modules import MODULE_CLASSES
    originals = dict(MODULE_CLASSES)
    try:
        try:
            Kit = type("Sampler", (api.m.Sampler,), {"rvmon_drive": rvc.Controller((0, 256), 0), "rvmon_tilt": rvc.Controller((-64, 64), 0),
                                                     "__module__": api.m.Sampler.__module__, "__doc__": api.m.Sampler.__doc__})
        except Exception as e:
            res.count("extended_sampler_refused")
            return
        for v1, v2 in ((256, -64), (1, 64), (77, -1)):
            m = Kit()
            m.rvmon_drive, m.rvmon_tilt, m.polyphony = v1, v2, 3
            case = {"family": "extended-sampler", "values": [v1, v2]}
            res.case(("extended-sampler", v1, v2))
            for how in ("synth", "clone", "project"):
                try:
                    if how == "synth":
                        raw = api.Synth(m).read()
                        back = api.read_sunvox_file(BytesIO(raw)).module
                    elif how == "clone":
                        back = m.clone()
                    else:
                        p = api.Project()
                        p.attach_module(Kit(rvmon_drive=v1, rvmon_tilt=v2, polyphony=3))
                        raw = p.read()
                        back = api.read_sunvox_file(BytesIO(raw)).modules[1]
                except Exception as e:
                    res.violation(f"C10:extended-sampler-raises:{how}:{workload_exc(e)}", f"Sampler subclass with two more controllers, {how}: {e!r}", case)
                    continue
                res.count("extended_sampler_roundtrips")
                got = (getattr(back, "rvmon_drive", None), getattr(back, "rvmon_tilt", None), back.polyphony)
                if got != (v1, v2, 3):
                    n_cval = sum(1 for c in __import__("rvmon.iffparse", fromlist=["x"]).parse(raw) if c[0] == b"CVAL") if how != "clone" else None
                    res.violation(f"C10:encode:extended-sampler:{how}", f"Sampler subclass: added controllers ({v1}, {v2}) and polyphony 3 come back as {got} after the {how} round trip"
                                                                        f"{'' if n_cval is None else f' ({n_cval} CVAL chunks in the file)'}", case)
    finally:
        MODULE_CLASSES.clear()
        MODULE_CLASSES.update(originals)


def workload_exc(e):
    from .. import workload
    return workload.exc_key(e)


def run_shard(spec_, res):
    if spec_.get("part") == "soak":
        from .. import soak
        for s_ in spec_["soak_seeds"]:
            soak.run(res, s_, spec_["tier"], PROPERTY, SOAK_KINDS, spec_["steps"])
        return
    if spec_["shard"] == 0:
        reflect_histories(res, spec_["tier"])
    if spec_["shard"] == 1:
        surplus_cval_files(res, spec_["tier"])
    if spec_["shard"] == 2:
        embedded_edits(res, spec_["tier"])
    if spec_["shard"] == 3:
        sampler_record_histories(res, spec_["tier"])
        subclassed_ranges(res)
        application_module_types(res)
        extended_sampler(res)
    for T, cname, unit in spec_["tasks"]:
        check_controller(res, T, cname, unit)
        if spec_["tier"] == "thorough" and T != "Output":
            check_controller(res, T, cname, unit, via_clone=True)
    nshards = 4 if spec_["tier"] == "quick" else 16
    for i, (T, cname) in enumerate(PROXY_TARGETS):
        if i % nshards == spec_["shard"]:
            for via_file in (False, True):
                check_proxy(res, T, cname, via_file=via_file, full=spec_["tier"] == "thorough")
                check_proxy(res, T, cname, via_file=via_file, full=False, history="recount")
                check_proxy(res, T, cname, via_file=via_file, full=False, history="nested")
                if not via_file:
                    check_proxy(res, T, cname, via_file=False, full=False, history="options-chunk")
                if spec.load()[T].ctl(cname).kind == "dependent":
                    check_proxy(res, T, cname, via_file=via_file, full=False, history="units")
    if spec_["shard"] == 0:
        short_cval_files(res, spec_["tier"])
    res.exhaustive = True


def finalize(merged, tier):
    sp = spec.load()
    if not merged["counters"].get("short_cval_unit_checks"):
        merged["inconclusive"].append("short-CVAL legacy files were not exercised")
    want = sum(1 for t in sp.values() for c in t.controllers for _ in (c.ranges or [None])) + 1
    if tier == "thorough":
        want = want * 2
    got = merged["counters"].get("controllers_enumerated", 0)
    if got < want:      # (shards replayed with debug logging count again)
        merged["inconclusive"].append(f"enumerated {got} (controller, unit) tasks, expected {want}")


def replay(case, res):
    check_controller(res, case["type"], case["controller"], case.get("unit"), via_clone=case.get("via_clone", False))


# ------------------------------------------------------------------ soak slice (rvmon.soak): long mixed histories on an object pool
SOAK_KINDS = ['encoding']


def plan(tier, seed):
    specs = _plan_core(tier, seed)
    k = 2 if tier == "quick" else 8
    for i in range(k):
        specs.append({"tier": tier, "part": "soak", "soak_seeds": [seed * 100003 + 1000 * i + j for j in range(8 if tier == "quick" else 40)],
                      "steps": 150 if tier == "quick" else 300, "seed": seed, "shard": 1000 + i, "tasks": []})
    return specs
