"""C16 - sampler instruments keep samples, envelopes and maps bit-exact."""
import os
import random
import struct

from .. import build, env, iffparse, monitors, refcodec, snapshot, workload

PROPERTY = "C16"
LEVEL = "exploration"
RULE = ("cases: (a) one generated Sampler (random subset of the 128 slots incl. 0 and 127, byte strings of every length class per "
        "format x channels, header fields at struct-width boundaries, envelopes with 0..64 points at 16-bit extremes and all flag "
        "combinations, random 119-entry note maps, vibrato/fadeout, editor fields across int32, effect absent / any module type) saved "
        "and loaded stand-alone, cloned and in a project, compared through the attribute catalogue AND decoded at the documented offsets by "
        "rvmon.refcodec; (b) legacy variants of tests/files/sampler.sunsynth built without rv (envelope chunks removed with randomised "
        "legacy envelope fields, signature wiped, record truncated to 0x184/0x188 bytes) loaded, checked against the documented "
        "conversion y*0x200+range_min, re-saved and re-loaded. distinct = distinct files; non-trivial = all")
ASSUMPTIONS = [
    "envelope point counts and sustain/loop point indices stay within the 8-bit legacy mirror fields of the instrument record (<= 255)",
    "sample names and the instrument name are generated without trailing NUL bytes (fixed-width NUL-padded fields cannot represent them)",
    "for legacy variants the requirement is 'no data lost': snapshot(load(save(load(v)))) == snapshot(load(v)), plus the documented envelope conversion for files without envelope chunks",
]
REQUIRED_COUNTERS = ["samplers", "synth_roundtrips", "records_decoded_at_offsets", "legacy_variants", "envelope_upgrades_checked", "slots_exercised"]
WORKERS = {"quick": 4, "thorough": 16}


def plan(tier, seed):
    n = 4 if tier == "quick" else 16
    per = 250 if tier == "quick" else 3000
    return [{"tier": tier, "seed": seed, "shard": i, "start": i * per, "count": per, "legacy": 150 if tier == "quick" else 600} for i in range(n)]


def check_sampler(res, c):
    import rv.api as api
    m = c.obj
    desc = c.describe()
    res.count("samplers")
    S = snapshot.snap_module(m, "project")
    pl = S["payload"]
    for i in pl["samples"]:
        res.seen("slots", i)
        res.hist("format_x_channels", f"{pl['samples'][i]['format']}x{pl['samples'][i]['channels']}")
        res.hist("data_length_class", "0" if not pl["samples"][i]["data"] else ("odd-tail" if len(pl["samples"][i]["data"]) % 2 else "frames"))
    res.hist("effect", "none" if pl["effect"] is None else pl["effect"]["module"]["type"])
    res.hist("envelope_points", len(pl["volume_envelope"]["points"]))
    g = build.gate_diff(build.expected_module(c.ad, "project"), S)
    g = [x for x in g if not x[0].startswith("/links")]
    if g:
        res.violation(f"C16:api-did-not-store:{snapshot.field_key(g[0][0])}", f"after building {g[0][0]} is {g[0][2]}, asked for {g[0][1]}", desc)
        return
    syn = api.Synth(m)
    try:
        raw = syn.read()
    except Exception as e:
        res.violation(f"C16:save-raises:{workload.exc_key(e)}", f"saving the sampler raised {e!r}", desc)
        return
    res.case(raw)
    S_syn = build.norm(snapshot.snap_synth(syn), "before")
    # independent decode at the documented offsets
    try:
        dec, problems = refcodec.decode(raw)
    except Exception as e:
        res.violation(f"C16:undecodable:{type(e).__name__}", f"independent decoder cannot parse the sampler file: {e!r}", desc)
        return
    res.count("records_decoded_at_offsets")
    for p in problems[:3]:
        res.violation("C16:structure:" + __import__("re").sub(r"0x[0-9a-f]+|\d+", "N", p)[:80], p, desc)
    for path, a, b in refcodec.compare(S_syn, dec)[:3]:
        res.violation(f"C16:offsets:{snapshot.field_key(path)}", f"{path}: object has {snapshot._short(a)}, documented offsets give {snapshot._short(b)}", desc)
    try:
        s2 = workload.load(raw)
    except Exception as e:
        res.violation(f"C16:unloadable:{workload.exc_key(e)}", f"written sampler does not load: {e!r}", desc)
        return
    res.count("synth_roundtrips")
    for path, a, b in snapshot.diff(S_syn, build.norm(snapshot.snap_synth(s2), "after"))[:3]:
        res.violation(f"C16:synth:{snapshot.field_key(path)}", f"{path}: before {a}, after {b}", desc)
    cl = m.clone()
    for path, a, b in snapshot.diff(S_syn["module"], build.norm_module(snapshot.snap_module(cl, "synth"), "after"))[:3]:
        res.violation(f"C16:clone:{snapshot.field_key(path)}", f"{path}: original {a}, clone {b}", desc)
    # a save that fails part-way through the instrument record (a field that does not fit its documented width), the field put
    # right, saved again: the bytes of the first good save
    for field, bad in (("volume_old", 300), ("ins_finetune", 999), ("editor_cursor", 2 ** 40), ("ins_relative_note", -500), ("max_version", -1))[c.index % 5:][:2]:
        good = getattr(m, field)
        try:
            setattr(m, field, bad)
        except Exception:
            continue
        failed = False
        try:
            api.Synth(m).read()
        except Exception:
            failed = True
        setattr(m, field, good)
        res.count("failed_record_saves" if failed else "oversized_record_fields_accepted")
        try:
            again = api.Synth(m).read()
        except Exception as e:
            res.violation(f"C16:save-raises-after-repair:{workload.exc_key(e)}", f"after a save that failed on {field} = {bad} and the field was put right, saving raised {e!r}", dict(desc, field=field))
            break
        if again != raw:
            res.violation(f"C16:save-after-failed-save:{field}", f"a save failed on {field} = {bad}; with the field put right the sampler saves {len(again)} bytes that differ from the {len(raw)} "
                                                                 f"it saved before", dict(desc, field=field))
            break
    import copy as _copy
    import pickle as _pickle
    how = ("pickle", "deepcopy", "copy")[c.index % 3]
    try:
        twin = {"pickle": lambda o: _pickle.loads(_pickle.dumps(o)), "deepcopy": _copy.deepcopy, "copy": _copy.copy}[how](s2.module)
        raw_twin = api.Synth(twin).read()
        res.count("copied_instrument_saves")
        if raw_twin != s2.read():
            res.violation(f"C16:copied-instrument:{how}", f"a {how} copy of the loaded sampler saves different bytes than the sampler itself", dict(desc, copy=how))
    except Exception as e:
        res.violation(f"C16:copied-instrument-raises:{how}:{workload.exc_key(e)}", f"a {how} copy of the loaded sampler cannot be saved: {e!r}", dict(desc, copy=how))
    p = api.Project()
    p.attach_module(m)
    Sp = build.norm_module(snapshot.snap_module(m, "project"), "before")
    p2 = workload.load(p.read())
    for path, a, b in snapshot.diff(Sp, build.norm_module(snapshot.snap_module(p2.modules[1], "project"), "after"))[:3]:
        res.violation(f"C16:project:{snapshot.field_key(path)}", f"{path}: before {a}, after {b}", desc)
    if c.index % 3 == 0:
        mutable_sample_buffers(res, c)
    # second round on the LOADED instrument: edit it in place (samples, envelopes, map, embedded effect) and save again
    from . import c06
    import random as _random
    if c.index % 2:
        s2.read()       # the loaded instrument has been saved once already when the edits arrive
        res.count("resave_cases_saved_before_editing")
    applied = c06.mutate_live(s2, _random.Random(c.seed * 104729 + c.index), 14, prefer=("/effect/", "/samples/", "_envelope"),
                              first_classes=("sampler-envelope-rebound", "sampler-sample-shared", "sampler-slot-emptied", "sampler-map-update") if c.index % 2 else ("sampler-map-tail-unmapped", "sampler-envelope-rebound", "sampler-map"))
    if applied:
        res.count("resave_after_edit")
        S_new = build.norm(snapshot.snap_synth(s2), "before")
        try:
            s3 = workload.load(s2.read())
        except Exception as e:
            res.violation(f"C16:resave-raises:{workload.exc_key(e)}", f"saving the loaded sampler again after in-place edits {applied[:3]} failed: {e!r}", desc)
            return
        for path, a, b in snapshot.diff(S_new, build.norm(snapshot.snap_synth(s3), "after"))[:3]:
            res.violation(f"C16:resave-stale:{snapshot.field_key(path)}", f"after in-place edits {applied[:4]} of the loaded sampler, {path}: object {a}, file {b}", desc)


def mutable_sample_buffers(res, c):
    """Sample data held in a MUTABLE buffer (bytearray) that the application keeps editing in place between saves: every save
    writes the bytes the buffer holds at that moment."""
    import rv.api as api
    m = c.obj.clone()
    slots = [i for i, s in enumerate(m.samples) if s is not None and len(s.data) >= 4]
    if not slots:
        return
    i = slots[c.index % len(slots)]
    s = m.samples[i]
    buf = bytearray(s.data)
    s.data = buf
    desc = dict(c.describe(), slot=i)
    try:
        first = workload.load(api.Synth(m).read()).module.samples[i].data
        for k in range(0, len(buf), max(1, len(buf) // 7)):
            buf[k] ^= 0x5A
        second = workload.load(api.Synth(m).read()).module.samples[i].data
    except Exception as e:
        res.violation(f"C16:resave-raises:{workload.exc_key(e)}", f"sampler whose sample data is a bytearray: {e!r}", desc)
        return
    res.count("mutable_sample_buffer_cases")
    if bytes(second) != bytes(buf) or bytes(first) == bytes(second):
        res.violation("C16:resave-stale:/module/payload/samples/N/data", f"slot {i}: sample data is a bytearray edited in place after a first save; the second file holds "
                                                                        f"{'the OLD bytes' if bytes(second) == bytes(first) else 'other bytes'}", desc)


# ------------------------------------------------------------------ legacy variants
def fixture_chunks():
    with open(os.path.join(env.FIXTURE_DIR, "sampler.sunsynth"), "rb") as f:
        raw = f.read()
    return [(c[0], c[1]) for c in iffparse.parse(raw)]


def make_variant(chunks, rng):
    """Returns (description, bytes, expected upgraded envelopes or None)."""
    kind = rng.choice(("no-envelopes", "no-envelopes", "signature-wiped", "truncated-0x184", "truncated-0x188", "truncated-0x18c", "no-envelopes+truncated"))
    out = []
    skip = False
    rec_index = None
    cur = None
    for cid, pl in chunks:
        if cid == b"CHNM":
            (cur,) = struct.unpack("<I", pl)
            skip = "no-envelopes" in kind and 0x102 <= cur <= 0x108
            if skip:
                continue
        elif cid in (b"CHDT", b"CHFF", b"CHFR") and skip:
            continue
        elif cid not in (b"CHDT", b"CHFF", b"CHFR"):
            skip = False
        if cid == b"CHDT" and cur == 0:
            rec_index = len(out)
        out.append([cid, pl])
    rec = bytearray(out[rec_index][1])
    expect = None
    if "no-envelopes" in kind:
        # randomise the legacy envelope fields (documented offsets)
        nv, npn = rng.randint(0, 12), rng.randint(0, 12)
        vol_pts, pan_pts = [], []
        for i in range(12):
            x, y = rng.choice([0, i * 8, rng.randrange(65536)]), rng.randint(0, 0x40)
            struct.pack_into("<HH", rec, 0x84 + 4 * i, x, y)
            vol_pts.append((x, y * 0x200 + 0))
            x, y = rng.choice([0, i * 8, rng.randrange(65536)]), rng.randint(0, 0x40)
            struct.pack_into("<HH", rec, 0xb4 + 4 * i, x, y)
            pan_pts.append((x, y * 0x200 - 0x4000))
        rec[0xe4], rec[0xe5] = nv, npn
        fields = [rng.randrange(256) for _ in range(6)]
        rec[0xe6:0xec] = bytes(fields)
        vt, pt = rng.randrange(8), rng.randrange(8)
        rec[0xec], rec[0xed] = vt, pt
        expect = {
            "volume_envelope": {"points": vol_pts[:nv], "sustain_point": fields[0], "loop_start_point": fields[1], "loop_end_point": fields[2],
                                "enable": bool(vt & 1), "sustain": bool(vt & 2), "loop": bool(vt & 4)},
            "panning_envelope": {"points": pan_pts[:npn], "sustain_point": fields[3], "loop_start_point": fields[4], "loop_end_point": fields[5],
                                 "enable": bool(pt & 1), "sustain": bool(pt & 2), "loop": bool(pt & 4)},
        }
    if kind == "signature-wiped":
        rec[0xfc:0x100] = rng.choice([b"\0\0\0\0", b"XXXX", b"SAMP"])
    if "truncat" in kind and len(rec) >= 0x190:
        # the trailing fields carry values of their own before the record is cut (each field that is still there counts)
        struct.pack_into("<Iii", rec, 0x184, rng.randint(7, 1 << 30), rng.randint(1, 1 << 20), rng.randint(1, 1 << 20))
    if "truncated-0x184" in kind:
        rec = rec[:0x184]
    elif "truncated-0x18c" in kind:
        rec = rec[:0x18c]
    elif "truncated-0x188" in kind or kind == "no-envelopes+truncated":
        rec = rec[:0x188]
    out[rec_index][1] = bytes(rec)
    return kind, iffparse.build(out), expect


def foreign_variants(res, chunks, rng, k, generated=False):
    """The fixture instrument as other writers might store it: ONE envelope chunk left out (the others present), undocumented high
    bits set in a waveform chunk's format word.  What is present means what it says: the envelopes whose chunks are there load
    exactly as from the complete file; format and channels come from the documented low bits."""
    base = snapshot.snap_synth(workload.load(iffparse.build(chunks)))["module"]["payload"]
    kind = ("one-envelope-missing", "chff-extra-bits", "waveform-block-missing")[k % 3]
    out, skip, cur, dropped, touched = [], False, None, None, []
    # (for instruments written by this library the volume envelope chunk stays: its record's old 12-point table is filled from the
    #  current envelope, whatever its length, and only means something together with that chunk)
    victim = rng.choice([0x103, 0x103, 0x104, 0x105, 0x108] + ([] if generated else [0x102])) if kind == "one-envelope-missing" else None
    if kind == "waveform-block-missing":
        # a slot whose record (CHNM 2n+1) is there but whose waveform block (CHNM 2n+2) is not: format and channels are what
        # the record says
        blocks = [struct.unpack("<I", pl_)[0] for cid_, pl_ in chunks if cid_ == b"CHNM" and len(pl_) == 4]
        wave = [b for b in blocks if 2 <= b < 0x100 and b % 2 == 0]
        victim = rng.choice(wave) if wave else None
    for cid, pl in chunks:
        if cid == b"CHNM":
            (cur,) = struct.unpack("<I", pl)
            skip = cur == victim
            if skip:
                dropped = cur
                continue
        elif cid in (b"CHDT", b"CHFF", b"CHFR") and skip:
            continue
        elif cid not in (b"CHDT", b"CHFF", b"CHFR"):
            skip = False
        if kind == "chff-extra-bits" and cid == b"CHFF" and cur is not None and cur >= 2 and cur % 2 == 0 and cur < 0x100:
            (w,) = struct.unpack("<I", pl)
            extra = rng.choice([0x10, 0x100, 0x80000000, 0x40, 0x10000])
            pl = struct.pack("<I", w | extra)
            touched.append((cur, extra))
        out.append((cid, pl))
    desc = {"variant": kind, "dropped": dropped, "touched": touched, "index": k}
    res.count("foreign_instrument_variants")
    res.hist("foreign_instrument_kinds", kind)
    try:
        got = snapshot.snap_synth(workload.load(iffparse.build(out)))["module"]["payload"]
    except Exception as e:
        res.violation(f"C16:foreign-variant-unloadable:{kind}:{workload.exc_key(e)}", f"{kind}: {e!r}", desc)
        return
    names = {0x102: "volume_envelope", 0x103: "panning_envelope", 0x104: "pitch_envelope"}
    for chnm, name in names.items():
        if chnm != dropped and got[name] != base[name]:
            res.violation(f"C16:foreign-variant:{kind}:{name}", f"{kind} (dropped chunk {dropped and hex(dropped)}): {name}, whose chunk is present, loads as {snapshot._short(got[name])}, "
                                                                f"from the complete file as {snapshot._short(base[name])}", desc)
            return
    for i in range(4):
        if 0x105 + i != dropped and got["effect_control_envelopes"][i] != base["effect_control_envelopes"][i]:
            res.violation(f"C16:foreign-variant:{kind}:effect_control_envelopes", f"{kind}: effect control envelope {i} differs from the complete file's", desc)
            return
    for slot, s in base["samples"].items():
        g = got["samples"].get(slot)
        if kind == "waveform-block-missing" and dropped == 2 * slot + 2:
            if g is not None and (g["format"], g["channels"]) != (s["format"], s["channels"]):
                res.violation(f"C16:foreign-variant:{kind}:sample", f"{kind}: slot {slot} has its record but no waveform block; it loads with format/channels {(g['format'], g['channels'])}, "
                                                                    f"its record says {(s['format'], s['channels'])}", desc)
                return
            continue
        if g is None or (g["format"], g["channels"], g["data"]) != (s["format"], s["channels"], s["data"]):
            res.violation(f"C16:foreign-variant:{kind}:sample", f"{kind} ({touched}): sample {slot} loads with format/channels {None if g is None else (g['format'], g['channels'])}, "
                                                                f"the documented bits say {(s['format'], s['channels'])}", desc)
            return


def twins_and_big_samples(res, rng):
    """(1) Two instruments loaded from the SAME bytes (the same file twice, two clones), each with an effect synth: editing one
    effect in place leaves the other instrument - and what it saves - alone.  (2) Samples whose size is an exact multiple of
    powers of two (64 KiB .. 1 MiB): the data comes back byte for byte."""
    import rv.api as api
    smp = api.m.Sampler()
    smp.effect = api.Synth(api.m.Reverb(dry=100, wet=50))
    s = smp.Sample()
    s.data, s.format, s.channels = bytes(range(64)), smp.Format.int8, smp.Channels.mono
    smp.samples[0] = s
    raw = api.Synth(smp).read()
    for how in ("loaded-twice", "cloned-twice"):
        a, b = (workload.load(raw).module, workload.load(raw).module) if how == "loaded-twice" else (smp.clone(), smp.clone())
        before = api.Synth(b).read()
        a.effect.module.dry = 7
        a.samples[0].data = b"\x01\x02"
        a.volume_envelope.points[0:1] = [(0, 0x1234)]
        res.count("twin_instrument_cases")
        if b.effect.module.dry != 100 or api.Synth(b).read() != before:
            res.violation(f"C16:twin-instruments:{how}", f"two instruments {how} from the same bytes: editing the effect / sample / envelope of one changed the other "
                                                         f"(effect dry {b.effect.module.dry}, saved bytes {'differ' if api.Synth(b).read() != before else 'same'})", {"family": "twins", "how": how})
    for size in (65536, 262144, 524288, 262144 * 3, 1048576, 262144 + 1, 262143):
        m = api.m.Sampler()
        sm = m.Sample()
        sm.data, sm.format, sm.channels = bytes((i * 7 + 1) & 0xFF for i in range(4096)) * (size // 4096) + bytes(size % 4096), m.Format.int16, m.Channels.stereo
        m.samples[1] = sm
        res.count("big_sample_roundtrips")
        case = {"family": "big-samples", "bytes": size}
        try:
            back = workload.load(api.Synth(m).read()).module.samples[1]
            p = api.Project()
            p.attach_module(m)
            back2 = workload.load(p.read()).modules[1].samples[1]
        except Exception as e:
            res.violation(f"C16:big-sample-raises:{workload.exc_key(e)}", f"sample of {size} bytes: save/load raised {e!r}", case)
            continue
        if bytes(back.data) != bytes(sm.data) or bytes(back2.data) != bytes(sm.data):
            res.violation("C16:big-sample", f"sample of {size} bytes comes back with {len(back.data)} / {len(back2.data)} bytes (synth / project) or different content", case)


def check_legacy(res, chunks, rng, k):
    kind, raw, expect = make_variant(chunks, rng)
    res.count("legacy_variants")
    res.hist("legacy_kinds", kind)
    res.case(raw)
    desc = {"variant": kind, "index": k, "file_hex": raw.hex() if len(raw) < 20000 else None}
    try:
        o1 = workload.load(raw)
    except Exception as e:
        res.violation(f"C16:legacy-unloadable:{kind}:{workload.exc_key(e)}", f"legacy variant ({kind}) does not load: {e!r}", desc)
        return
    S1 = snapshot.snap_synth(o1)
    if "truncat" in kind:
        # trailing fields of a shorter record: each one that is present denotes its value, each absent one its documented default
        rec_ = None
        cur_ = None
        for cid_, pl_, *_x in iffparse.parse(raw):
            if cid_ == b"CHNM":
                cur_ = struct.unpack("<I", pl_)[0]
            elif cid_ == b"CHDT" and cur_ == 0 and rec_ is None:
                rec_ = pl_
        pl1 = S1["module"]["payload"]
        for name_, off_, fmt_, dflt_ in (("max_version", 0x184, "<I", 6), ("editor_cursor", 0x188, "<i", 0), ("editor_selected_size", 0x18c, "<i", 0)):
            want_ = struct.unpack_from(fmt_, rec_, off_)[0] if rec_ is not None and len(rec_) >= off_ + 4 else dflt_
            res.count("trailing_record_fields_checked")
            if pl1.get(name_) != want_:
                res.violation(f"C16:legacy-conversion:{name_}", f"{kind}: record of {len(rec_)} bytes: {name_} loads as {pl1.get(name_)}, the record {'holds' if len(rec_) >= off_ + 4 else 'ends before it; default'} {want_}", desc)
                return
    if expect is not None:
        res.count("envelope_upgrades_checked")
        pl = S1["module"]["payload"]
        for env_name, want in expect.items():
            got = pl[env_name]
            for f, w in want.items():
                g = got[f]
                if f == "points":
                    g = [tuple(x) for x in g]
                if g != w:
                    res.violation(f"C16:legacy-conversion:{env_name}/{f}", f"{kind}: {env_name}.{f} converted to {g}, documented conversion gives {w}", desc)
                    return
    try:
        raw2 = o1.read()
        o2 = workload.load(raw2)
    except Exception as e:
        res.violation(f"C16:legacy-resave:{kind}:{workload.exc_key(e)}", f"re-saving the loaded legacy variant ({kind}) failed: {e!r}", desc)
        return
    # the loaded instrument handed on as applications do (pickled to a worker, deep-copied for undo, shallow-copied): the copy
    # saves the same instrument
    import copy
    import pickle
    how = ("pickle", "deepcopy", "copy")[k % 3]
    try:
        twin = {"pickle": lambda o: pickle.loads(pickle.dumps(o)), "deepcopy": copy.deepcopy, "copy": copy.copy}[how](o1)
        raw_twin = twin.read()
        res.count("copied_instrument_saves")
    except Exception as e:
        res.violation(f"C16:copied-instrument-raises:{how}:{workload.exc_key(e)}", f"{kind}: a {how} copy of the loaded instrument cannot be saved: {e!r}", dict(desc, copy=how))
        return
    if raw_twin != raw2:
        res.violation(f"C16:copied-instrument:{how}", f"{kind}: a {how} copy of the loaded instrument saves {len(raw_twin)} bytes, the instrument itself {len(raw2)}", dict(desc, copy=how))
        return
    # the application moves the loaded legacy instrument to the current layout (is_legacy = False), edits it and saves: the edits
    # are in the file
    try:
        o4 = workload.load(raw)
        mod4 = o4.module
        if mod4.is_legacy:
            mod4.is_legacy = False
            mod4.vibrato_depth = (mod4.vibrato_depth + 77) % 256
            mod4.volume_fadeout = (mod4.volume_fadeout + 1234) % 8193
            s_new = mod4.Sample()
            s_new.data, s_new.format, s_new.channels = b"\x01\x02\x03\x04", mod4.Format.int8, mod4.Channels.mono
            free_slot = next(i for i in range(127, -1, -1) if mod4.samples[i] is None)
            mod4.samples[free_slot] = s_new
            want4 = (mod4.vibrato_depth, mod4.volume_fadeout, free_slot)
            back4 = workload.load(o4.read()).module
            res.count("legacy_instruments_moved_to_current_layout")
            got4 = (back4.vibrato_depth, back4.volume_fadeout, free_slot if back4.samples[free_slot] is not None and bytes(back4.samples[free_slot].data) == b"\x01\x02\x03\x04" else None)
            if got4 != want4:
                res.violation("C16:legacy-moved-to-current-layout", f"{kind}: is_legacy set to False, edited (vibrato_depth, volume_fadeout, new sample in slot {free_slot}) = {want4}; "
                                                                    f"after save/load {got4}", desc)
                return
    except Exception as e:
        res.count("legacy_move_unusable")
        res.hist("legacy_move_unusable_why", workload.exc_key(e))
    S2 = snapshot.snap_synth(o2)
    # version stamps are not instrument data (the legacy replay re-emits the embedded effect's original stamp)
    d = [x for x in snapshot.diff(build.norm(S1, "before"), build.norm(S2, "after"), limit=40) if not x[0].endswith("/file_version")]
    for path, a, b in d[:3]:
        res.violation(f"C16:legacy-data-lost:{kind}:{snapshot.field_key(path)}", f"{kind}: {path} was {a} after the first load, {b} after save+load", desc)


def run_shard(spec_, res):
    monitors.install()
    tier, seed = spec_["tier"], spec_["seed"]
    for i in range(spec_["start"], spec_["start"] + spec_["count"]):
        try:
            c = workload.module_case(seed, 300000 + i, tier, "Sampler", ctx="project")
        except Exception as e:
            res.violation(f"C16:build-raises:{workload.exc_key(e)}", f"building sampler case {i} raised {e!r}", {"case_seed": seed, "index": 300000 + i})
            continue
        check_sampler(res, c)
        if i == spec_["start"] and spec_["shard"] == 0:
            pl = c.snap["payload"]
            res.sample({"slots": sorted(pl["samples"]), "volume_envelope": pl["volume_envelope"], "editor_cursor": pl["editor_cursor"],
                        "effect": None if pl["effect"] is None else pl["effect"]["module"]["type"]})
    chunks = fixture_chunks()
    rng = random.Random(env.shard_seed(spec_["shard"]) + 77)
    for k in range(spec_["legacy"]):
        check_legacy(res, chunks, rng, k)
    if spec_["shard"] == 0:
        twins_and_big_samples(res, rng)
    import rv.api as _api
    for k in range(max(12, spec_["legacy"] // 4)):
        src, is_gen = chunks, False
        if (k // 3) % 4:            # (the kind of variant goes by k % 3: every kind meets the fixture and generated instruments)
            # ... and generated instruments (envelopes with up to 300 points and arbitrary levels, any sample formats)
            try:
                gc = workload.module_case(seed, 777000 + spec_["shard"] * 100 + k, tier, "Sampler", ctx="synth")
                src = [(c_[0], c_[1]) for c_ in iffparse.parse(_api.Synth(gc.obj).read())]
                is_gen = True
            except Exception:
                pass
        foreign_variants(res, src, rng, k, generated=is_gen)
    for name, msg in monitors.take_failures():
        res.violation(f"C16:ambient:{name}", msg, {"monitor": name})


def finalize(merged, tier):
    merged["counters"]["slots_exercised"] = len(merged["sets"].get("slots", ()))
    s = merged["sets"].get("slots", set())
    if "0" not in s or "127" not in s:
        merged["inconclusive"].append("sample slots 0 and 127 were not both exercised")


def replay(case, res):
    monitors.install()
    if case.get("file_hex"):
        raw = bytes.fromhex(case["file_hex"])
        o1 = workload.load(raw)
        o2 = workload.load(o1.read())
        d = snapshot.diff(build.norm(snapshot.snap_synth(o1), "before"), build.norm(snapshot.snap_synth(o2), "after"))
        for path, a, b in d[:3]:
            res.violation(f"C16:legacy-data-lost:replay:{snapshot.field_key(path)}", f"{path}: {a} -> {b}", case)
    elif "case_seed" in case:
        c = workload.module_case(case["case_seed"], case["index"], case.get("tier", "quick"), "Sampler", ctx="project")
        check_sampler(res, c)
