"""C06 - edits made to a loaded object are what gets saved."""
import os
import random

from .. import build, env, gen, monitors, snapshot, spec, workload

PROPERTY = "C06"
LEVEL = "exploration"
RULE = ("one case = one (file, serialized public attribute, new in-domain value != old) triple: the file is loaded, the attribute is "
        "changed through the public API, the object is snapshotted (S1), saved, loaded and snapshotted again (S2); S1 must show the new "
        "value, S1 may differ from the snapshot before the edit only at that attribute (known couplings excepted) and S2 must equal S1. "
        "The attribute catalogue is derived from the snapshot of the loaded object (project fields, per module common fields, every "
        "attached controller, every option, MIDI bindings, payload elements incl. sampler samples/envelopes/maps and embedded "
        "projects/effects, per pattern fields and cells). distinct = distinct (file, attribute path, value); non-trivial = all")
ASSUMPTIONS = [
    "new values are drawn from the documented domains (rvmon.gen); pattern tracks/lines are not edited (resizing a pattern after its cells exist is not a serialized-attribute edit)",
    "couplings that legitimately change more than the edited attribute are compared through the in-memory object after the edit: exclusive options, MetaModule user-controller count (attachment), MultiCtl.value fan-out inside a project",
    "MetaModule mapping / count edits are followed by update_user_defined_controllers() (the public way to synchronise user-defined controllers); user-defined controllers are not assigned directly",
    "true legacy sampler instruments (no PMAS signature) are not in C06's domain (DESIGN 6.13)",
    "SpectraVoice harmonic proxies and Note sub-fields are edit paths; only the authoritative arrays / words are compared",
]
REQUIRED_COUNTERS = ["triples", "roundtrips_compared", "attributes_distinct"]
WORKERS = {"quick": 4, "thorough": 16}

COUPLED = ("user_defined_controllers", "round_note_x", "round_pitch_y", "receive_notes_from_keyboard",
           "do_not_receive_notes_from_keyboard")


def _plan_core(tier, seed):
    fx = [os.path.relpath(f, env.FIXTURE_DIR) for f in env.fixtures()]
    n = 8 if tier == "quick" else 32
    return [{"tier": tier, "seed": seed, "shard": i, "fixtures": fx[i::n],
             "gen_start": i * (6 if tier == "quick" else 40), "gen_count": 6 if tier == "quick" else 40,
             "per_file": 140 if tier == "quick" else 600} for i in range(n)]


# ------------------------------------------------------------------ navigation
def nav(root, loc):
    o = root
    for step in loc:
        if step[0] == "modules":
            o = o.modules[step[1]]
        elif step[0] == "module":
            o = o.module
        elif step[0] == "project":
            o = o.project
        elif step[0] == "effect":
            o = o.effect
        elif step[0] == "patterns":
            o = o.patterns[step[1]]
    return o


def spath(loc):
    out = ""
    for step in loc:
        if step[0] == "modules":
            out += f"/modules[{step[1]}]"
        elif step[0] == "module":
            out += "/module"
        elif step[0] == "project":
            out += "/payload/project"
        elif step[0] == "effect":
            out += "/payload/effect"
        elif step[0] == "patterns":
            out += f"/patterns[{step[1]}]"
    return out


def sget(S, path):
    """Value at a snapshot path like /modules[1]/controllers/volume."""
    import re
    cur = S
    for part in [p for p in path.split("/") if p]:
        m = re.match(r"^(.*?)((?:\[\d+\])*)$", part)
        name, idxs = m.group(1), re.findall(r"\[(\d+)\]", m.group(2))
        if name != "":
            if isinstance(cur, dict):
                if name in cur:
                    cur = cur[name]
                elif name.isdigit() and int(name) in cur:
                    cur = cur[int(name)]
                else:
                    raise KeyError(path)
            else:
                raise KeyError(path)
        for i in idxs:
            cur = cur[int(i)]
    return cur


class Edit:
    __slots__ = ("path", "apply", "value", "coupled", "cls")

    def __init__(self, path, apply, value, coupled=False, cls="field"):
        self.path, self.apply, self.value, self.coupled, self.cls = path, apply, value, coupled, cls


def differ(g, old, make):
    for _ in range(50):
        v = make()
        if v != old:
            return v
    return None


# ------------------------------------------------------------------ catalogue
def module_edits(ms, loc, g, ctx, out):
    rng = g.rng
    base = spath(loc)
    t = spec.by_mtype().get(ms["type"])
    if t is None:
        return

    def attr_edit(field, attr, make, cls="common"):
        v = differ(g, ms[field], make)
        if v is None:
            return
        out.append(Edit(f"{base}/{field}", (lambda root, a=attr, v=v: setattr(nav(root, loc), a, v)), v, cls=cls))

    if ms["type"] != "Output":
        attr_edit("name", "name", lambda: build.utf8_prefix(g.module_name()) or "n")
        # a module renamed to a word the format itself uses (the output module's name, a type name, a chunk id)
        word = ("Output", "Output", "MetaModule", "SEND", ms["type"])[len(base) % 5]
        if ms["name"] != word:
            out.append(Edit(f"{base}/name", (lambda root, v=word: setattr(nav(root, loc), "name", v)), word, cls="name-format-word"))
    attr_edit("flags", "flags", lambda: g.flags(t))
    attr_edit("color", "color", lambda: tuple(rng.randrange(256) for _ in range(3)))
    attr_edit("midi_in_always", "midi_in_always", lambda: not ms["midi_in_always"])
    attr_edit("midi_in_channel", "midi_in_channel", lambda: g.pick(0, 16))
    attr_edit("midi_out_name", "midi_out_name", lambda: rng.choice([None, g.text(8, allow_empty=False)]))
    attr_edit("midi_out_channel", "midi_out_channel", lambda: g.pick(0, 16))
    attr_edit("midi_out_bank", "midi_out_bank", lambda: g.pick(-1, gen.I32_MAX))
    attr_edit("midi_out_program", "midi_out_program", lambda: g.pick(-1, gen.I32_MAX))
    attr_edit("finetune", "mod_finetune", lambda: g.i32())
    attr_edit("relative_note", "mod_relative_note", lambda: g.i32())
    v = differ(g, ms["scale"], lambda: g.u32(256))
    if v is not None:
        def set_scale(root, v=v):
            m = nav(root, loc)
            if "scale" in type(m).controllers:
                m.mod_scale = v
            else:
                m.scale = v
        out.append(Edit(f"{base}/scale", set_scale, v, cls="common"))
    if ctx == "project":
        attr_edit("x", "x", lambda: g.i32())
        attr_edit("y", "y", lambda: g.i32())
        attr_edit("layer", "layer", lambda: g.pick(0, 7))
        attr_edit("visualization", "visualization", lambda: g.u32())
    # controllers
    for sc in t.controllers:
        if sc.name not in ms["controllers"]:
            continue
        old = ms["controllers"][sc.name]
        if sc.kind == "bool":
            v = not old
        elif sc.kind == "enum":
            v = differ(g, old, lambda: rng.choice(sc.members)[1])
        elif sc.kind == "dependent":
            unit_val = ms["controllers"][sc.depends_on]
            names = [n for n, val in t.ctl(sc.depends_on).members if val == unit_val]
            if not names:
                continue
            lo, hi = sc.ranges[names[0]]
            v = differ(g, old, lambda: g.pick(lo, hi))
        else:
            v = differ(g, old, lambda: g.pick(sc.min, sc.max))
        if v is None:
            continue
        coupled = ms["type"] == "MultiCtl" and sc.name == "value"
        out.append(Edit(f"{base}/controllers/{sc.name}", (lambda root, n=sc.name, v=v: setattr(nav(root, loc), n, v)), v,
                        coupled=coupled, cls="controller"))
    # options
    for o in t.options:
        old = ms["options"][o.name]
        if o.min is not None:
            v = differ(g, old, lambda: g.pick(o.min, o.max))
        elif o.size == 1:
            v = not old
        else:
            v = differ(g, old, lambda: rng.randrange(1 << o.size))
        if v is None:
            continue
        def set_opt(root, n=o.name, v=v):
            m = nav(root, loc)
            setattr(m, n, v)
            if n == "user_defined_controllers":
                m.update_user_defined_controllers()
        out.append(Edit(f"{base}/options/{o.name}", set_opt, v, coupled=o.name in COUPLED, cls="option"))
    # MIDI bindings
    names = [n for n in ms["cmid"]]
    for n in names[:2] + ([rng.choice(names)] if names else []):
        v = differ(g, ms["cmid"][n], lambda: (rng.randint(0, 8), rng.randrange(256), rng.randint(0, 5), rng.randrange(65536)))
        def set_cmid(root, n=n, v=v):
            from rv.cmidmap import MidiMessageType, Slope
            cm = nav(root, loc).controller_midi_maps[n]
            cm.message_type, cm.channel, cm.slope, cm.message_parameter = MidiMessageType(v[0]), v[1], Slope(v[2]), v[3]
        out.append(Edit(f"{base}/cmid/{n}", set_cmid, v, cls="cmid"))
    payload_edits(ms, loc, g, out)


def arr_edit(out, base, loc, key, getter, old_list, lo, hi, g, conv=None, cls="payload"):
    if not old_list:
        return
    i = g.rng.randrange(len(old_list))
    v = differ(g, old_list[i], lambda: g.pick(lo, hi))
    if v is None:
        return
    def ap(root, i=i, v=v):
        arr = getter(nav(root, loc))
        arr[i] = conv(nav(root, loc), v) if conv else v
    out.append(Edit(f"{base}/payload/{key}[{i}]", ap, v, cls=cls))


def payload_edits(ms, loc, g, out):
    rng = g.rng
    base = spath(loc)
    t = ms["type"]
    pl = ms["payload"]
    if t == "MultiSynth":
        arr_edit(out, base, loc, "nv_curve", lambda m: m.nv_curve.values, pl["nv_curve"], 0, 255, g)
        arr_edit(out, base, loc, "vv_curve", lambda m: m.vv_curve.values, pl["vv_curve"], 0, 255, g)
        arr_edit(out, base, loc, "np_curve", lambda m: m.np_curve.values, pl["np_curve"], 0, 65535, g)
    elif t == "MultiCtl":
        arr_edit(out, base, loc, "curve", lambda m: m.curve.values, pl["curve"], 0, 65535, g)
        i = rng.randrange(16)
        v = differ(g, pl["mappings"][i], lambda: tuple(g.pick(0, gen.U32) for _ in range(8)))
        def ap(root, i=i, v=v):
            m = nav(root, loc)
            m.mappings.values[i] = m.Mapping(v)
        out.append(Edit(f"{base}/payload/mappings[{i}]", ap, v, cls="payload"))
        # a single field of an existing mapping object
        j = rng.randrange(16)
        nv = differ(g, pl["mappings"][j][1], lambda: g.pick(0, gen.U32))
        def ap2(root, j=j, nv=nv):
            nav(root, loc).mappings.values[j].max = nv
        out.append(Edit(f"{base}/payload/mappings[{j}]", ap2, tuple(pl["mappings"][j][:1]) + (nv,) + tuple(pl["mappings"][j][2:]), cls="payload"))
    elif t == "WaveShaper":
        arr_edit(out, base, loc, "curve", lambda m: m.curve.values, pl["curve"], 0, 65535, g)
    elif t == "SpectraVoice":
        arr_edit(out, base, loc, "harmonic_freqs", lambda m: m.harmonic_freqs.values, pl["harmonic_freqs"], 0, 65535, g)
        arr_edit(out, base, loc, "harmonic_volumes", lambda m: m.harmonic_volumes.values, pl["harmonic_volumes"], 0, 255, g)
        arr_edit(out, base, loc, "harmonic_widths", lambda m: m.harmonic_widths.values, pl["harmonic_widths"], 0, 255, g)
        arr_edit(out, base, loc, "harmonic_types", lambda m: m.harmonic_types.values, pl["harmonic_types"], 0, 18, g,
                 conv=lambda m, v: m.HarmonicType(v))
        # through the proxies (edit path)
        i = rng.randrange(16)
        v = differ(g, pl["harmonic_volumes"][i], lambda: g.pick(0, 255))
        out.append(Edit(f"{base}/payload/harmonic_volumes[{i}]", (lambda root, i=i, v=v: setattr(nav(root, loc).harmonics[i], "volume", v)), v, cls="payload-proxy"))
    elif t in ("Analog generator", "Generator"):
        arr_edit(out, base, loc, "drawn_waveform", lambda m: m.drawn_waveform.samples, pl["drawn_waveform"], -128, 127, g)
    elif t == "FMX":
        i = rng.randrange(256)
        v = differ(g, pl["custom_waveform"][i], lambda: g.f32())
        out.append(Edit(f"{base}/payload/custom_waveform[{i}]", (lambda root, i=i, v=v: nav(root, loc).custom_waveform.values.__setitem__(i, v)), v, cls="payload"))
    elif t == "Vorbis player":
        v = differ(g, pl["data"], lambda: bytes(rng.randrange(256) for _ in range(rng.choice([0, 1, 33]))))
        out.append(Edit(f"{base}/payload/data", (lambda root, v=v: setattr(nav(root, loc), "data", v)), v, cls="payload"))
    elif t == "MetaModule":
        n = pl["count"]
        i = rng.randrange(96)
        emb_n = len(pl["project"]["modules"])
        v = differ(g, pl["mappings"][i], lambda: (rng.randrange(max(1, emb_n + 1)), rng.randrange(12)))
        def ap(root, i=i, v=v):
            m = nav(root, loc)
            m.mappings.values[i] = m.Mapping(v)
            m.update_user_defined_controllers()
        out.append(Edit(f"{base}/payload/mappings[{i}]", ap, v, coupled=True, cls="payload"))
        for j in (95, rng.randrange(96)):
            v2 = differ(g, pl["mappings"][j], lambda: (rng.randrange(max(1, emb_n + 1)), rng.randrange(12)))
            def ap_inplace(root, j=j, v2=v2):
                m = nav(root, loc)
                m.mappings.values[j].module, m.mappings.values[j].controller = v2
                m.update_user_defined_controllers()
            out.append(Edit(f"{base}/payload/mappings[{j}]", ap_inplace, v2, coupled=True, cls="payload-inplace"))
        if n:
            i = rng.randrange(n)
            v = differ(g, pl["labels"].get(i), lambda: g.text(8, allow_empty=False))
            out.append(Edit(f"{base}/payload/labels/{i}", (lambda root, i=i, v=v: setattr(nav(root, loc).user_defined[i], "label", v)), v, cls="payload"))
        if n < 96:
            n2 = rng.choice([n + 1, min(96, n + 3), 96])
            txt = g.text(6, allow_empty=False)
            def grow(root, n2=n2, txt=txt):
                m = nav(root, loc)
                m.user_defined_controllers = n2
                m.user_defined[n2 - 1].label = txt
                m.update_user_defined_controllers()
            out.append(Edit(f"{base}/payload/labels/{n2 - 1}", grow, txt, coupled=True, cls="metamodule-grow"))
        project_edits(pl["project"], loc + (("project",),), g, out, limit=25)
    elif t == "Sampler":
        sampler_edits(ms, loc, g, out)


def env_edits(es, base, loc, getter, name, g, out, lo_y):
    rng = g.rng
    for f in ("sustain_point", "loop_start_point", "loop_end_point", "ctl_index", "gain_pct", "velocity"):
        v = differ(g, es[f], lambda: g.pick(0, 255))
        out.append(Edit(f"{base}/payload/{name}/{f}", (lambda root, f=f, v=v: setattr(getter(nav(root, loc)), f, v)), v, cls="sampler-envelope"))
    for f in ("enable", "sustain", "loop"):
        v = not es[f]
        out.append(Edit(f"{base}/payload/{name}/{f}", (lambda root, f=f, v=v: setattr(getter(nav(root, loc)), f, v)), v, cls="sampler-envelope"))
    if es["points"]:
        i = rng.randrange(len(es["points"]))
        v = differ(g, tuple(es["points"][i]), lambda: (rng.randrange(65536), lo_y + rng.randrange(65536)))
        out.append(Edit(f"{base}/payload/{name}/points[{i}]", (lambda root, i=i, v=v: getter(nav(root, loc)).points.__setitem__(i, v)), v, cls="sampler-envelope"))
    newpts = [(i * 3, lo_y + (i * 1000) % 65536) for i in range(rng.choice([0, 1, 5, 20]))]
    if newpts != [tuple(p) for p in es["points"]]:
        out.append(Edit(f"{base}/payload/{name}/points", (lambda root, v=newpts: setattr(getter(nav(root, loc)), "points", list(v))), newpts, cls="sampler-envelope"))


def sampler_edits(ms, loc, g, out):
    rng = g.rng
    base = spath(loc)
    pl = ms["payload"]
    for idx, sd in pl["samples"].items():
        for f, mk in (("loop_start", g.u32), ("loop_len", g.u32), ("volume", lambda: g.pick(0, 255)), ("finetune", lambda: g.pick(-128, 127)),
                      ("rate", g.u32), ("panning", lambda: g.pick(-128, 127)), ("relative_note", lambda: g.pick(-128, 127)),
                      ("reserved2", lambda: g.pick(0, 255)), ("start_pos", g.u32),
                      ("name", lambda: bytes(rng.choice(b"abcXYZ 09") for _ in range(rng.randint(1, 22))).rstrip(b"\0") or b"x")):
            v = differ(g, sd[f], mk)
            if v is None:
                continue
            out.append(Edit(f"{base}/payload/samples/{idx}/{f}", (lambda root, idx=idx, f=f, v=v: setattr(nav(root, loc).samples[idx], f, v)), v, cls="sampler-sample"))
        padded = (bytes(sd["name"]).rstrip(b" \0")[:12] or b"Bass Drum").ljust(22)          # a name padded with BLANKS to the field's width
        if padded != sd["name"]:
            out.append(Edit(f"{base}/payload/samples/{idx}/name", (lambda root, idx=idx, v=padded: setattr(nav(root, loc).samples[idx], "name", v)), padded, cls="sampler-text-blank-padded"))
        out.append(Edit(f"{base}/payload/samples/{idx}/loop_sustain", (lambda root, idx=idx, v=not sd["loop_sustain"]: setattr(nav(root, loc).samples[idx], "loop_sustain", v)), not sd["loop_sustain"], cls="sampler-sample"))
        v = differ(g, sd["loop_type"], lambda: rng.choice([0, 1, 2]))
        out.append(Edit(f"{base}/payload/samples/{idx}/loop_type", (lambda root, idx=idx, v=v: setattr(nav(root, loc).samples[idx], "loop_type", nav(root, loc).LoopType(v))), v, cls="sampler-sample"))
        v = differ(g, sd["data"], lambda: bytes(rng.randrange(256) for _ in range(rng.choice([0, 8, 64]))))
        out.append(Edit(f"{base}/payload/samples/{idx}/data", (lambda root, idx=idx, v=v: setattr(nav(root, loc).samples[idx], "data", v)), v, cls="sampler-sample"))
        v = differ(g, sd["format"], lambda: rng.choice([1, 2, 4]))
        out.append(Edit(f"{base}/payload/samples/{idx}/format", (lambda root, idx=idx, v=v: setattr(nav(root, loc).samples[idx], "format", nav(root, loc).Format(v))), v, cls="sampler-sample"))
        v = 8 if sd["channels"] == 0 else 0
        out.append(Edit(f"{base}/payload/samples/{idx}/channels", (lambda root, idx=idx, v=v: setattr(nav(root, loc).samples[idx], "channels", nav(root, loc).Channels(v))), v, cls="sampler-sample"))
    # a new sample in an empty slot
    free = [i for i in range(128) if i not in pl["samples"]]
    if free:
        i = rng.choice(free)
        sd = g.sample()
        def add(root, i=i, sd=sd):
            m = nav(root, loc)
            s = m.Sample()
            s.data, s.format, s.channels, s.loop_type = sd["data"], m.Format(sd["format"]), m.Channels(sd["channels"]), m.LoopType(sd["loop_type"])
            for f in snapshot.SAMPLE_FIELDS:
                setattr(s, f, sd[f])
            m.samples[i] = s
        out.append(Edit(f"{base}/payload/samples/{i}", add, sd, cls="sampler-sample"))
    # an envelope replaced by a NEW object (rebinding, not an in-place edit)
    for attr, cls_name, lo in (("volume_envelope", "VolumeEnvelope", 0), ("panning_envelope", "PanningEnvelope", -0x4000), ("pitch_envelope", "PitchEnvelope", -0x4000)):
        ed = g.envelope(lo, [])
        if ed != pl[attr]:
            def rebind(root, attr=attr, cls_name=cls_name, ed=ed):
                m = nav(root, loc)
                e_ = getattr(m, cls_name)()
                build.apply_envelope(e_, ed)
                setattr(m, attr, e_)
            out.append(Edit(f"{base}/payload/{attr}", rebind, ed, cls="sampler-envelope-rebound"))
    k2 = rng.randrange(4)
    ed = g.envelope(0, [])
    def rebind_ec(root, k2=k2, ed=ed):
        m = nav(root, loc)
        e_ = m.EffectControlEnvelope(0x105 + k2)
        build.apply_envelope(e_, ed)
        m.effect_control_envelopes[k2] = e_
    out.append(Edit(f"{base}/payload/effect_control_envelopes[{k2}]", rebind_ec, ed, cls="sampler-envelope-rebound"))
    # a used slot emptied (not necessarily the last one); an existing Sample object also put into a second slot
    used = sorted(pl["samples"])
    if used:
        victim = rng.choice(used)
        out.append(Edit(f"{base}/payload/samples", (lambda root, victim=victim: nav(root, loc).samples.__setitem__(victim, None)),
                        {i: s for i, s in pl["samples"].items() if i != victim}, cls="sampler-slot-emptied"))
        # the two ends of the slot table
        for end_slot in (127, 0):
            if end_slot not in pl["samples"]:
                src_e = rng.choice(used)
                out.append(Edit(f"{base}/payload/samples/{end_slot}", (lambda root, src=src_e, dst=end_slot: nav(root, loc).samples.__setitem__(dst, nav(root, loc).samples[src])),
                                pl["samples"][src_e], cls="sampler-slot-table-ends"))
        free2 = [i for i in range(128) if i not in pl["samples"]]
        if free2:
            src, dst = rng.choice(used), rng.choice(free2)
            out.append(Edit(f"{base}/payload/samples/{dst}", (lambda root, src=src, dst=dst: nav(root, loc).samples.__setitem__(dst, nav(root, loc).samples[src])),
                            pl["samples"][src], cls="sampler-sample-shared"))
    env_edits(pl["volume_envelope"], base, loc, lambda m: m.volume_envelope, "volume_envelope", g, out, 0)
    env_edits(pl["panning_envelope"], base, loc, lambda m: m.panning_envelope, "panning_envelope", g, out, -0x4000)
    env_edits(pl["pitch_envelope"], base, loc, lambda m: m.pitch_envelope, "pitch_envelope", g, out, -0x4000)
    k = rng.randrange(4)
    env_edits(pl["effect_control_envelopes"][k], base, loc, lambda m, k=k: m.effect_control_envelopes[k], f"effect_control_envelopes[{k}]", g, out, 0)
    i = rng.randrange(119)
    v = differ(g, pl["note_samples"][i], lambda: g.pick(0, 255))
    out.append(Edit(f"{base}/payload/note_samples[{i}]", (lambda root, i=i, v=v: nav(root, loc).note_samples.__setitem__(list(nav(root, loc).note_samples)[i], v)), v, cls="sampler-map"))
    # the two ends of the map (the lowest and the highest note)
    # (addressed the documented way, by note: the map runs from C0 to a9, 119 notes)
    for end, note_name in ((0, "C0"), (118, "a9"), (117, "A9")):
        old_end = pl["note_samples"][end] if end < len(pl["note_samples"]) else None
        v_end = differ(g, old_end, lambda: g.pick(1, 255))
        if v_end is not None:
            def set_by_note(root, nn=note_name, v=v_end):
                import rv.api as api
                nav(root, loc).note_samples[api.NOTE[nn]] = v
            out.append(Edit(f"{base}/payload/note_samples[{end}]", set_by_note, v_end, cls="sampler-map-ends"))
    # the map is a dict: the bulk mutators are public too
    j = rng.randrange(119)
    if j != i:
        v2 = differ(g, pl["note_samples"][j], lambda: g.pick(0, 255))
        out.append(Edit(f"{base}/payload/note_samples[{j}]", (lambda root, j=j, v2=v2: nav(root, loc).note_samples.update({list(nav(root, loc).note_samples)[j]: v2})), v2, cls="sampler-map-update"))
    ipad = (bytes(pl["instrument_name"]).rstrip(b" \0")[:10] or b"Kit").ljust(22) if rng.random() < 0.5 else (bytes(pl["instrument_name"]).rstrip(b" \0")[:10] or b"Kit") + b"  "
    if ipad != pl["instrument_name"]:
        out.append(Edit(f"{base}/payload/instrument_name", (lambda root, v=ipad: setattr(nav(root, loc), "instrument_name", v)), ipad, cls="sampler-text-blank-padded"))
    # notes are UN-mapped from the top of the map downwards (the tail of the map becomes zeros)
    nz = [k for k, x in enumerate(pl["note_samples"]) if x]
    if nz:
        cut = nz[-1] if rng.random() < 0.5 else rng.choice(nz)
        tail = list(pl["note_samples"][:cut]) + [0] * (len(pl["note_samples"]) - cut)
        def unmap_tail(root, cut=cut):
            ns = nav(root, loc).note_samples
            for key in list(ns)[cut:]:
                ns[key] = 0
        out.append(Edit(f"{base}/payload/note_samples", unmap_tail, tail, cls="sampler-map-tail-unmapped"))
    for f, mk in (("vibrato_attack", lambda: g.pick(0, 255)), ("vibrato_depth", lambda: g.pick(0, 255)), ("vibrato_rate", lambda: g.pick(0, 63)),
                  ("volume_fadeout", lambda: g.pick(0, 8192)), ("volume_old", lambda: g.pick(0, 255)), ("ins_finetune", lambda: g.pick(-128, 127)),
                  ("ins_relative_note", lambda: g.pick(-128, 127)), ("editor_cursor", g.i32), ("editor_selected_size", g.i32),
                  ("max_version", g.u32), ("instrument_name", lambda: bytes(rng.choice(b"insNAME 1") for _ in range(rng.randint(1, 22))).rstrip(b"\0") or b"i")):
        v = differ(g, pl[f], mk)
        if v is None:
            continue
        out.append(Edit(f"{base}/payload/{f}", (lambda root, f=f, v=v: setattr(nav(root, loc), f, v)), v, cls="sampler-field"))
    v = differ(g, pl["vibrato_type"], lambda: rng.choice([0, 1, 2]))
    out.append(Edit(f"{base}/payload/vibrato_type", (lambda root, v=v: setattr(nav(root, loc), "vibrato_type", nav(root, loc).VibratoType(v))), v, cls="sampler-field"))
    if pl["effect"] is not None:
        sub = []
        module_edits(pl["effect"]["module"], loc + (("effect",), ("module",)), g, "synth", sub)
        rng.shuffle(sub)
        out.extend(sub[:12])


def pattern_edits(qs, loc, g, out, max_module=0xFFFF):
    rng = g.rng
    _cell = g.cell
    g = _GenView(g, lambda: _cell(max_module))
    base = spath(loc)
    if qs["kind"] == "clone":
        for f, mk in (("source", g.u32), ("flags_PFFF", g.u32), ("x", g.i32), ("y", g.i32)):
            v = differ(g, qs[f], mk)
            out.append(Edit(f"{base}/{f}", (lambda root, f=f, v=v: setattr(nav(root, loc), f, v)), v, cls="pattern"))
        return
    for f, mk in (("name", lambda: g.text(8)), ("y_size", g.u32), ("flags_PFLG", g.u32), ("flags_PFFF", g.u32), ("x", g.i32), ("y", g.i32),
                  ("icon", lambda: bytes(rng.randrange(256) for _ in range(32))),
                  ("fg_color", lambda: tuple(rng.randrange(256) for _ in range(3))), ("bg_color", lambda: tuple(rng.randrange(256) for _ in range(3)))):
        v = differ(g, qs[f], mk)
        if v is None:
            continue
        out.append(Edit(f"{base}/{f}", (lambda root, f=f, v=v: setattr(nav(root, loc), f, v)), v, cls="pattern"))
    ln, tr = rng.randrange(qs["lines"]), rng.randrange(qs["tracks"])
    off = (ln * qs["tracks"] + tr) * 8
    newcell = differ(g, qs["cells"][off:off + 8], g.cell)
    cells = qs["cells"][:off] + newcell + qs["cells"][off + 8:]
    def set_cell(root, ln=ln, tr=tr, c=newcell):
        import struct
        from rv.note import NOTECMD
        n = nav(root, loc).data[ln][tr]
        note, vel, module, ctl, val = struct.unpack("<BBHHH", c)
        n.note, n.vel, n.module = NOTECMD(note), vel, module
        if rng.random() < 0.5:
            n.ctl, n.val = ctl, val
        else:
            n.controller, n.effect, n.val_xx, n.val_yy = ctl >> 8, ctl & 0xFF, val >> 8, val & 0xFF
    out.append(Edit(f"{base}/cells", set_cell, cells, cls="pattern-cell"))
    # one COLUMN of a cell edited: the module number of a blank cell is set; a cell is reduced to nothing but its module number
    import struct as _struct
    ln2, tr2 = rng.randrange(qs["lines"]), rng.randrange(qs["tracks"])
    off2 = (ln2 * qs["tracks"] + tr2) * 8
    old = _struct.unpack("<BBHHH", qs["cells"][off2:off2 + 8])
    modnum = old[2] if old[2] else 1 + rng.randrange(min(max_module, 0xFFFF))
    only_module = _struct.pack("<BBHHH", 0, 0, modnum, 0, 0)
    if only_module != qs["cells"][off2:off2 + 8]:
        def reduce_cell(root, ln=ln2, tr=tr2, k=modnum):
            from rv.note import NOTECMD
            n = nav(root, loc).data[ln][tr]
            n.module = k
            n.note, n.vel, n.ctl, n.val = NOTECMD(0), 0, 0, 0
        out.append(Edit(f"{base}/cells", reduce_cell, qs["cells"][:off2] + only_module + qs["cells"][off2 + 8:], cls="pattern-cell-module-only"))
    # whole-pattern edits through the public methods
    if any(qs["cells"]):
        out.append(Edit(f"{base}/cells", (lambda root: nav(root, loc).clear()), bytes(len(qs["cells"])), cls="pattern-clear"))
    # the whole note block assigned as bytes (copied from another pattern, computed): a sparse image - most lines blank,
    # also where the pattern held events so far
    width = qs["tracks"] * 8
    image = b"".join((bytes(width) if rng.random() < 0.6 else b"".join(g.cell() if rng.random() < 0.5 else bytes(8) for _ in range(qs["tracks"])))
                     for _ in range(qs["lines"]))
    if image != qs["cells"]:
        kind = rng.randrange(3)
        out.append(Edit(f"{base}/cells", (lambda root, im=image, k=kind: setattr(nav(root, loc), "raw_data", im if k == 0 else (bytearray(im) if k == 1 else memoryview(im)))),
                        image, cls="pattern-image"))
    fill = g.cell()
    def bulk(root, c=fill):
        import struct
        from rv.note import NOTECMD, Note
        note, vel, module, ctl, val = struct.unpack("<BBHHH", c)
        nav(root, loc).set_via_fn(lambda p, l, t: Note(note=NOTECMD(note), vel=vel, module=module, ctl=ctl, val=val))
    if fill * (len(qs["cells"]) // 8) != qs["cells"]:
        out.append(Edit(f"{base}/cells", bulk, fill * (len(qs["cells"]) // 8), cls="pattern-bulk"))


class _GenView:
    """gen.Gen with cell() bounded to the module width the enclosing project's version allows (files below 1.9.5.0
    get the documented legacy fix-up that clears the module high byte)."""

    def __init__(self, g, cell):
        self._g, self.cell = g, cell

    def __getattr__(self, k):
        return getattr(self._g, k)


def project_edits(ps, loc, g, out, limit=None):
    rng = g.rng
    base = spath(loc)
    mine = []
    for f in snapshot.PROJECT_FIELDS:
        old = ps[f]
        if f == "name":
            mk = lambda: g.text(12)
        elif f in ("sunvox_version", "based_on_version"):
            mk = lambda: g.version(True)
        elif f in ("modules_x_offset", "modules_y_offset", "timeline_position", "restart_position", "selected_generator"):
            mk = g.i32
        elif f in ("receive_sync_midi", "receive_sync_other"):
            mk = lambda: rng.randrange(8)
        else:
            mk = g.u32
        v = differ(g, old, mk)
        if v is None:
            continue
        mine.append(Edit(f"{base}/{f}", (lambda root, f=f, v=v: setattr(nav(root, loc), f, v)), v, cls="project"))
    # fields that come in pairs are set to the SAME value (both grids 7, both positions 3): each keeps its own chunk
    for a_, b_ in (("time_grid", "time_grid2"), ("timeline_position", "restart_position"), ("modules_x_offset", "modules_y_offset"), ("initial_bpm", "initial_tpl")):
        if a_ in ps and b_ in ps and ps[a_] != ps[b_] and ps[b_] not in (0, 4):
            mine.append(Edit(f"{base}/{a_}", (lambda root, f=a_, v=ps[b_]: setattr(nav(root, loc), f, v)), ps[b_], cls="project-paired-fields"))
        elif a_ in ps and b_ in ps:
            v_ = 7 if ps[a_] != 7 else 9
            def both(root, fa=a_, fb=b_, v=v_):
                setattr(nav(root, loc), fb, v)
                setattr(nav(root, loc), fa, v)
            mine.append(Edit(f"{base}/{a_}", both, v_, coupled=True, cls="project-paired-fields"))
    for i, ms in enumerate(ps["modules"]):
        if ms is not None:
            module_edits(ms, loc + (("modules", i),), g, "project", mine)
    # link edits between existing modules (connect a new pair, unplug an existing one)
    live = [i for i, ms in enumerate(ps["modules"]) if ms is not None]
    edges = [(f, i) for i in live for f in ps["modules"][i]["links"]["in"] if f != -1]
    if len(live) >= 2:
        for _ in range(2):
            f, t = rng.choice(live), rng.choice(live)
            if (f, t) not in edges and f != t:
                mine.append(Edit(f"{base}/modules[{t}]/links", (lambda root, f=f, t=t: nav(root, loc).connect(nav(root, loc).modules[f], nav(root, loc).modules[t])),
                                 ("connect", f, t), coupled=True, cls="link-connect"))
                break
    if edges:
        f, t = rng.choice(edges)
        mine.append(Edit(f"{base}/modules[{t}]/links", (lambda root, f=f, t=t: nav(root, loc).connect(nav(root, loc).modules[f], ~nav(root, loc).modules[t])),
                         ("disconnect", f, t), coupled=True, cls="link-disconnect"))
    for i, qs in enumerate(ps["patterns"]):
        if qs is not None:
            pattern_edits(qs, loc + (("patterns", i),), g, mine,
                          max_module=0xFFFF if tuple(ps["sunvox_version"]) >= (1, 9, 5, 0) else 0xFF)
    if limit is not None and len(mine) > limit:
        mine = rng.sample(mine, limit)
    out.extend(mine)


def catalogue(S, g):
    out = []
    if S["kind"] == "project":
        project_edits(S, (), g, out)
    else:
        module_edits(S["module"], (("module",),), g, "synth", out)
    return out


def _snap(obj):
    from rv.project import Project
    return snapshot.snap_project(obj) if isinstance(obj, Project) else snapshot.snap_synth(obj)


def mutate_live(root, rng, n, prefer=(), exclude=None, first_classes=()):
    """Apply up to n catalogue edits in place to a live Project/Synth (used by C02/C16 for 'save, edit, save again')."""
    S = _snap(root)
    edits = catalogue(S, gen.Gen(rng))
    rng.shuffle(edits)
    edits.sort(key=lambda e: 0 if (e.cls == "metamodule-grow" or e.cls in first_classes) else (1 if any(p in e.path for p in prefer) else 2))
    applied = []
    for e in edits:
        if len(applied) >= n:
            break
        if (e.coupled and e.cls != "metamodule-grow") or (exclude is not None and exclude(e.path)):
            continue
        try:
            e.apply(root)
        except Exception:
            continue
        applied.append(e.path)
    return applied


def run_file(res, origin, raw, desc, rng, per_file):
    try:
        o0 = workload.load(raw)
    except Exception as e:
        res.count("files_unloadable")
        return
    S0 = _snap(o0)
    g = gen.Gen(rng)
    edits = catalogue(S0, g)
    res.count("files")
    res.hist("catalogue_size_by_file", origin, len(edits))
    if len(edits) > per_file:
        # keep every class represented
        by = {}
        for e in edits:
            by.setdefault(e.cls, []).append(e)
        chosen, rest = [], []
        for cls, lst in by.items():
            rng.shuffle(lst)
            take = lst[:max(3, per_file * len(lst) // len(edits))]
            chosen.extend(take[:3])           # (three of every class come first, so the cut below never loses a class)
            rest.extend(take[3:])
        edits = chosen + rest[:max(0, per_file + 40 - len(chosen))]
    # a class represented by one or two edits only meets all three situations by being run again
    per_cls = {}
    for e in edits:
        per_cls.setdefault(e.cls, []).append(e)
    for cls, lst in per_cls.items():
        for extra in range(3 - len(lst)):
            edits.append(lst[extra % len(lst)])
    nth_of_class = {}
    for e in edits:
        # what happens around the edit (was the object saved before? looked at? is it saved before anyone looks again?) goes by the
        # edit's number within its class, so that every class meets every situation - the first one of each class: neither saved
        # nor looked at before, saved first afterwards
        k_cls = nth_of_class.get(e.cls, 0)
        nth_of_class[e.cls] = k_cls + 1
        res.count("triples")
        res.hist("triples_by_class", e.cls)
        res.seen("attributes", snapshot.field_key(e.path))
        case = dict(desc, origin=origin, path=e.path, new_value=repr(e.value)[:200])
        res.case((origin, e.path, repr(e.value)))
        o = workload.load(raw)
        if k_cls % 3 == 1:
            o.read()  # the object has already been saved once since it was loaded
            res.count("saved_once_before_edit")
        S0_case = S0
        if hasattr(o, "attach_module") and rng.random() < 0.15:
            # the loaded project first gets clones of its own modules attached (duplicating a module is an everyday move);
            # the edit then goes to the addressed object only - not to its twin
            try:
                for mod in [x for x in o.modules[1:] if x is not None][:4]:
                    o.attach_module(mod.clone())
                S0_case = _snap(o)
                res.count("edits_after_attaching_clones")
            except Exception:
                o = workload.load(raw)
                S0_case = S0
        if k_cls % 4 == 3:
            # the application looks at what it loaded first (play-order view, tabular views, printing): looking is not touching
            workload.look_at(o)
            res.count("edits_after_looking_at_the_loaded_object")
        try:
            e.apply(o)
        except Exception as ex:
            if e.coupled and e.path.endswith("/controllers/value") and type(ex).__name__ == "ControllerValueError":
                # a generated MultiCtl carries arbitrary 32-bit mapping windows (legal file content); fanning a value out
                # through such a window overshoots the target, which is C20's domain (windows 0..32768 / the target's span)
                res.count("multictl_fanout_outside_window_domain")
                continue
            res.violation(f"C06:edit-raises:{snapshot.field_key(e.path)}:{type(ex).__name__}", f"{origin}: editing {e.path} to {e.value!r} raised {ex!r}", case)
            continue
        # Half of the cases save FIRST and look at the object afterwards: reading the object before the save
        # (as a snapshot does) can refresh lazily cached state and hide a replay of stale bytes.
        save_first = k_cls % 2 == 0
        raw_first = None
        if save_first:
            monitors.PURITY_ENABLED = False
            try:
                raw_first = o.read()
            except Exception as ex:
                res.violation(f"C06:save-load-raises:{snapshot.field_key(e.path)}:{workload.exc_key(ex)}", f"{origin}: after editing {e.path} saving raised {ex!r}", case)
                continue
            finally:
                monitors.PURITY_ENABLED = True
            res.count("save_first_cases")
        S1 = _snap(o)
        try:
            got = sget(S1, e.path)
        except (KeyError, IndexError, TypeError):
            got = "<missing>"
        want = e.value
        if e.cls in ("link-connect", "link-disconnect"):
            present = want[1] in got["in"]
            ok_link = present if e.cls == "link-connect" else not present
            if not ok_link:
                res.violation(f"C06:edit-not-visible:{e.cls}", f"{origin}: after {want} the in-table of {e.path} is {got['in']}", case)
                continue
            got = want
        if isinstance(want, dict) and isinstance(got, dict):
            ok = not snapshot.diff(want, got)
        else:
            ok = (tuple(got) if isinstance(got, list) else got) == (tuple(want) if isinstance(want, list) else want)
        if not ok:
            res.violation(f"C06:edit-not-visible:{snapshot.field_key(e.path)}", f"{origin}: after setting {e.path} = {want!r} the object shows {got!r}", case)
            continue
        if e.cls == "payload-inplace":
            try:
                m0, m1 = sget(S0_case, e.path.rsplit("[", 1)[0]), sget(S1, e.path.rsplit("[", 1)[0])
                idx = int(e.path.rsplit("[", 1)[1][:-1])
                moved = [k for k in range(len(m0)) if k != idx and tuple(m0[k]) != tuple(m1[k])]
                if moved:
                    res.violation(f"C06:edit-changed-other:{snapshot.field_key(e.path)}->sibling-entries",
                                  f"{origin}: editing entry {idx} of {e.path.rsplit('[', 1)[0]} in place also changed entries {moved[:5]}", case)
                    continue
            except (KeyError, IndexError, TypeError, ValueError):
                pass
        if not e.coupled:
            others = [d for d in snapshot.diff(S0_case, S1, limit=6) if not (d[0].startswith(e.path) or e.path.startswith(d[0]))]
            if others:
                res.violation(f"C06:edit-changed-other:{snapshot.field_key(e.path)}->{snapshot.field_key(others[0][0])}",
                              f"{origin}: setting {e.path} also changed {others[:2]}", case)
                continue
        try:
            raw2 = raw_first if raw_first is not None else o.read()
            o2 = workload.load(raw2)
        except Exception as ex:
            res.violation(f"C06:save-load-raises:{snapshot.field_key(e.path)}:{workload.exc_key(ex)}", f"{origin}: after editing {e.path} save/load raised {ex!r}", case)
            continue
        S2 = _snap(o2)
        res.count("roundtrips_compared")
        if res.counters["roundtrips_compared"] % 701 == 1:
            res.sample({"file": origin, "attribute": e.path, "new_value": repr(e.value)[:100], "saved_before_looking": save_first})
        d = snapshot.diff(build.norm(S1, "before"), build.norm(S2, "after"))
        if d and e.coupled and "/payload/mappings[" in e.path:
            # re-pointing exposed controller k at another target changes what slot k STANDS FOR: after the next load its stored
            # number is read in the new target's kind (True -> 1, -77 -> 51 ...).  That slot's typed value is not compared.
            try:
                k_ = int(e.path.rsplit("[", 1)[1].rstrip("]")) + 1
                own = e.path.rsplit("/payload/mappings[", 1)[0]
                d = [x for x in d if not (x[0].startswith(own) and x[0].endswith((f"/controllers/user_defined_{k_}", f"/user_defined_{k_}")))]
                res.count("mapping_edits_with_retyped_slot_ignored")
            except ValueError:
                pass
        if d:
            first = d[0]
            kind = "edit-lost" if first[0].startswith(e.path) or e.path.startswith(first[0]) else "other-changed"
            res.violation(f"C06:{kind}:{snapshot.field_key(e.path)}->{snapshot.field_key(first[0])}",
                          f"{origin}: edited {e.path} = {want!r}; after save/load {first[0]} is {first[2]} (object before saving: {first[1]})", case)


def handcrafted_files():
    """Legal but unusual files that random generation reaches only occasionally."""
    import rv.api as api
    out = []
    # a MultiCtl whose links carry mappings with controller numbers beyond the targets' controllers, 0, and valid ones
    p = api.Project()
    amps = [p.new_module(api.m.Amplifier) for _ in range(4)]
    mc = p.new_module(api.m.MultiCtl, mappings=[(0, 0x8000, 40, 0, 0, 0, 0, 0), (0, 0x8000, 0, 0, 0, 0, 0, 0),
                                                (0, 0x8000, 1, 0, 0, 0, 0, 0), (0x8000, 0, 0xFFFFFFFF, 0, 0, 0, 0, 0)])
    mc >> amps
    amps[0] >> p.output
    out.append(("multictl-odd-mappings", p.read()))
    # a project with interior empty module and pattern positions, a clone of a clone source, self link
    p = api.Project()
    a = p.new_module(api.m.Generator)
    p.attach_module(None)
    b = api.m.Filter()
    p.attach_module(b, loading=True)
    a >> b >> p.output
    b >> b
    p.attach_pattern(api.Pattern(tracks=2, lines=3))
    p.attach_pattern(None)
    p.attach_pattern(api.PatternClone(source=0))
    out.append(("gaps-and-self-link", p.read()))
    # MetaModule in MetaModule with a sampler carrying an effect
    inner = api.Project()
    smp = inner.new_module(api.m.Sampler)
    smp.effect = api.Synth(api.m.Echo())
    s = smp.Sample()
    s.data, s.format, s.channels = bytes(range(16)), smp.Format.int8, smp.Channels.mono
    smp.samples[127] = s
    mid = api.Project()
    mid.new_module(api.m.MetaModule, project=inner, user_defined_controllers=2)
    outer = api.Project()
    outer.new_module(api.m.MetaModule, project=mid, user_defined_controllers=96)
    out.append(("nested-metamodule-sampler-slot127", outer.read()))
    # a MetaModule exposing one controller of every range KIND (signed, compact, no-offset, unit-dependent, enum, bool, zero-based),
    # all holding non-default values, stand-alone and inside a project: whatever is edited afterwards, these keep their values
    emb = api.Project()
    amp = emb.new_module(api.m.Amplifier, balance=-77, bipolar_dc_offset=-100, inverse=True, volume=300)
    ms = emb.new_module(api.m.MultiSynth, transpose=-60)
    vp = emb.new_module(api.m.VorbisPlayer, finetune=-99)
    lfo = emb.new_module(api.m.Lfo, waveform=api.m.Lfo.Waveform.saw)
    for x in (amp, ms, vp, lfo):
        x >> emb.output

    def idx(mod, name):
        return list(type(mod).controllers).index(name)
    mm = api.m.MetaModule(project=emb)
    targets = [(amp, "balance"), (amp, "bipolar_dc_offset"), (amp, "inverse"), (amp, "volume"), (ms, "transpose"), (vp, "finetune"), (lfo, "waveform"), (lfo, "freq")]
    mm.user_defined_controllers = len(targets)
    for i, (mod, name) in enumerate(targets):
        mm.mappings.values[i] = mm.Mapping((mod.index, idx(mod, name)))
        mm.user_defined[i].label = name
    mm.update_user_defined_controllers()
    out.append(("metamodule-every-range-kind.sunsynth", api.Synth(mm).read()))
    holder = api.Project()
    holder.attach_module(mm)
    mm >> holder.output
    out.append(("metamodule-every-range-kind.sunvox", holder.read()))
    return out


def run_shard(spec_, res):
    if spec_.get("part") == "soak":
        from .. import soak
        for s_ in spec_["soak_seeds"]:
            soak.run(res, s_, spec_["tier"], PROPERTY, SOAK_KINDS, spec_["steps"])
        return
    monitors.install(snapshot_fn=_snap)
    rng = random.Random(env.shard_seed(spec_["shard"]))
    tier = spec_["tier"]
    # a MetaModule's labelled controllers are public attributes too (`u_<label>`): an edit through the alias lands on the
    # controller carrying the label and on no other exposed controller
    from .. import aliasprobe
    aliasprobe.run(res, PROPERTY, random.Random(env.shard_seed(spec_["shard"]) + 5), 25 if tier == "quick" else 250)
    for name in spec_["fixtures"]:
        with open(os.path.join(env.FIXTURE_DIR, name), "rb") as f:
            raw = f.read()
        run_file(res, f"fixture:{name}", raw, {"fixture": name}, rng, spec_["per_file"])
    types = sorted(T for T in spec.load() if T != "Output")
    import rv.api as api
    for i in range(spec_["gen_start"], spec_["gen_start"] + spec_["gen_count"]):
        try:
            if i % 2 == 0:
                c = workload.project_case(spec_["seed"], 5000 + i, tier, max_modules=5)
                raw = c.obj.read()
            else:
                T = ["Sampler", "MetaModule", "MultiSynth", "SpectraVoice"][i // 2 % 4] if i % 4 == 1 else types[i % len(types)]
                c = workload.module_case(spec_["seed"], 5000 + i, tier, T, ctx="synth")
                raw = api.Synth(c.obj).read()
        except Exception:
            res.count("generated_unsaveable")
            continue
        run_file(res, f"generated:{c.kind}#{i}", raw, c.describe(), rng, spec_["per_file"])
    if spec_["shard"] == 0:
        for label, raw in handcrafted_files():
            run_file(res, f"handcrafted:{label}", raw, {"handcrafted": label}, rng, spec_["per_file"])
    for name, msg in monitors.take_failures():
        res.violation(f"C06:ambient:{name}", msg, {"monitor": name})
    if spec_["shard"] == 0:
        pass


def finalize(merged, tier):
    merged["counters"]["attributes_distinct"] = len(merged["sets"].get("attributes", ()))


def replay(case, res):
    res.inconclusive.append("replay by re-running the shard with the recorded seed; file, attribute path and value are in the replay file")


# ------------------------------------------------------------------ soak slice (rvmon.soak): long mixed histories on a pool of objects
SOAK_KINDS = ['edit']


def plan(tier, seed):
    specs = _plan_core(tier, seed)
    k = 2 if tier == "quick" else 8
    for i in range(k):
        specs.append({"tier": tier, "part": "soak", "soak_seeds": [seed * 100003 + 1000 * i + j for j in range(8 if tier == "quick" else 40)],
                      "steps": 150 if tier == "quick" else 300, "seed": seed, "shard": 1000 + i})
    return specs
