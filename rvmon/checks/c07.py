"""C07 - connecting and disconnecting keep the link tables mutually consistent.

Model-based history checker: a set of directed edges is stepped alongside the real
Project.connect / >> / << / ~ and compared after EVERY operation, together with the
links_consistent invariant.  Small configurations are explored breadth-first over all
operand shapes (deduplicated by reached link-table state), larger ones randomly.
"""
import random

from .. import env, monitors, workload

PROPERTY = "C07"
LEVEL = "exploration"
RULE = ("one case = one connect/disconnect request (single or list operands, ~ marks on either side, method or operator form) "
        "applied to a real project in some reachable link-table state and compared with the edge-set model + links_consistent; "
        "distinct = distinct (state before, request) pairs; non-trivial = the request names at least one pair")
EXHAUSTIVE_AXIS = "N=3 modules: all requests from the operand alphabet (44 operands per side) applied in every link-table state reachable within the depth bound (quick: depth 2 complete, depth 3 sampled; thorough: depth 3 complete, N=4 depth 2 complete)"
ASSUMPTIONS = [
    "model: for every (f, t) in F x T, in order, the pair is removed if f or t carries the ~ mark, otherwise added; nothing else changes; a pair is recorded at most once",
    "self pairs (f == t) and the output as a source are legal requests for the library and are modelled like any other pair",
    "a request naming a module of another project must raise ModuleOwnershipError; with single operands nothing may change; with list operands only the pairs requested before the foreign one may have been applied and the tables must stay consistent",
    "slot order inside the tables is not part of C07 (C08 covers persistence); only edge set + mutual consistency are judged",
]
REQUIRED_COUNTERS = ["ops_applied", "consistency_evaluations", "cross_project_refusals", "operator_chains"]
WORKERS = {"quick": 4, "thorough": 16}


# ------------------------------------------------------------------ operands
def operand_alphabet(n):
    """All operand shapes over module indices 0..n-1: (kind, ((idx, marked), ...))."""
    import itertools
    ops = []
    for i in range(n):
        for m in (False, True):
            ops.append(("single", ((i, m),)))
            ops.append(("list", ((i, m),)))
    for k in range(2, n + 1):
        for subset in itertools.combinations(range(n), k):
            for order in (subset, tuple(reversed(subset))):
                for marks in ("none", "all", "first", "last"):
                    items = []
                    for pos, i in enumerate(order):
                        mk = (marks == "all") or (marks == "first" and pos == 0) or (marks == "last" and pos == len(order) - 1)
                        items.append((i, mk))
                    ops.append(("list", tuple(items)))
    return ops


def model_apply(edges, F, T):
    e = set(edges)
    for f, fm in F[1]:
        for t, tm in T[1]:
            if isinstance(f, str) or isinstance(t, str):
                return e, True  # foreign module reached: stop (error expected)
            if fm or tm:
                e.discard((f, t))
            else:
                e.add((f, t))
    return e, False


def requested_pairs(F, T):
    return [((f, t), (fm or tm)) for f, fm in F[1] for t, tm in T[1]]


# ------------------------------------------------------------------ real side
def build_project(n):
    import rv.api as api
    p = workload.new_project(every=4)
    for k in range(n - 1):
        _BUILD[0] += 1
        how = _BUILD[0] % 7
        if how in (5, 6):
            # application subclasses that are containers of what they hold (empty, hence falsy, and iterable)
            p.attach_module(workload.containerish_types()[(_BUILD[0] // 7) % 3]())
        elif how == 1:
            # the owner named at construction (a documented constructor keyword), attached afterwards
            p.attach_module(api.m.Amplifier(parent=p))
        elif how == 2:
            p.new_module(api.m.Amplifier, parent=p)
        elif how == 3:
            p += api.m.Amplifier()
        else:
            p.new_module(api.m.Amplifier)
    return p


_BUILD = [0]


def state_of(p):
    return tuple((tuple(m.in_links), tuple(m.in_link_slots), tuple(m.out_links), tuple(m.out_link_slots)) for m in p.modules)


_POOL = {}


def restore(n, st):
    """A project of n modules whose link tables are set to ``st`` (object reused; lists reset in place)."""
    p = _POOL.get(n)
    if p is None:
        p = _POOL[n] = build_project(n)
    for m, (il, ils, ol, ols) in zip(p.modules, st):
        m.in_links[:] = il
        m.in_link_slots[:] = ils
        m.out_links[:] = ol
        m.out_link_slots[:] = ols
    return p


_SPELL = [0, 0, 0]


def resolve(p, foreign, operand, as_modulelist=False):
    from rv.modules.module import ModuleList
    kind, items = operand
    objs = []
    for i, marked in items:
        m = foreign[int(i[1:])] if isinstance(i, str) else p.modules[i]
        # (~m asks for a disconnect; ~~m is m again - every third plain operand is spelled that way)
        _SPELL[0] += 1
        objs.append(~m if marked else (~~m if _SPELL[0] % 3 == 0 else m))
    if kind == "single":
        return objs[0]
    return ModuleList(p, objs) if as_modulelist else objs


def as_other_iterable(objs, which):
    """The same operands as a tuple / a generator / an iterator (for the method form; one-shot iterables only where the
    request is consumed once: as the TO side of a single source, or as the FROM side)."""
    if which == "tuple":
        return tuple(objs)
    if which == "generator":
        return (o for o in objs)
    if which == "iter":
        return iter(objs)
    if which == "reversed-twice":
        return reversed(list(reversed(objs)))
    if which == "lazy-fresh":
        # operands made on the fly: every `~m` wrapper is created when the consumer asks for the next item and is garbage
        # as soon as the consumer moves on
        from rv.modules.module import DisconnectingModule
        return (~(~o) if isinstance(o, DisconnectingModule) else o for o in objs)
    if which == "map-fresh":
        from rv.modules.module import DisconnectingModule
        return map(lambda o: ~o.orig if isinstance(o, DisconnectingModule) else ~~o, objs)
    return objs


def apply_real(p, foreign, F, T, api_form):
    """Apply through the requested API form; falls back to the method when the form cannot express it."""
    # a single operand dispatches the operator through ITS parent; a foreign / unattached module
    # as dispatcher is a request to another (or to no) project, which is outside this property
    f_single_plain = F[0] == "single" and not F[1][0][1] and not isinstance(F[1][0][0], str)
    t_single_plain = T[0] == "single" and not T[1][0][1] and not isinstance(T[1][0][0], str)
    if api_form == "rshift" and (f_single_plain or F[0] == "list"):
        resolve(p, foreign, F, as_modulelist=True) >> resolve(p, foreign, T)
        return "rshift"
    if api_form == "lshift" and (t_single_plain or T[0] == "list"):
        resolve(p, foreign, T, as_modulelist=True) << resolve(p, foreign, F)
        return "lshift"
    f_ops, t_ops = resolve(p, foreign, F), resolve(p, foreign, T)
    _SPELL[1] += 1
    which = ("list", "tuple", "generator", "iter", "reversed-twice", "lazy-fresh", "map-fresh")[_SPELL[1] % 7]
    if which != "list":
        if isinstance(t_ops, list) and not isinstance(f_ops, list):
            t_ops = as_other_iterable(t_ops, which)         # one source, the destinations as any iterable
        elif isinstance(f_ops, list) and isinstance(t_ops, list) and which == "tuple":
            f_ops, t_ops = tuple(f_ops), tuple(t_ops)
        elif isinstance(f_ops, list):
            f_ops = as_other_iterable(f_ops, which)         # the sources as any iterable (walked once)
    # the documented parameter names are part of the method: positionally, by keyword, half and half, through functools.partial
    _SPELL[2] += 1
    call = _SPELL[2] % 5
    if call == 1:
        p.connect(from_modules=f_ops, to_modules=t_ops)
    elif call == 2:
        p.connect(f_ops, to_modules=t_ops)
    elif call == 3:
        import functools
        functools.partial(p.connect, to_modules=t_ops)(f_ops)
    elif call == 4:
        p.connect(to_modules=t_ops, from_modules=f_ops)
    else:
        p.connect(f_ops, t_ops)
    return "method"


def step(res, p, foreign, F, T, api_form, ctx):
    """Apply one request, compare with the model. Returns False if a violation was reported."""
    from rv.errors import ModuleOwnershipError
    before = set(monitors.edge_multiset(p))
    before_state = state_of(p)
    want, foreign_hit = model_apply(before, F, T)
    case = dict(ctx, F=[F[0], [list(x) for x in F[1]]], T=[T[0], [list(x) for x in T[1]]], api=api_form)
    res.count("ops_applied")
    try:
        used = apply_real(p, foreign, F, T, api_form)
        raised = None
    except ModuleOwnershipError as e:
        raised = e
        used = api_form
    except Exception as e:  # any other exception is a violation of "the sequence does what it asks"
        res.violation(f"C07:exception:{type(e).__name__}", f"request {case} raised {e!r}", case)
        return False
    res.hist("api_forms", used)
    res.hist("operand_shapes", f"{F[0]}{len(F[1])}x{T[0]}{len(T[1])}")
    probs = monitors.links_consistent(p)
    res.count("consistency_evaluations")
    if probs:
        res.violation("C07:inconsistent-tables", f"after {case}: {probs[:3]}", case)
        return False
    got_list = monitors.edge_multiset(p)
    got = set(got_list)
    if len(got) != len(got_list):
        res.violation("C07:duplicate-pair", f"after {case}: edges {got_list}", case)
        return False
    if foreign_hit:
        res.count("cross_project_refusals")
        if raised is None:
            res.violation("C07:cross-project-accepted", f"{case} did not raise ModuleOwnershipError", case)
            return False
        if F[0] == "single" and T[0] == "single":
            if state_of(p) != before_state:
                res.violation("C07:cross-project-changed-state", f"refused request {case} changed the tables", case)
                return False
        else:
            # only pairs requested before the foreign one may differ, and only in the requested direction
            allowed = {}
            for (f, t), dis in requested_pairs(F, T):
                if isinstance(f, str) or isinstance(t, str):
                    break
                allowed[(f, t)] = dis
            for pair in got ^ before:
                if pair not in allowed or (pair in got) == allowed[pair]:
                    res.violation("C07:cross-project-side-effect", f"refused request {case} changed pair {pair}", case)
                    return False
        for fm in foreign:
            if fm.in_links or fm.out_links or fm.parent is not foreign_parent(fm):
                res.violation("C07:cross-project-touched-foreign", f"{case} modified the foreign module", case)
                return False
        return True
    if raised is not None:
        res.violation("C07:spurious-ownership-error", f"{case} raised {raised!r}", case)
        return False
    if got != want:
        missing = sorted(want - got)
        extra = sorted(got - want)
        kind = "connect-lost" if any(not d for (_p, d) in requested_pairs(F, T) if _p in missing) else \
            ("disconnect-lost" if extra and all(pr in before for pr in extra) else "wrong-pair")
        shape = f"{F[0]}x{T[0]}"
        res.violation(f"C07:{kind}:{shape}", f"after {case} (edges before {sorted(before)}): missing {missing}, extra {extra}", case)
        return False
    return True


_FOREIGN_PARENT = {}


def foreign_parent(m):
    return _FOREIGN_PARENT.get(id(m))


def make_foreign(k=2):
    import rv.api as api
    q = api.Project()
    out = [q.new_module(api.m.Amplifier) for _ in range(k - 1)]
    out.append(api.m.Amplifier())  # unattached module (parent None) is not in this project either
    # ... nor is another project's Output, be it a top-level project's or the one inside a MetaModule
    out.append(q.output)
    out.append(api.m.MetaModule().project.output)
    for m in out:
        _FOREIGN_PARENT[id(m)] = m.parent
    return out


# ------------------------------------------------------------------ workloads
def bfs(res, n, depth, last_slice, rng, sample_last=None):
    ops_alpha = operand_alphabet(n)
    requests = [(F, T) for F in ops_alpha for T in ops_alpha]
    init = state_of(build_project(n))
    seen = {init}
    frontier = [init]
    forms = ("method", "rshift", "lshift")
    for d in range(1, depth + 1):
        last = d == depth
        states = frontier
        if last:
            if sample_last is not None and len(states) > sample_last:
                states = rng.sample(states, sample_last)
                res.exhaustive = False
            i, k = last_slice
            states = states[i::k]
        new = []
        for st in states:
            for ri, (F, T) in enumerate(requests):
                p = restore(n, st)
                res.evaluations += 1
                ok = step(res, p, [], F, T, forms[(ri + d) % 3], {"n": n, "state": [list(map(list, x)) for x in st], "depth": d})
                if not ok and res.counters.get("violations_raw", 0) > 30:
                    return
                s2 = state_of(p)
                if s2 not in seen:
                    seen.add(s2)
                    new.append(s2)
                    res.digests.add(hash(s2) & 0xFFFFFFFFFFFF)
        if last_slice[0] == 0 or last:
            res.hist("bfs_new_states_by_depth", f"n{n}d{d}", len(new))
        frontier = new
    if last_slice[0] == 0:
        res.count(f"bfs_states_before_last_depth_n{n}", len(seen) - len(frontier))


def random_sequences(res, rng, n_seq, max_n, max_len):
    for s in range(n_seq):
        n = rng.randint(2, max_n)
        p = build_project(n)
        foreign = make_foreign()
        length = rng.randint(1, max_len)
        history = []
        for k in range(length):
            def rand_operand(allow_foreign):
                if rng.random() < 0.45:
                    kind = "single"
                    idxs = [rng.randrange(n)]
                else:
                    kind = "list"
                    idxs = rng.sample(range(n), rng.randint(1, min(n, 4)))
                    if rng.random() < 0.1:
                        idxs.append(rng.choice(idxs))  # the same module twice in one list
                items = []
                for i in idxs:
                    if allow_foreign and rng.random() < 0.03:
                        i = f"X{rng.randrange(len(foreign))}"
                    items.append((i, rng.random() < 0.3))
                return (kind, tuple(items))
            F, T = rand_operand(True), rand_operand(True)
            form = rng.choice(("method", "rshift", "lshift"))
            history.append([F, T, form])
            res.case((s, k, state_of(p), F, T))
            ok = step(res, p, foreign, F, T, form, {"n": n, "history": [[[h[0][0], [list(x) for x in h[0][1]]], [h[1][0], [list(x) for x in h[1][1]]], h[2]] for h in history[:-1]], "seq": s, "step": k})
            if not ok:
                break
        res.count("random_sequences")
        if s == 0:
            res.sample({"n": n, "sequence": [[h[0][0], [list(x) for x in h[0][1]], h[1][0], [list(x) for x in h[1][1]], h[2]] for h in history[:5]]})


def operator_chains(res, rng, n_seq, max_n):
    """`a >> [b, c] >> d << e ...`: each operator returns its right operand in chainable form, so a chain of k operators is
    k requests, each between the previous right operand and the next one.  Judged against the same edge model, plus the
    value every operator returns."""
    import operator
    from rv.modules.module import ModuleList
    for s in range(n_seq):
        n = rng.randint(3, max_n)
        p = build_project(n)
        for _ in range(rng.randint(0, 4)):      # some links exist already
            a, b = rng.randrange(n), rng.randrange(n)
            p.connect(p.modules[a], p.modules[b])
        k = rng.randint(2, 5)
        operands, ops = [], []
        for i in range(k + 1):
            if rng.random() < 0.5:
                operands.append(("single", ((rng.randrange(n), False),)))
            else:
                operands.append(("list", tuple((j, False) for j in rng.sample(range(n), rng.randint(1, min(n, 3))))))
            if i < k:
                ops.append(rng.choice((">>", "<<")))
        case = {"n": n, "chain": [[o[0], [x[0] for x in o[1]]] for o in operands], "ops": ops, "initial": sorted(map(list, monitors.edge_multiset(p)))}
        res.case((n, tuple(operands), tuple(ops), state_of(p)))
        res.count("operator_chains")
        res.hist("chain_lengths", k)
        want = set(monitors.edge_multiset(p))
        for i, op in enumerate(ops):
            F, T = (operands[i], operands[i + 1]) if op == ">>" else (operands[i + 1], operands[i])
            want, _ = model_apply(want, F, T)
        try:
            cur = resolve(p, [], operands[0], as_modulelist=True)
            for i, op in enumerate(ops):
                nxt = resolve(p, [], operands[i + 1])
                ret = (operator.rshift if op == ">>" else operator.lshift)(cur, nxt)
                res.count("operator_return_values_checked")
                if isinstance(nxt, list):
                    good = isinstance(ret, ModuleList) and len(ret) == len(nxt) and all(x is y for x, y in zip(ret, nxt))
                else:
                    good = ret is nxt
                if not good:
                    res.violation(f"C07:operator-returns-wrong-operand:{'list' if isinstance(cur, list) else 'single'}{op}{'list' if isinstance(nxt, list) else 'single'}",
                                  f"chain {case}: operator {i} ({op}) returned {ret!r}, not its right operand {nxt!r}", case)
                    break
                cur = ret
        except Exception as e:
            res.violation(f"C07:exception:{type(e).__name__}", f"chain {case} raised {e!r}", case)
            continue
        probs = monitors.links_consistent(p)
        res.count("consistency_evaluations")
        if probs:
            res.violation("C07:inconsistent-tables", f"after chain {case}: {probs[:3]}", case)
            continue
        got = set(monitors.edge_multiset(p))
        if got != want:
            res.violation("C07:chain-wrong-edges", f"after chain {case}: missing {sorted(want - got)}, extra {sorted(got - want)}", case)


def unusual_holders(res, rng, n_seq):
    """The same requests when (1) the caller kept only the MODULES (the project object is reachable through them alone),
    (2) the project is a copy.deepcopy of another one (requests inside the copy; the original must not notice),
    (3) the project has several hundred modules and the requests concern the high positions."""
    import copy
    import gc
    import rv.api as api

    def build(n):
        p = api.Project()
        return [p.output] + [p.new_module(api.m.Amplifier) for _ in range(n - 1)]

    for s in range(n_seq):
        kind = ("modules-only", "deepcopy", "large")[s % 3]
        n = rng.randint(3, 6) if kind != "large" else rng.randint(300, 340)
        mods = build(n)
        gc.collect()
        if any(m.parent is None or m.parent is not mods[0].parent for m in mods):
            res.violation(f"C07:holder:{kind}:parent-lost", f"{kind}: modules of a project whose object the caller did not keep have lost their project", {"kind": kind, "n": n})
            continue
        original = None
        if kind == "deepcopy":
            original = mods[0].parent
            for _ in range(rng.randint(0, 5)):
                original.connect(rng.choice(mods), rng.choice(mods))
            p = copy.deepcopy(original)
            mods = list(p.modules)
            before_original = (state_of(original), original.read())
        else:
            p = None
        want = set(monitors.edge_multiset(mods[0].parent if p is None else p))
        history = []
        res.count("unusual_holder_sequences")
        res.hist("unusual_holders", kind)
        pool = list(range(n)) if kind != "large" else list(range(257, n)) + [0, 1, 5]
        ok = True
        for k in range(rng.randint(2, 12)):
            f, t = rng.choice(pool), rng.choice(pool)
            dis = rng.random() < 0.3
            rep = rng.choice((1, 1, 2, 3))          # the same request several times in a row
            for _ in range(rep):
                history.append([f, t, dis])
                try:
                    if rng.random() < 0.5:
                        mods[f] >> (~mods[t] if dis else mods[t])
                    else:
                        (mods[t] << (~mods[f] if dis else mods[f])) if not dis else mods[f].parent.connect(mods[f], ~mods[t])
                except Exception as e:
                    res.violation(f"C07:holder:{kind}:request-raised:{type(e).__name__}", f"{kind}: request {history[-1]} raised {e!r} (history {history[-6:]})", {"kind": kind, "n": n, "history": history})
                    ok = False
                    break
                res.count("ops_applied")
            if not ok:
                break
            want.discard((f, t)) if dis else want.add((f, t))
            proj = mods[0].parent
            if proj is None or any(m.parent is not proj for m in (mods[f], mods[t])):
                res.violation(f"C07:holder:{kind}:parent-lost", f"{kind}: modules no longer share their project after {history[-3:]}", {"kind": kind, "history": history})
                ok = False
                break
            got_list = monitors.edge_multiset(proj)
            res.count("consistency_evaluations")
            probs = monitors.links_consistent(proj)
            if probs or set(got_list) != want or len(got_list) != len(set(got_list)):
                res.violation(f"C07:holder:{kind}:{'inconsistent-tables' if probs else 'wrong-edges'}",
                              f"{kind} (n={n}): after {history[-4:]}: {probs[:2] if probs else sorted(set(got_list) ^ want)[:6]} (duplicates: {len(got_list) - len(set(got_list))})",
                              {"kind": kind, "n": n, "history": history})
                ok = False
                break
        if ok and original is not None and (state_of(original), original.read()) != before_original:
            res.violation("C07:holder:deepcopy:original-changed", f"requests made inside a deep copy changed the project it was copied from (history {history[-6:]})", {"kind": kind, "history": history})


def hubs_and_twins(res, rng, n):
    """(1) A MultiCtl as the hub of 10-16 links (its mapping table has 16 entries): repeated and overlapping list requests
    through the method and through both operators - already connected pairs are no-ops, new ones are made, in any form.
    (2) Two MetaModules whose embedded projects have identical content, saved and loaded: requests inside one embedded
    project leave the other one alone."""
    import rv.api as api
    for s in range(n):
        p = api.Project()
        hub = p.new_module(api.m.MultiCtl)
        amps = [p.new_module(api.m.Amplifier) for _ in range(16)]
        k = rng.randint(10, 15)
        p.connect(hub, amps[:k])
        want = set(monitors.edge_multiset(p))
        history = [["hub-links", k]]
        res.count("hub_sequences")
        for step_ in range(rng.randint(2, 6)):
            lo = rng.randint(0, 12)
            part = amps[lo:lo + rng.randint(1, 6)]
            part = [a for a in part if a.index - 1 < 17][:max(1, 16 - 0)]
            part = [a for a in part if (hub.index, a.index) in want or len({b for (f_, b) in want if f_ == hub.index}) < 16]
            form = rng.choice(("method", "rshift", "lshift-each"))
            history.append([form, [a.index for a in part]])
            try:
                if form == "method":
                    p.connect(hub, part)
                elif form == "rshift":
                    hub >> (part if len(part) > 1 else part[0])
                else:
                    for a in part:
                        a << hub
            except Exception as e:
                res.violation(f"C07:hub:request-raised:{form}:{type(e).__name__}", f"MultiCtl hub with {len([1 for (f_, b) in want if f_ == hub.index])} links: {form} request to {[a.index for a in part]} "
                                                                                  f"(some already connected) raised {e!r}", {"history": history})
                break
            for a in part:
                want.add((hub.index, a.index))
            res.count("ops_applied")
            res.count("consistency_evaluations")
            got = monitors.edge_multiset(p)
            if monitors.links_consistent(p) or set(got) != want or len(got) != len(set(got)):
                res.violation("C07:hub:wrong-edges", f"after {history[-1]}: {sorted(set(got) ^ want)[:6]}, duplicates {len(got) - len(set(got))}", {"history": history})
                break
    for s in range(n):
        def inner_project():
            q = api.Project()
            g, a = q.new_module(api.m.Generator), q.new_module(api.m.Amplifier)
            q.connect(g, a)
            q.connect(a, q.output)
            return q
        outer = api.Project()
        outer.new_module(api.m.MetaModule, project=inner_project())
        outer.new_module(api.m.MetaModule, project=inner_project())
        loaded = workload.load(outer.read()) if s % 2 == 0 else outer.clone()
        one, two = loaded.modules[1].project, loaded.modules[2].project
        before_two = (state_of(two), two.read())
        res.count("twin_sequences")
        history = []
        for _ in range(rng.randint(1, 5)):
            f, t = rng.randrange(3), rng.randrange(3)
            dis = rng.random() < 0.4
            history.append([f, t, dis])
            one.connect(one.modules[f], ~one.modules[t] if dis else one.modules[t])
            res.count("ops_applied")
        res.count("consistency_evaluations")
        if (state_of(two), two.read()) != before_two:
            res.violation("C07:twin-embedded-projects:other-changed", f"requests {history} inside the embedded project of one MetaModule changed the link tables of its twin "
                                                                      f"(identical content, {'loaded' if s % 2 == 0 else 'cloned'})", {"history": history})
        elif monitors.links_consistent(one) or monitors.links_consistent(two):
            res.violation("C07:twin-embedded-projects:inconsistent", f"after {history}", {"history": history})


def mixed_sequences(res, rng, n_seq, max_len):
    """Link requests interleaved with the other things a project lives through: new modules (appended or filling an empty
    position), empty positions, saving (object kept), saving + loading (continue on the loaded project).  Modules are
    tracked by unique names so the edge model survives position changes and reloads."""
    import rv.api as api
    for s in range(n_seq):
        p = api.Project()
        names = {}          # name -> module object (current project)
        edges = set()       # (name, name)
        counter = [0]

        def add_module(loading=False):
            counter[0] += 1
            nm = f"m{counter[0]}"
            m = api.m.Amplifier(name=nm)
            p.attach_module(m, loading=True) if loading else p.attach_module(m)
            names[nm] = m
            return nm
        names["Output"] = p.output
        for _ in range(rng.randint(2, 4)):
            add_module()
        history = []
        for k in range(rng.randint(3, max_len)):
            r = rng.random()
            live = sorted(names)
            if r < 0.55 and len(live) >= 2:
                f = rng.sample(live, rng.randint(1, min(3, len(live))))
                t = rng.sample(live, rng.randint(1, min(3, len(live))))
                fm = [rng.random() < 0.25 for _ in f]
                tm = [rng.random() < 0.25 for _ in t]
                F = [~names[n] if mk else names[n] for n, mk in zip(f, fm)]
                T = [~names[n] if mk else names[n] for n, mk in zip(t, tm)]
                for n1, m1 in zip(f, fm):
                    for n2, m2 in zip(t, tm):
                        if m1 or m2:
                            edges.discard((n1, n2))
                        else:
                            edges.add((n1, n2))
                op = ("link", list(zip(f, fm)), list(zip(t, tm)))
                form = rng.choice(("method", "rshift"))
                try:
                    if form == "rshift" and len(F) == 1 and not fm[0]:
                        F[0] >> (T[0] if len(T) == 1 else T)
                    else:
                        p.connect(F[0] if len(F) == 1 and rng.random() < 0.5 else F, T[0] if len(T) == 1 and rng.random() < 0.5 else T)
                except Exception as e:
                    history.append(op)
                    res.violation(f"C07:mixed:request-raised:{type(e).__name__}", f"legal request {op} raised {e!r} after {history[-8:]}", {"history": history})
                    break
            elif r < 0.62:
                # things that are not link requests and must leave every link alone: an attached module handed to the
                # project again (alone or in a list with a new one), a clone of a linked module attached as a new module
                live_mods = [n for n in live if n != "Output"]
                kind = rng.choice(("reattach", "reattach-iadd", "reattach-in-list", "attach-clone"))
                if not live_mods:
                    kind = "new"
                try:
                    if kind == "reattach":
                        p.attach_module(names[rng.choice(live_mods)])
                    elif kind == "reattach-iadd":
                        p += names[rng.choice(live_mods)]
                    elif kind == "reattach-in-list":
                        counter[0] += 1
                        nm = f"m{counter[0]}"
                        fresh = api.m.Amplifier(name=nm)
                        p += [names[rng.choice(live_mods)], fresh]
                        names[nm] = fresh
                    elif kind == "attach-clone":
                        counter[0] += 1
                        nm = f"m{counter[0]}"
                        c = names[rng.choice(live_mods)].clone()
                        c.name = nm
                        p.attach_module(c)
                        names[nm] = c
                    else:
                        add_module()
                except Exception as e:
                    res.violation(f"C07:mixed:request-raised:{type(e).__name__}", f"{kind} raised {e!r} after {history[-8:]}", {"history": history + [(kind,)]})
                    break
                op = (kind,)
            elif r < 0.68:
                op = ("new_module", add_module())
            elif r < 0.76:
                p.attach_module(None)
                op = ("empty_position",)
            elif r < 0.86:
                p.read()
                op = ("save",)
            else:
                p = api.read_sunvox_file(__import__("io").BytesIO(p.read()))
                names = {("Output" if m.index == 0 else m.name): m for m in p.modules if m is not None}
                op = ("save_load",)
            history.append(op)
            res.count("ops_applied")
            res.hist("mixed_ops", op[0])
            res.case((s, k, op[0], len(edges)))
            probs = monitors.links_consistent(p)
            res.count("consistency_evaluations")
            if probs:
                res.violation(f"C07:mixed:inconsistent-after:{op[0]}", f"after {op} (history {history[-6:]}): {probs[:2]}", {"history": history})
                break
            by_index = {m.index: nm for nm, m in names.items()}
            got = {(by_index[a], by_index[b]) for a, b in monitors.edge_multiset(p)}
            if got != edges or len(monitors.edge_multiset(p)) != len(got):
                res.violation(f"C07:mixed:edges-after:{op[0]}", f"after {op}: connections {sorted(got ^ edges)} differ from the requests (history {history[-6:]})", {"history": history})
                break
        if s == 0:
            res.sample({"mixed_sequence": [list(map(str, h)) for h in history[:10]]})


def _plan_core(tier, seed):
    specs = []
    if tier == "quick":
        k = 4
        for i in range(k):
            specs.append({"tier": tier, "part": "bfs", "n": 3, "depth": 3, "slice": [i, k], "sample_last": 24, "seed": env.shard_seed(i)})
        for i in range(2):
            specs.append({"tier": tier, "part": "random", "n_seq": 1500, "max_n": 8, "max_len": 40, "seed": env.shard_seed(10 + i)})
        for i in range(2):
            specs.append({"tier": tier, "part": "mixed", "n_seq": 600, "max_len": 25, "seed": env.shard_seed(20 + i)})
    else:
        k = 16
        for i in range(k):
            specs.append({"tier": tier, "part": "bfs", "n": 3, "depth": 3, "slice": [i, k], "sample_last": None, "seed": env.shard_seed(i)})
        for i in range(8):
            specs.append({"tier": tier, "part": "bfs", "n": 4, "depth": 2, "slice": [i, 8], "sample_last": None, "seed": env.shard_seed(100 + i)})
        for i in range(16):
            specs.append({"tier": tier, "part": "random", "n_seq": 20000, "max_n": 8, "max_len": 40, "seed": env.shard_seed(200 + i)})
        for i in range(8):
            specs.append({"tier": tier, "part": "mixed", "n_seq": 4000, "max_len": 40, "seed": env.shard_seed(300 + i)})
    return specs


def run_shard(spec_, res):
    if spec_.get("part") == "soak":
        from .. import soak
        for s_ in spec_["soak_seeds"]:
            soak.run(res, s_, spec_["tier"], PROPERTY, SOAK_KINDS, spec_["steps"])
        return
    rng = random.Random(spec_["seed"])
    monitors.install()  # ambient contract on Project.connect as well
    if spec_["part"] == "bfs":
        res.exhaustive = True
        bfs(res, spec_["n"], spec_["depth"], tuple(spec_["slice"]), rng, spec_.get("sample_last"))
    elif spec_["part"] == "mixed":
        mixed_sequences(res, rng, spec_["n_seq"], spec_["max_len"])
        unusual_holders(res, rng, max(9, spec_["n_seq"] // 40))
        hubs_and_twins(res, rng, max(10, spec_["n_seq"] // 40))
    else:
        random_sequences(res, rng, spec_["n_seq"], spec_["max_n"], spec_["max_len"])
        operator_chains(res, rng, spec_["n_seq"] // 3, spec_["max_n"])
    if spec_["tier"] == "thorough" and spec_["part"] == "bfs" and spec_["n"] == 3 and spec_["slice"][0] == 0:
        from ._repo_suite import ambient_under_repo_tests
        ambient_under_repo_tests(res, PROPERTY, ["links_consistent"])
    for name, msg in monitors.take_failures():
        res.violation(f"C07:ambient:{name}", msg, {"monitor": name})
    res.count("ambient_contract_evaluations", monitors.COUNTERS.get("links_consistent.evaluations", 0))
    res.counters["contract_backend_" + str(monitors.BACKEND)] = 1


def replay(case, res):
    monitors.install()
    n = case["n"]
    foreign = make_foreign()
    def op(x):
        return (x[0], tuple((i, bool(m)) for i, m in x[1]))
    if "state" in case:
        st = tuple(tuple(tuple(l) for l in m) for m in case["state"])
        p = restore(n, st)
        step(res, p, foreign, op(case["F"]), op(case["T"]), case["api"], {"n": n, "replayed": True})
    else:
        p = build_project(n)
        for F, T, form in case.get("history", []):
            if not step(res, p, foreign, op(F), op(T), form, {"n": n, "replayed": "history"}):
                return
        step(res, p, foreign, op(case["F"]), op(case["T"]), case["api"], {"n": n, "replayed": "final op"})


# ------------------------------------------------------------------ soak slice (rvmon.soak): long mixed histories on a pool of objects
SOAK_KINDS = ['structure']


def plan(tier, seed):
    specs = _plan_core(tier, seed)
    k = 2 if tier == "quick" else 8
    for i in range(k):
        specs.append({"tier": tier, "part": "soak", "soak_seeds": [seed * 100003 + 1000 * i + j for j in range(8 if tier == "quick" else 40)],
                      "steps": 150 if tier == "quick" else 300, "seed": seed, "shard": 1000 + i})
    return specs
