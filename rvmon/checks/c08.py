"""C08 - the connection graph and slot order persist across save/load."""
import os
import random
import struct

from .. import env, iffparse, monitors, workload
from . import c07

PROPERTY = "C08"
LEVEL = "exploration"
RULE = ("one case = one reachable link-table state (from the C07 breadth-first exploration for N=3 and from random connect/disconnect "
        "sequences for N<=8: cycles, fan-in/out, freed slots in the middle, links to the output, self links) saved and loaded, plus file "
        "variants of the saved bytes built without rv: explicit slot chunk added to every module lacking it / to a random subset, slot "
        "chunk removed everywhere, trailing -1 entries appended; after each load the four tables are compared (native, present variants, "
        "trailing variant: equal up to trailing freed slots; all-absent: same directed edges) and links_consistent is evaluated. "
        "distinct = distinct (state, variant); non-trivial = the state has at least one link")
EXHAUSTIVE_AXIS = "every link-table state reachable for N=3 within depth 2 of the C07 alphabet (all states), each with all file variants"
ASSUMPTIONS = [
    "the native file is itself the 'slot chunk present for only some modules' case: the writer emits it exactly for modules with a slot outside {0, -1}",
    "removing the slot chunk from only SOME modules whose true slots are non-zero yields an ill-formed file (two links claim one out-slot under the absent => 0 rule); such files are generated and counted (ambiguous_variant_*) but not judged (DESIGN C08)",
    "in the all-absent variant slot positions are legitimately re-derived, so only the directed edge multiset and mutual consistency are judged",
]
REQUIRED_COUNTERS = ["states", "native_roundtrips", "variants_all_present", "variants_all_absent", "variants_trailing", "consistency_evaluations"]
WORKERS = {"quick": 4, "thorough": 16}


def plan(tier, seed):
    n = 4 if tier == "quick" else 16
    specs = [{"tier": tier, "part": "bfs", "slice": [i, n], "seed": env.shard_seed(i), "depth": 2,
              "sample": 500 if tier == "quick" else None} for i in range(n)]
    specs += [{"tier": tier, "part": "random", "seed": env.shard_seed(50 + i), "n_seq": 250 if tier == "quick" else 8000, "n_wide": 2 if tier == "quick" else 12} for i in range(n)]
    specs += [{"tier": tier, "part": "embedded", "seed": env.shard_seed(90 + i), "n_seq": 60 if tier == "quick" else 800} for i in range(2 if tier == "quick" else 8)]
    return specs


def trim(a, b):
    a, b = list(a), list(b)
    while a and a[-1] == -1:
        a.pop()
        if len(b) > len(a):
            b.pop()
    return a, b


def tables(p):
    out = []
    for m in p.modules:
        if m is None:
            out.append(None)
            continue
        i, isl = trim(m.in_links, m.in_link_slots)
        o, osl = trim(m.out_links, m.out_link_slots)
        out.append((i, isl, o, osl))
    return out


def sections(chunks):
    """Split the module part of a project chunk list into per-module sections."""
    first = next(i for i, c in enumerate(chunks) if c[0] == b"SFFF")
    head = chunks[:first]
    secs, cur = [], []
    for c in chunks[first:]:
        cur.append(c)
        if c[0] == b"SEND":
            secs.append(cur)
            cur = []
    return head, secs, cur


def variant(raw, p, kind, rng):
    """Build a file variant from the saved bytes (no rv involved)."""
    chunks = [(c[0], c[1]) for c in iffparse.parse(raw)]
    head, secs, tail = sections(chunks)
    out = list(head)
    touched = 0
    for idx, sec in enumerate(secs):
        m = p.modules[idx] if idx < len(p.modules) else None
        new = []
        has = any(c[0] == b"SLnK" for c in sec)
        for c in sec:
            if c[0] == b"SLnK" and kind in ("all-absent",):
                touched += 1
                continue
            if c[0] == b"SLnK" and kind == "partial-absent" and rng.random() < 0.5:
                touched += 1
                continue
            if c[0] == b"SLNK" and kind == "trailing":
                k = rng.randint(1, 3)
                new.append((b"SLNK", c[1] + struct.pack("<" + "i" * k, *([-1] * k))))
                touched += 1
                continue
            if c[0] == b"SLnK" and kind == "trailing":
                k = rng.randint(0, 2)
                new.append((b"SLnK", c[1] + struct.pack("<" + "i" * k, *([-1] * k))))
                continue
            new.append(c)
            if c[0] == b"SLNK" and not has and c[1] and m is not None and kind in ("all-present", "subset-present"):
                if kind == "all-present" or rng.random() < 0.5:
                    n = len(c[1]) // 4
                    slots = list(m.in_link_slots[:n])
                    new.append((b"SLnK", struct.pack("<" + "i" * n, *slots)))
                    touched += 1
        out.extend(new)
    out.extend(tail)
    return iffparse.build(out), touched


def check_state(res, p, rng, ctx):
    """Native round trip + variants for the link state currently held by project p."""
    res.count("states")
    before = tables(p)
    edges = monitors.edge_multiset(p)
    nontrivial = bool(edges)
    case = dict(ctx, tables=[None if t is None else [list(x) for x in t] for t in before])
    probs = monitors.links_consistent(p)
    if probs:
        res.violation("C08:precondition-inconsistent", f"state is inconsistent before saving: {probs[:2]}", case)
        return
    raw = p.read()
    res.case((tuple(map(repr, before)), "native"), nontrivial=nontrivial)
    if nontrivial and rng.random() < 0.02:
        workload.saves_into_positioned_streams(res, "C08", p, case)
    # an application that COLLECTS the chunk sequence first (to sort, measure or checksum it) and writes it afterwards
    # gets the same file as the streaming writer
    if nontrivial and rng.random() < 0.3:
        held = list(p.chunks())
        res.count("held_chunk_sequences")
        try:
            data = iffparse.build([(bytes(n), bytes(d)) for n, d in held if n is not None])      # (a None name is a documented no-op)
        except Exception as e:
            res.violation(f"C08:held-chunks:{type(e).__name__}", f"a collected chunk sequence cannot be written: {e!r}", case)
        else:
            if data != raw:
                k = next((i for i, (x, y) in enumerate(zip(iffparse.parse(data), iffparse.parse(raw))) if x[:2] != y[:2]), None)
                res.violation("C08:held-chunks-differ", f"list(project.chunks()) written out differs from project.read() (first differing chunk #{k}: "
                                                        f"{iffparse.parse(raw)[k][0] if k is not None else '?'})", case)

    def load_and_compare(data, kind, exact):
        try:
            if kind == "reader-classes":
                # the reader classes of rv.readers used directly, as the loading function itself uses them
                from io import BytesIO as _B
                from rv.errors import override_raise_controller_value_errors as _ov
                from rv.readers.initial import InitialReader
                with _ov(False):
                    q = InitialReader(_B(data)).object
            else:
                q = workload.load(data)
        except Exception as e:
            res.violation(f"C08:unloadable:{kind}:{workload.exc_key(e)}", f"{kind} file does not load: {e!r}", dict(case, variant=kind))
            return
        res.count("consistency_evaluations")
        pr = monitors.links_consistent(q)
        if pr:
            res.violation(f"C08:inconsistent-after-load:{kind}", f"{kind}: tables after load violate mutual consistency: {pr[:3]}", dict(case, variant=kind))
            return
        after = tables(q)
        # trailing empty modules are trimmed by the reader
        b2 = list(before)
        while b2 and b2[-1] is None:
            b2.pop()
        if exact:
            if after != b2:
                which = next((i for i, (x, y) in enumerate(zip(after, b2)) if x != y), None)
                part = "?"
                if which is not None and after[which] is not None and b2[which] is not None:
                    names = ("in_links", "in_link_slots", "out_links", "out_link_slots")
                    part = next((names[k] for k in range(4) if after[which][k] != b2[which][k]), "?")
                res.violation(f"C08:tables-differ:{kind}:{part}", f"{kind}: module {which}: before {b2[which] if which is not None else b2}, after {after[which] if which is not None else after}", dict(case, variant=kind))
        else:
            if monitors.edge_multiset(q) != edges:
                res.violation(f"C08:edges-differ:{kind}", f"{kind}: edges before {edges}, after {monitors.edge_multiset(q)}", dict(case, variant=kind))

    res.count("native_roundtrips")
    load_and_compare(raw, "native", True)
    if nontrivial and rng.random() < 0.2:
        res.count("loads_through_reader_classes")
        load_and_compare(raw, "reader-classes", True)
    if ctx.get("origin") == "random":
        # the same bytes as they sit in a larger stream: zero padding behind them (block-padded storage), and a foreign header
        # in front of them with the stream handed over positioned at the project
        pad = bytes(rng.choice([8, 12, 16, 64, 512]))
        res.count("padded_streams")
        load_and_compare(raw + pad, "zero-padding-behind", True)
        junk = bytes(rng.randrange(1, 256) for _ in range(rng.choice([4, 16, 37])))
        try:
            from io import BytesIO
            import rv.api as api
            f = BytesIO(junk + raw)
            f.seek(len(junk))
            q = api.read_sunvox_file(f)
            res.count("offset_streams")
            if monitors.links_consistent(q) or monitors.edge_multiset(q) != edges:
                res.violation("C08:edges-differ:stream-at-offset", f"project read from a stream positioned behind a {len(junk)}-byte foreign header: edges {monitors.edge_multiset(q)}, saved {edges}", dict(case, variant="stream-at-offset"))
        except Exception as e:
            res.violation(f"C08:unloadable:stream-at-offset:{workload.exc_key(e)}", f"project read from a stream positioned behind a foreign header: {e!r}", dict(case, variant="stream-at-offset"))
    if ctx.get("origin") == "random" and rng.random() < 0.12:
        # through a FILE NAME, twice on the same name: an earlier state of the project was saved there and loaded before; then
        # this state (same length when only links moved, same timestamp when both saves fall into one clock tick or a tool
        # preserves times) - the name gives what it holds now
        import tempfile
        tdir = tempfile.mkdtemp(prefix="rvmon-c08-", dir=os.environ.get("TMPDIR", "/var/tmp"))
        try:
            path = os.path.join(tdir, "graph.sunvox")
            p_earlier = workload.load(raw)                     # (a separate object: the state under test is not touched)
            live_ = [m for m in p_earlier.modules if m is not None]
            f_, t_ = rng.choice(live_), rng.choice(live_)
            was = t_.index in [x for x in f_.out_links if x != -1]
            p_earlier.connect(f_, t_ if not was else ~t_)      # the earlier state differs by one link
            earlier = p_earlier.read()
            with open(path, "wb") as fh:
                fh.write(earlier)
            st = os.stat(path)
            try:
                workload.load_path(path)
            except Exception:
                pass
            now = raw
            with open(path, "wb") as fh:
                fh.write(now)
            if len(now) == len(earlier):
                os.utime(path, ns=(st.st_atime_ns, st.st_mtime_ns))
                res.count("same_name_same_size_same_mtime_reloads")
            res.count("same_name_reloads")
            try:
                q = workload.load_path(path)
                if monitors.edge_multiset(q) != edges:
                    res.violation("C08:edges-differ:same-file-name-rewritten", f"the file name was loaded before with another graph; after rewriting it loads {monitors.edge_multiset(q)}, the file holds {edges}", dict(case, variant="by-name"))
            except Exception as e:
                res.violation(f"C08:unloadable:by-name:{workload.exc_key(e)}", f"loading by file name failed: {e!r}", dict(case, variant="by-name"))
        finally:
            import shutil
            shutil.rmtree(tdir, ignore_errors=True)
    if any(c[0] == b"SLnK" for c in iffparse.parse(raw)):
        res.count("native_files_with_some_slot_chunks")
    for kind, exact, counter in (("all-present", True, "variants_all_present"), ("subset-present", True, "variants_subset_present"),
                                 ("all-absent", False, "variants_all_absent"), ("trailing", True, "variants_trailing")):
        data, touched = variant(raw, p, kind, rng)
        if not touched and kind != "all-absent":
            res.count(f"{counter}_identical_to_native")
        res.count(counter)
        res.evaluations += 1
        load_and_compare(data, kind, exact)
    # ambiguous variant: observed, not judged
    data, touched = variant(raw, p, "partial-absent", rng)
    if touched:
        res.count("ambiguous_variant_files")
        try:
            q = workload.load(data)
            if monitors.links_consistent(q):
                res.count("ambiguous_variant_inconsistent")
        except Exception:
            res.count("ambiguous_variant_unloadable")


def run_bfs(res, spec_, rng):
    n = 3
    alpha = c07.operand_alphabet(n)
    requests = [(F, T) for F in alpha for T in alpha]
    init = c07.state_of(c07.build_project(n))
    seen = {init}
    frontier = [init]
    for d in range(spec_["depth"]):
        new = []
        for st in frontier:
            for F, T in requests:
                p = c07.restore(n, st)
                try:
                    c07.apply_real(p, [], F, T, "method")
                except Exception:
                    continue
                s2 = c07.state_of(p)
                if s2 not in seen:
                    seen.add(s2)
                    new.append(s2)
        frontier = new
    states = sorted(seen)
    res.count("bfs_states_total", len(states) if spec_["slice"][0] == 0 else 0)
    if spec_["sample"] and len(states) > spec_["sample"] * spec_["slice"][1]:
        states = random.Random(0).sample(states, spec_["sample"] * spec_["slice"][1])
        res.exhaustive = False
    else:
        res.exhaustive = True
    i, k = spec_["slice"]
    for st in states[i::k]:
        import rv.api as api
        p = api.Project()
        for _ in range(n - 1):
            p.new_module(api.m.Amplifier)
        for m, (il, ils, ol, ols) in zip(p.modules, st):
            m.in_links[:], m.in_link_slots[:], m.out_links[:], m.out_link_slots[:] = il, ils, ol, ols
        check_state(res, p, rng, {"origin": "bfs", "n": n})


def run_random(res, spec_, rng):
    import rv.api as api
    for s in range(spec_["n_seq"]):
        n = rng.randint(2, 8)
        p = api.Project()
        from rv.modules import MODULE_CLASSES
        classes = [c for k, c in sorted(MODULE_CLASSES.items()) if k != "Output"]
        for _ in range(n - 1):
            if rng.random() < 0.1:
                p.attach_module(None)
            else:
                # any module type in its freshly constructed state (an empty Sampler, a MetaModule with an empty project ...):
                # links do not depend on what kind of module sits at either end
                cls = rng.choice(classes) if rng.random() < 0.6 else api.m.Amplifier
                p.attach_module(cls(), loading=True)
                res.seen("module_types_in_graphs", cls.__name__)
        live = [i for i, m in enumerate(p.modules) if m is not None]
        history = []
        shape = rng.choice(("random", "fan-in", "fan-out", "cycle", "holes"))
        ops = []
        if shape == "fan-in" and len(live) > 2:
            t = rng.choice(live)
            ops = [(f, t, False) for f in live if f != t]
        elif shape == "fan-out" and len(live) > 2:
            f = rng.choice(live)
            ops = [(f, t, False) for t in live if t != f]
        elif shape == "cycle" and len(live) > 1:
            ops = [(live[i], live[(i + 1) % len(live)], False) for i in range(len(live))]
        for _ in range(rng.randint(0, 25)):
            f, t = rng.choice(live), rng.choice(live)
            ops.append((f, t, rng.random() < (0.45 if shape == "holes" else 0.25)))
        for f, t, dis in ops:
            fm, tm = p.modules[f], p.modules[t]
            p.connect(fm, ~tm if dis else tm)
            history.append([f, t, dis])
            if rng.random() < 0.15:
                p.read()  # the project is saved in the middle of the session; saving must not disturb later link requests
                history.append("save")
                res.count("saves_between_requests")
        res.hist("graph_shapes", shape)
        if rng.random() < 0.3:
            # the public flags word of a module is the user's to set (mute, solo, bypass ... or nothing at all); links do not
            # depend on it
            for i in rng.sample(live, min(len(live), 3)):
                if i != 0:
                    p.modules[i].flags = rng.choice([0, 0x100, 0x80, 0x2000, 0x180, 0x1E, rng.randrange(1 << 24) & ~1])
            history.append("flags-assigned")
            res.count("states_with_assigned_flags")
        if rng.random() < 0.5:
            # the version stamp of the file is the writer's business; links persist whichever stamp it carries
            p.sunvox_version = rng.choice([(1, 7, 0, 0), (1, 9, 2, 0), (1, 9, 5, 2), (1, 9, 6, 0), (1, 9, 6, 1), (2, 0, 0, 0), (2, 1, 2, 1)])
            history.append(["VERS", list(p.sunvox_version)])
            res.hist("version_stamps", ".".join(map(str, p.sunvox_version)))
        holes = sum(1 for m in p.modules if m for x in list(m.in_links)[:-1] + list(m.out_links)[:-1] if x == -1)
        res.count("interior_freed_slots", holes)
        check_state(res, p, rng, {"origin": "random", "n": n, "ops": history})
        if s == 0:
            res.sample({"n": n, "ops[from,to,disconnect]": history[:12], "tables": [None if t is None else [list(x) for x in t] for t in tables(p)]})


def run_wide(res, spec_, rng):
    """Very wide fan-out / fan-in: one module with several hundred links, some of them unplugged again, so that slot
    numbers beyond 255 occur on both sides."""
    import rv.api as api
    for s in range(spec_.get("n_wide", 0)):
        p = api.Project()
        width = rng.randint(257, 330)
        hub = p.new_module(api.m.Amplifier)
        sink = p.new_module(api.m.Amplifier)
        others = [p.new_module(api.m.Amplifier) for _ in range(width)]
        direction = "out" if s % 2 == 0 else "in"
        for o in others:
            if direction == "out":
                p.connect(hub, o)
                p.connect(o, sink)
            else:
                p.connect(o, hub)
                p.connect(sink, o)
        for o in rng.sample(others, rng.randint(0, 40)):
            if direction == "out":
                p.connect(hub, ~o)
            else:
                p.connect(o, ~hub)
        if others[-1].index in (hub.out_links if direction == "out" else hub.in_links):
            res.count("wide_states_with_slot_over_255")
        res.hist("graph_shapes", f"wide-{direction}")
        check_state(res, p, rng, {"origin": "wide", "width": width, "direction": direction})


def run_loaded_then_rewired(res, spec_, rng):
    """Graphs that are re-wired AFTER they came from a file - a file stamped with any (also an old) version, the graph at top
    level, inside a MetaModule, or inside the MetaModule that is a Sampler's effect: fan-out, one early destination unplugged
    (a freed out-slot in the middle), saved and loaded again."""
    import rv.api as api
    for s in range(8 if spec_["tier"] == "quick" else 80):
        where = ("top", "metamodule", "sampler-effect")[s % 3]
        inner = api.Project()
        mods = [inner.new_module(rng.choice([api.m.Amplifier, api.m.Filter, api.m.Generator])) for _ in range(rng.randint(4, 7))]
        inner.connect(mods[0], mods[1])
        inner.connect(mods[1], inner.output)
        inner.sunvox_version = rng.choice([(1, 9, 4, 0), (1, 9, 5, 0), (1, 9, 6, 0), (1, 9, 6, 1), (2, 1, 2, 1), (1, 7, 0, 0)])
        if where == "top":
            outer, find = inner, (lambda o: o)
        elif where == "metamodule":
            outer = api.Project()
            outer.new_module(api.m.MetaModule, project=inner)
            find = lambda o: o.modules[1].project
        else:
            outer = api.Project()
            smp = outer.new_module(api.m.Sampler)
            smp.effect = api.Synth(api.m.MetaModule(project=inner))
            find = lambda o: o.modules[1].effect.module.project
        case = {"origin": "loaded-then-rewired", "where": where, "stamp": list(inner.sunvox_version)}
        res.count("states")
        res.count("loaded_then_rewired_states")
        try:
            o1 = workload.load(outer.read())
            g = find(o1)
            src = g.modules[1]
            dests = [m for m in g.modules[3:] if m is not None]
            for d in dests:
                g.connect(src, d)
            g.connect(src, ~dests[0])            # frees an out-slot in the middle
            if len(dests) > 2 and rng.random() < 0.5:
                g.connect(src, ~dests[1])
            want = tables(g)
            o2 = workload.load(o1.read())
            got = tables(find(o2))
        except Exception as e:
            res.violation(f"C08:rewired-raises:{where}:{workload.exc_key(e)}", f"{where}: {e!r}", case)
            continue
        res.count("consistency_evaluations")
        b2 = list(want)
        while b2 and b2[-1] is None:
            b2.pop()
        if monitors.links_consistent(find(o2)) or got != b2:
            which = next((i for i, (x, y) in enumerate(zip(got, b2)) if x != y), None)
            res.violation(f"C08:tables-differ:loaded-then-rewired:{where}", f"graph ({where}, file stamped {inner.sunvox_version}) re-wired after loading: module {which}: "
                                                                            f"saved {b2[which] if which is not None else b2}, loaded {got[which] if which is not None else got}", case)


def run_hubs(res, spec_, rng):
    """Hubs of 17..48 links whose hub is a module of ANY type (a MultiCtl has a 16-entry mapping table, a MetaModule 96
    mappings, ...: the link tables are no business of those), with slots freed in the middle and one destination re-plugged
    again and again."""
    import rv.api as api
    from rv.modules import MODULE_CLASSES
    classes = [c for k, c in sorted(MODULE_CLASSES.items()) if k != "Output"]
    for s in range(6 if spec_["tier"] == "quick" else 60):
        p = api.Project()
        hub_cls = (api.m.MultiCtl, api.m.MetaModule, api.m.Sampler, api.m.MultiSynth, rng.choice(classes), api.m.MultiCtl)[s % 6]
        hub = p.new_module(hub_cls)
        width = rng.randint(17, 48)
        others = [p.new_module(rng.choice([api.m.Amplifier, api.m.Filter, api.m.Generator])) for _ in range(width)]
        direction = rng.choice(("out", "out", "in"))
        for o in others:
            p.connect(hub, o) if direction == "out" else p.connect(o, hub)
        for o in rng.sample(others[:-1], rng.randint(1, 8)):
            p.connect(hub, ~o) if direction == "out" else p.connect(o, ~hub)
        pet = others[-1]
        for _ in range(rng.randint(0, 18)):
            if direction == "out":
                p.connect(hub, ~pet)
                p.connect(hub, pet)
            else:
                p.connect(pet, ~hub)
                p.connect(pet, hub)
        res.hist("graph_shapes", f"hub-{direction}")
        res.seen("module_types_in_graphs", hub_cls.__name__)
        res.count("hub_states")
        check_state(res, p, rng, {"origin": "hub", "hub": hub_cls.__name__, "width": width, "direction": direction})


def run_embedded(res, spec_, rng):
    """The same guarantees for the project embedded in a MetaModule, including after the LOADED embedded project is
    edited by unplugging only (no other kind of edit) and the outer project is saved again."""
    import rv.api as api
    for s in range(spec_["n_seq"]):
        inner = api.Project()
        n = rng.randint(3, 6)
        for _ in range(n - 1):
            inner.new_module(api.m.Amplifier)
        live = list(range(n))
        for _ in range(rng.randint(2, 10)):
            f, t = rng.choice(live), rng.choice(live)
            inner.connect(inner.modules[f], ~inner.modules[t] if rng.random() < 0.25 else inner.modules[t])
        big = rng.random() < 0.15
        if big:
            # a BIG embedded project (long pattern / a sample: 70 KiB .. 200 KiB of embedded data)
            if rng.random() < 0.5:
                inner.attach_pattern(api.Pattern(tracks=4, lines=rng.choice([2200, 4096])))
            else:
                smp = inner.new_module(api.m.Sampler)
                s_ = smp.Sample()
                s_.data, s_.format, s_.channels = bytes(rng.choice([70000, 200000])), smp.Format.int8, smp.Channels.mono
                smp.samples[0] = s_
            res.count("big_embedded_states")
        outer = api.Project()
        outer.new_module(api.m.MetaModule, project=inner)
        res.count("states")
        res.count("embedded_states")
        res.case(("embedded", tuple(map(repr, tables(inner)))))
        case = {"origin": "embedded", "tables": [None if t is None else [list(x) for x in t] for t in tables(inner)]}
        try:
            o2 = workload.load(outer.read())
        except Exception as e:
            res.violation(f"C08:embedded-unloadable:{workload.exc_key(e)}", f"project with embedded graph does not load: {e!r}", case)
            continue
        in2 = o2.modules[1].project
        res.count("native_roundtrips")
        res.count("consistency_evaluations")
        if monitors.links_consistent(in2) or tables(in2) != tables(inner):
            res.violation("C08:tables-differ:embedded", f"embedded graph before {tables(inner)} after {tables(in2)}", case)
            continue
        # unplug-only edits of the loaded embedded project
        edges = monitors.edge_multiset(in2)
        if not edges:
            continue
        for f, t in rng.sample(edges, rng.randint(1, min(2, len(edges)))):
            in2.connect(in2.modules[f], ~in2.modules[t])
        want = tables(in2)
        o3 = workload.load(o2.read())
        in3 = o3.modules[1].project
        res.count("embedded_unplug_roundtrips")
        res.count("consistency_evaluations")
        if monitors.links_consistent(in3) or tables(in3) != want:
            res.violation("C08:tables-differ:embedded-after-unplug", f"embedded graph after unplugging {want}, after save+load {tables(in3)}", case)
        # the first copy was re-wired (and gets a module more); the ORIGINAL bytes, loaded again, still give the saved graph
        try:
            extra = in2.new_module(api.m.Distortion)
            in2.connect(in2.modules[1], extra)
            o2.read()
            again = workload.load(outer.read()).modules[1].project
        except Exception as e:
            res.violation(f"C08:embedded-unloadable:{workload.exc_key(e)}", f"loading the original bytes again raised {e!r}", case)
            continue
        res.count("embedded_second_loads")
        if tables(again) != tables(inner):
            res.violation("C08:tables-differ:embedded-second-load", f"the original bytes, loaded again after the first copy was re-wired, give {tables(again)}; saved was {tables(inner)}"
                                                                    f"{' (big embedded project)' if big else ''}", case)


def run_deep(res, spec_, rng):
    """A graph at the bottom of a tower of MetaModules (20-30 levels; each level carries a small graph of its own): every
    level comes back with its graph."""
    import rv.api as api
    for s in range(2 if spec_["tier"] == "quick" else 6):
        depth = rng.randint(18, 30)
        graphs = []
        proj = None
        for level in range(depth):
            p = api.Project()
            if proj is not None:
                p.new_module(api.m.MetaModule, project=proj)
            a, b = p.new_module(api.m.Amplifier), p.new_module(api.m.Filter)
            p.connect(a, b)
            p.connect(b, p.output)
            if rng.random() < 0.5:
                p.connect(a, p.output)
                p.connect(a, ~b)
            graphs.append(tables(p))
            proj = p
        res.count("deep_towers")
        res.hist("tower_depths", depth)
        res.case(("deep", depth, s))
        case = {"origin": "deep", "depth": depth}
        try:
            q = workload.load(proj.read())
        except Exception as e:
            res.violation(f"C08:deep-unloadable:{workload.exc_key(e)}", f"{depth} nested MetaModules do not save/load: {e!r}", case)
            continue
        cur = q
        for level in range(depth - 1, -1, -1):
            res.count("consistency_evaluations")
            if monitors.links_consistent(cur) or tables(cur) != graphs[level]:
                res.violation("C08:tables-differ:deep", f"graph {depth - 1 - level} levels below the top: before {graphs[level]}, after {tables(cur)}", dict(case, level=depth - 1 - level))
                break
            metas = [m for m in cur.modules if m is not None and m.mtype == "MetaModule"]
            if level and not metas:
                res.violation("C08:tables-differ:deep", f"the MetaModule {depth - level} levels below the top is gone", dict(case, level=depth - level))
                break
            cur = metas[0].project if metas else None


def run_shard(spec_, res):
    if spec_.get("part") == "embedded":
        run_deep(res, spec_, random.Random(spec_["seed"] + 5))
    if spec_.get("part") == "random" and spec_.get("n_wide"):
        run_wide(res, spec_, random.Random(spec_["seed"] + 77))
    if spec_.get("part") == "random":
        run_hubs(res, spec_, random.Random(spec_["seed"] + 78))
        run_loaded_then_rewired(res, spec_, random.Random(spec_["seed"] + 79))
    rng = random.Random(spec_["seed"])
    monitors.install()
    if spec_["part"] == "bfs":
        run_bfs(res, spec_, rng)
    elif spec_["part"] == "embedded":
        run_embedded(res, spec_, rng)
    else:
        run_random(res, spec_, rng)
    if spec_["part"] == "random":
        from .. import threadtasks
        threadtasks.run_loads(res, PROPERTY, random.Random(spec_["seed"] + 99), spec_["seed"], spec_["tier"], 8 if spec_["tier"] == "quick" else 60)
    for name, msg in monitors.take_failures():
        res.violation(f"C08:ambient:{name}", msg, {"monitor": name})


def replay(case, res):
    import rv.api as api
    monitors.install()
    p = api.Project()
    tabs = case["tables"]
    for t in tabs[1:]:
        if t is None:
            p.attach_module(None)
        else:
            p.attach_module(api.m.Amplifier(), loading=True)
    for m, t in zip(p.modules, tabs):
        if m is not None and t is not None:
            m.in_links[:], m.in_link_slots[:], m.out_links[:], m.out_link_slots[:] = t
    check_state(res, p, random.Random(0), {"origin": "replay"})
