"""C13 - generated module metadata agrees with the YAML specification.

Monitor: after ``import rv`` (a quiescent point) walk the live registry
``rv.modules.MODULE_CLASSES`` and compare every class, controller and option field by
field with the independent reading of the spec (rvmon.spec).  The domain (43 types, 502
controllers, 49 options) is enumerated completely.
"""
import enum
import os
import shutil
import subprocess
import sys
import tempfile

from .. import env, spec

PROPERTY = "C13"
LEVEL = "exploration"
RULE = ("the comparison runs twice: at the quiescent point after import and again after a hostile workload (about a thousand loads of files with unknown module types, out-of-enumeration unit/enum values and garbage option records, plus API use under every unit); "
        "every (module type, controller|option|class field) comparison between the live class "
        "objects and the independent spec reader is one case; all are distinct by construction; "
        "non-trivial = the spec declares a value for that field")
EXHAUSTIVE_AXIS = "all module types x all controllers x all options x all compared fields"
ASSUMPTIONS = [
    "rvmon.spec reads specs/fileformat.yaml correctly (it shares no code with rv/genrv)",
    "hand-written extra controllers are tolerated only after all spec controllers and only if unattached on a fresh instance",
]
REQUIRED_COUNTERS = ["controllers_compared", "options_compared", "types_compared", "hostile_loads"]


def _plan_core(tier, seed):
    return [{"tier": tier}]


def _kind_of(vt, rvc):
    if vt is bool:
        return "bool"
    if isinstance(vt, type) and issubclass(vt, enum.Enum):
        return "enum"
    if isinstance(vt, rvc.DependentRange):
        return "dependent"
    if type(vt) is rvc.CompactRange:
        return "compact"
    if type(vt) is rvc.NoOffsetRange:
        return "no_offset"
    if type(vt) is rvc.Range:
        return "range"
    return f"other:{type(vt).__name__}"


def compare_all(res, sp=None):
    import gc
    gc.collect()        # (classes an application defined and dropped are garbage with reference cycles: collect them before looking)
    import rv.api  # noqa
    import rv.controller as rvc
    from rv.modules import MODULE_CLASSES

    sp = sp or spec.load()
    by_mtype = {t.mtype: t for t in sp.values()}

    def cmp(key, what, got, want):
        res.case((key, what))
        if res.evaluations % 997 == 1:
            res.sample({"compared": f"{key} / {what}", "live_class_value": repr(got)[:120], "spec_value": repr(want)[:120]})
        if got != want:
            res.violation(f"C13:{key}:{what}", f"{key} {what}: class has {got!r}, spec says {want!r}",
                          {"key": key, "field": what, "got": repr(got), "want": repr(want)})

    # registry <-> spec bijection
    for mtype in sorted(set(MODULE_CLASSES) | set(by_mtype)):
        res.case(("registry", mtype))
        if mtype not in MODULE_CLASSES:
            res.violation(f"C13:{mtype}:missing-class", f"spec type {mtype!r} has no registered class", {"mtype": mtype})
        elif mtype not in by_mtype:
            res.violation(f"C13:{mtype}:extra-class", f"class registered as {mtype!r} is not in the spec", {"mtype": mtype})
    classes_by_obj = {}
    for mtype, cls in MODULE_CLASSES.items():
        classes_by_obj.setdefault(id(cls), []).append(mtype)
    for ids, names in classes_by_obj.items():
        if len(names) > 1:
            res.violation("C13:registry:duplicate", f"one class registered under {names}", {"names": names})

    for mtype, t in sorted(by_mtype.items()):
        cls = MODULE_CLASSES.get(mtype)
        if cls is None:
            continue
        res.count("types_compared")
        T = t.cls_name
        cmp(T, "class-name", cls.__name__, t.cls_name)
        cmp(T, "mtype", cls.mtype, t.mtype)
        cmp(T, "group", cls.mgroup, t.group)
        cmp(T, "default_flags", cls.default_flags, t.default_flags)
        cmp(T, "flags", cls.flags, t.default_flags)
        try:
            inst = cls()
        except Exception as e:  # pragma: no cover
            res.violation(f"C13:{T}:construct", f"{T}() raised {e!r}", {"type": T})
            continue
        cmp(T, "instance-flags", inst.flags, t.default_flags)
        # enums declared in the spec exist on the class with the mangled members
        for ename, members in t.enums.items():
            e = getattr(cls, ename, None)
            got = [(m.name, m.value) for m in e] if isinstance(e, type) and issubclass(e, enum.Enum) else None
            # aliases (same value twice) are listed by __members__
            if got is not None:
                got = [(n, m.value) for n, m in e.__members__.items()]
            cmp(f"{T}.{ename}", "enum-members", got, list(members))
        # controllers: order, numbering, kind, bounds, default
        names = list(cls.controllers)
        want_names = [c.name for c in t.controllers]
        cmp(T, "controller-order", names[:len(want_names)], want_names)
        for extra in names[len(want_names):]:
            res.case((T, "extra", extra))
            res.count("extra_controllers_seen")
            c = cls.controllers[extra]
            if c.attached(inst):
                res.violation(f"C13:{T}.{extra}:extra-attached",
                              f"{T}.{extra} is not in the spec but is attached (takes part in CVAL mapping)",
                              {"type": T, "controller": extra})
        for i, sc in enumerate(t.controllers, 1):
            c = cls.controllers.get(sc.name)
            K = f"{T}.{sc.name}"
            if c is None:
                res.case((K, "exists"))
                res.violation(f"C13:{K}:missing", f"{K} missing on class", {"key": K})
                continue
            res.count("controllers_compared")
            cmp(K, "number", c.number, sc.number)
            cmp(K, "position", names.index(sc.name) + 1 if sc.name in names else None, i)
            cmp(K, "name", c.name, sc.name)
            cmp(K, "attached", bool(c.attached(inst)), bool(sc.attached))
            vt = c.value_type
            kind = _kind_of(vt, rvc)
            cmp(K, "kind", kind, sc.kind)
            if sc.kind in ("range", "compact", "no_offset") and kind == sc.kind:
                cmp(K, "min", vt.min, sc.min)
                cmp(K, "max", vt.max, sc.max)
                cmp(K, "default", c.default, sc.default)
            elif sc.kind == "enum" and kind == "enum":
                cmp(K, "enum-class", vt is getattr(cls, sc.enum, None), True)
                cmp(K, "enum-members", [(n, m.value) for n, m in vt.__members__.items()], list(sc.members))
                d = c.default
                cmp(K, "default", d.value if isinstance(d, enum.Enum) else d, sc.default_value())
                cmp(K, "default-is-member", isinstance(d, vt), True)
            elif sc.kind == "bool" and kind == "bool":
                cmp(K, "default", c.default, bool(sc.default))
            elif sc.kind == "dependent" and kind == "dependent":
                cmp(K, "depends_on", vt.ctl_name, sc.depends_on)
                unit_enum = getattr(cls, sc.enum, None)
                got = {}
                for k, r in vt.range_map.items():
                    got[k.name if isinstance(k, enum.Enum) else k] = (type(r).__name__, r.min, r.max)
                    if isinstance(k, enum.Enum):
                        cmp(K, f"unit-enum:{k.name}", isinstance(k, unit_enum), True)
                want = {n: ("WarnOnlyRange", lo, hi) for n, (lo, hi) in sc.ranges.items()}
                cmp(K, "unit-table", got, want)
                first = next(iter(sc.ranges.values()))
                cmp(K, "fallback-range", (type(vt.default).__name__, vt.default.min, vt.default.max),
                    ("WarnOnlyRange",) + tuple(first))
                cmp(K, "default", c.default, sc.default)
            # the live fresh instance reports the default too (ties C13 to observable state)
        # options
        want_opts = {o.name: o for o in t.options}
        cmp(T, "option-names", sorted(cls.options), sorted(want_opts))
        if t.options_chnm is not None:
            cmp(T, "options_chnm", cls.options_chnm, t.options_chnm)
        for oname, so in want_opts.items():
            o = cls.options.get(oname)
            K = f"{T}.{oname}"
            if o is None:
                continue
            res.count("options_compared")
            cmp(K, "opt-name", o.name, so.name)
            cmp(K, "byte", o.byte, so.byte)
            cmp(K, "bit", o.bit, so.bit)
            cmp(K, "size", o.size, so.size)
            cmp(K, "number", o.number, so.number)
            cmp(K, "min", o.min, so.min)
            cmp(K, "max", o.max, so.max)
            cmp(K, "inverted", bool(o.inverted), so.inverted)
            cmp(K, "exclusive_of", list(o.exclusive_of), so.exclusive_of)
            d = o.default
            if so.enum:
                want_d = dict(so.members)[spec.mangle(so.default)]
                cmp(K, "default", d.value if isinstance(d, enum.Enum) else d, want_d)
                cmp(K, "default-enum", isinstance(d, getattr(cls, so.enum)), True)
            else:
                cmp(K, "default", d, so.default)
    res.distinct = 0  # digests carry the count
    res.exhaustive = True


def regen_diff(res):
    """Secondary evidence: run the real generator into a scratch dir and diff with the tree."""
    base = tempfile.mkdtemp(prefix="rvmon-genrv-", dir=os.environ.get("TMPDIR", "/var/tmp"))
    try:
        dest = os.path.join(base, "out")
        os.makedirs(os.path.join(dest, "modules", "base"))
        code = (
            "import sys,yaml,logging\n"
            f"sys.path.insert(0,{env.SRC!r})\n"
            "from pathlib import Path\n"
            "import genrv\n"
            "from genrv.tools import generate as g\n"
            "from jinja2 import Environment, FileSystemLoader, PrefixLoader\n"
            "from stringcase import camelcase, pascalcase\n"
            "gp=Path(genrv.__file__).parent\n"
            "envj=Environment(loader=PrefixLoader({n:FileSystemLoader(gp/'codegen'/n) for n in ('python','ts')}))\n"
            "envj.filters.update(camelcase=camelcase,enumname=g.enumname,hex=hex,pascalcase=pascalcase,repr=repr)\n"
            "from genrv.codegen.python.gen import PythonGenerator\n"
            "import inspect\n"
            f"gen=PythonGenerator(spec_base={os.path.dirname(env.SPEC_PATH)!r}, dest_base={dest!r})\n"
            "gen.run(envj)\n"
        )
        p = subprocess.run([sys.executable, "-B", "-c", code], capture_output=True, text=True, timeout=300, cwd=env.REPO)
        if p.returncode != 0:
            res.counters["regen"] = {"status": "generator-not-runnable", "stderr_tail": p.stderr[-400:]}
            return
        same = diff = 0
        diffs = []
        gen_dir = os.path.join(dest, "modules", "base")
        for f in sorted(os.listdir(gen_dir)):
            a = open(os.path.join(gen_dir, f)).read()
            bpath = os.path.join(env.SRC, "rv", "modules", "base", f)
            b = open(bpath).read() if os.path.exists(bpath) else None
            if a == b:
                same += 1
            else:
                diff += 1
                diffs.append(f)
        res.counters["regen"] = {"files_identical": same, "files_different": diff}
        res.sets["regen_different_files"] = set(diffs)
    except Exception as e:  # secondary evidence only
        res.counters["regen"] = {"status": f"error {e!r}"}
    finally:
        shutil.rmtree(base, ignore_errors=True)


def hostile_workload(res, tier):
    from .. import hostile
    hostile.run(res, tier)


def run_shard(spec_, res):
    if spec_.get("part") == "soak":
        from .. import soak
        for s_ in spec_["soak_seeds"]:
            soak.run(res, s_, spec_["tier"], PROPERTY, SOAK_KINDS, spec_["steps"])
        return
    compare_all(res)
    before = res.evaluations
    hostile_workload(res, spec_["tier"])
    n_viol = len(res.violations)
    compare_all(res)  # the registry and the class-level tables after the hostile workload
    for v in res.violations[n_viol:]:
        v["key"] = v["key"].replace("C13:", "C13:after-hostile-loads:", 1)
        v["what"] = "after loading files with unknown module types / out-of-enumeration values: " + v["what"]
    # applications subclass module classes (to add helpers); the metaclass runs again for each subclass and whichever
    # class is registered under the type name afterwards must still carry the specified tables
    from rv.modules import MODULE_CLASSES
    originals = dict(MODULE_CLASSES)
    for mtype, cls in sorted(originals.items()):
        try:
            type(cls.__name__, (cls,), {"rvmon_helper": lambda self: self.name, "__module__": cls.__module__, "__doc__": cls.__doc__})
            res.count("application_subclasses_defined")
        except Exception as e:
            res.violation(f"C13:subclassing-raises:{type(e).__name__}", f"defining a subclass of {cls.__name__} raised {e!r}", {"mtype": mtype})
    n_viol = len(res.violations)
    compare_all(res)
    for v in res.violations[n_viol:]:
        v["key"] = v["key"].replace("C13:", "C13:after-subclassing:", 1)
        v["what"] = "after an application defined a subclass of every module class: " + v["what"]
    MODULE_CLASSES.clear()
    MODULE_CLASSES.update(originals)
    # ... and subclasses that EXTEND a type (one more controller, declared the usual way), defined late in the process, after
    # instances of every type (MetaModules with their per-instance controllers included) have been created and loaded:
    # the built-in classes keep their tables
    import rv.api as api
    from rv.controller import Controller
    for cls in originals.values():
        try:
            cls()
        except Exception:
            pass
    api.m.MetaModule().clone()
    for mtype, cls in sorted(originals.items()):
        try:
            ext = type(cls.__name__ + "Plus", (cls,), {"rvmon_extra_amount": Controller((0, 100), 50), "__module__": cls.__module__, "__doc__": cls.__doc__})
            res.count("extending_subclasses_defined")
            if "rvmon_extra_amount" not in ext.controllers:
                res.count("extending_subclass_without_its_controller")
        except Exception as e:
            res.count("extending_subclass_refused")
            res.hist("extending_subclass_refused_why", type(e).__name__)
    MODULE_CLASSES.clear()
    MODULE_CLASSES.update(originals)
    n_viol = len(res.violations)
    compare_all(res)
    for v in res.violations[n_viol:]:
        v["key"] = v["key"].replace("C13:", "C13:after-extending-subclasses:", 1)
        v["what"] = "after an application defined controller-adding subclasses late in the process: " + v["what"]
    res.count("registry_comparisons", 4)
    # ... application code that merely REFERS to the class-level metadata: a controller / option kept as a class attribute of an
    # application class that is not a module (a UI binding, a registry), private deep copies of the tables that are then edited,
    # a copied controller declaration re-used in a subclass of ANOTHER module type
    import copy
    classes = [c for _t, c in sorted(originals.items())]
    for i, cls in enumerate(classes):
        try:
            ns = {}
            if cls.controllers:
                key = list(cls.controllers)[i % len(cls.controllers)]
                ns["target"] = cls.controllers[key]
                ns["targets"] = dict(cls.controllers)
            if cls.options:
                ns["switch"] = next(iter(cls.options.values()))
            type("Binding" + cls.__name__, (), ns)
            if i % 2 == 0:
                import dataclasses
                dataclasses.make_dataclass("Row" + cls.__name__, [(f"f{j}", object, dataclasses.field(default=v)) for j, v in enumerate(ns.values()) if not isinstance(v, dict)])
            res.count("application_bindings_defined")
            # an application type of its own, declaring controllers with the tuple shorthand (bounds that library controllers use
            # too) and an option that excludes an inherited one; afterwards it narrows ITS OWN ranges in place
            from rv.option import Option
            own = {"__module__": cls.__module__, "__doc__": cls.__doc__}
            for j, bounds in enumerate(((0, 256), (0, 1024), (0, 32768), (-128, 128), (0, 255), (0, 100), (0, 1000), (1, 16), (0, 512), (0, 2000))):
                own[f"rvmon_own_{j}"] = Controller(bounds, bounds[0])
            flags_ = [o for o in cls.options.values() if o.size == 1]
            if flags_:
                top = max(o.byte for o in cls.options.values())
                own["rvmon_own_flag"] = Option(name="rvmon_own_flag", byte=top + 1, bit=0, size=1, default=False, exclusive_of=[flags_[0].name])
            try:
                App = type(cls.__name__ + "App", (cls,), own)
                for j in range(10):
                    vt = App.controllers[f"rvmon_own_{j}"].value_type
                    vt.max, vt.min = vt.min + 1, vt.min
                res.count("application_types_with_own_declarations")
            except Exception as e:
                res.count("application_type_refused")
                res.hist("application_type_refused_why", type(e).__name__)
            table = copy.deepcopy(cls.controllers)
            for c in table.values():
                c.default, c.name, c.number = 12345, "edited", 99
                if hasattr(c.value_type, "max"):
                    try:
                        c.value_type.max = 7
                    except Exception:
                        pass
            otable = copy.deepcopy(cls.options)
            for o in otable.values():
                try:
                    o.default, o.byte, o.bit = 1, 9, 1
                except Exception:
                    pass
            res.count("metadata_deep_copies_edited")
            if cls.controllers:
                # (into a type declared EARLIER than the lender: a copied declaration keeps its place in the definition order,
                #  and a subclass whose new controller sorts before the inherited ones is outside what the library supports)
                one = copy.copy(cls.controllers[list(cls.controllers)[0]])
                earlier = [c for c in classes if c.controllers and max(getattr(x, "_order", 0) for x in c.controllers.values()) < getattr(one, "_order", -1)]
                if earlier:
                    other = earlier[i % len(earlier)]
                    type(other.__name__ + "Borrowing", (other,), {"rvmon_borrowed": one, "__module__": other.__module__, "__doc__": other.__doc__})
                    res.count("copied_declarations_reused")
        except Exception as e:
            res.count("application_metadata_use_refused")
            res.hist("application_metadata_use_refused_why", type(e).__name__)
    MODULE_CLASSES.clear()
    MODULE_CLASSES.update(originals)
    n_viol = len(res.violations)
    compare_all(res)
    for v in res.violations[n_viol:]:
        v["key"] = v["key"].replace("C13:", "C13:after-application-metadata-use:", 1)
        v["what"] = "after application classes referred to / copied the class-level controller and option tables: " + v["what"]
    res.count("registry_comparisons", 5)
    if spec_["tier"] == "thorough":
        regen_diff(res)


def replay(case, res):
    compare_all(res)


# ------------------------------------------------------------------ soak slice (rvmon.soak): long mixed histories on a pool of objects
SOAK_KINDS = ['metadata']


def plan(tier, seed):
    specs = _plan_core(tier, seed)
    k = 2 if tier == "quick" else 8
    for i in range(k):
        specs.append({"tier": tier, "part": "soak", "soak_seeds": [seed * 100003 + 1000 * i + j for j in range(8 if tier == "quick" else 40)],
                      "steps": 150 if tier == "quick" else 300, "seed": seed, "shard": 1000 + i})
    return specs
