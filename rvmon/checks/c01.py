"""C01 - project save/load round trip preserves the whole project."""
from .. import build, env, monitors, snapshot, workload

PROPERTY = "C01"
LEVEL = "exploration"
RULE = ("one case = one generated abstract project description (0-8 modules drawn round-robin from all 42 attachable types, empty "
        "positions, link graphs from short connect/disconnect sequences, patterns/clones/empty pattern slots, every project field at "
        "width boundaries, Unicode names straddling the 32-byte limit) built through a randomised history of public API calls, saved, "
        "loaded and compared field by field through the attribute catalogue (rvmon.snapshot); distinct = distinct serialised files; "
        "non-trivial = the project has at least one module besides the output or one pattern")
ASSUMPTIONS = [
    "trailing empty module positions carry no information (the reader trims them) and are not generated",
    "generated module flags include the type's default bits (the reader ORs the defaults back in as a legacy fix-up)",
    "the loaded object reports the file's VERS as loaded_sunvox_version: sunvox_version before is compared with loaded_sunvox_version after",
    "files declaring a version below 1.9.5.0 get the documented legacy fix-up (module high byte cleared), so their note cells are generated with module <= 255",
    "module names compare equal up to the longest prefix whose UTF-8 form fits 32 bytes; an empty MIDI-out name is the same as none",
    "envelope sustain/loop point indices and point counts stay within the 8-bit legacy mirror fields of the sampler instrument record",
]
REQUIRED_COUNTERS = ["projects", "roundtrips_compared", "save_is_pure_evaluations", "links_consistent_evaluations"]
WORKERS = {"quick": 4, "thorough": 16}


def _plan_core(tier, seed):
    n = 4 if tier == "quick" else 16
    per = 800 if tier == "quick" else 5000
    return [{"tier": tier, "seed": seed, "start": i * per, "count": per, "shard": i} for i in range(n)]


def check_case(res, c, tier):
    res.count("projects")
    S1 = c.snap
    g = c.gate
    desc = c.describe()
    res.count("cases_with_further_api_calls", 1 if c.noise else 0)
    res.count("further_api_calls", c.noise)
    if g:
        path, a, b = g[0]
        res.violation(f"C01:api-did-not-store:{snapshot.field_key(path)}",
                      f"after building through the API {path} is {b}, the description asked for {a}", desc)
        return
    try:
        raw = c.obj.read()
    except Exception as e:
        res.violation(f"C01:save-raises:{workload.exc_key(e)}", f"saving raised {e!r}", desc)
        return
    nontrivial = len(S1["modules"]) > 1 or bool(S1["patterns"])
    res.case(raw, nontrivial=nontrivial)
    try:
        p2 = workload.load(raw)
    except Exception as e:
        res.violation(f"C01:unloadable:{workload.exc_key(e)}", f"the written file does not load: {e!r}", desc)
        return
    S2 = snapshot.snap_project(p2)
    d = snapshot.diff(build.norm(S1, "before"), build.norm(S2, "after"))
    res.count("roundtrips_compared")
    if c.index % 4 == 0 and len(raw) < 300000:
        FRESH.append((raw, build.norm(S1, "before"), desc))
    for path, a, b in d[:4]:
        res.violation(f"C01:diff:{snapshot.field_key(path)}", f"{path}: before save {a}, after load {b}", desc)
    # second round on the same object: it has been saved once; edit it in place through routes that bypass any change
    # notification (names, options, payloads, pattern cells, embedded projects) and save again
    if c.index % 3 == 0:
        from . import c06
        import random as _random
        applied = c06.mutate_live(c.obj, _random.Random(c.seed * 7919 + c.index), 10, prefer=("/payload/project/", "/patterns", "/options/"),
                                  exclude=lambda pth: "/payload/project/" in pth and "/controllers/" in pth)
        if applied:
            res.count("resave_after_edit")
            S_new = build.norm(snapshot.snap_project(c.obj), "before")
            try:
                p3 = workload.load(c.obj.read())
            except Exception as e:
                res.violation(f"C01:resave-raises:{workload.exc_key(e)}", f"saving again after in-place edits {applied[:3]} failed: {e!r}", desc)
                return
            for path, a, b in snapshot.diff(S_new, build.norm(snapshot.snap_project(p3), "after"))[:3]:
                res.violation(f"C01:resave-stale:{snapshot.field_key(path)}", f"after in-place edits {applied[:4]} and a second save, {path}: object {a}, file {b}", desc)
    # names that hit the truncation rule
    for m in S1["modules"]:
        if m is not None and build.utf8_prefix(m["name"]) != m["name"]:
            res.count("names_truncated_by_rule")
        if m is not None:
            res.count("modules_roundtripped")
    res.count("patterns_roundtripped", sum(1 for q in S1["patterns"] if q is not None))
    res.count("empty_module_positions", sum(1 for m in S1["modules"] if m is None))
    res.count("links_roundtripped", sum(len([x for x in m["links"]["in"] if x != -1]) for m in S1["modules"] if m))
    workload.type_histogram(res, S1)


def run_shard(spec_, res):
    if spec_.get("part") == "soak":
        from .. import soak
        for s_ in spec_["soak_seeds"]:
            soak.run(res, s_, spec_["tier"], PROPERTY, SOAK_KINDS, spec_["steps"])
        return
    monitors.install(snapshot_fn=_snap_any)
    tier = spec_["tier"]
    for i in range(spec_["start"], spec_["start"] + spec_["count"]):
        try:
            c = workload.project_case(spec_["seed"], i, tier)
        except Exception as e:
            res.violation(f"C01:build-raises:{workload.exc_key(e)}", f"building case {i} through the API raised {e!r}", {"case_seed": spec_["seed"], "index": i})
            continue
        check_case(res, c, tier)
        if i % 5 == 0:
            workload.saves_into_positioned_streams(res, PROPERTY, c.obj, c.describe())
        if i == spec_["start"] and spec_["shard"] == 0:
            res.sample({"index": i, "modules": [None if m is None else m["type"] for m in c.snap["modules"]],
                        "patterns": [None if q is None else q["kind"] for q in c.snap["patterns"]],
                        "api_history_head": [list(map(str, h)) for h in c.history[:6]]})
    # several threads, each loading / saving / attaching on its own objects, switching at I/O calls (rvmon.sched)
    if spec_["shard"] % 2 == 0:
        import random as _random
        from .. import threadtasks
        threadtasks.run_loads(res, PROPERTY, _random.Random(spec_["seed"] * 31 + spec_["shard"]), spec_["seed"], tier, 8 if tier == "quick" else 60)
    threadtasks_ = __import__("rvmon.threadtasks", fromlist=["x"])
    threadtasks_.free_running_saves(res, PROPERTY, spec_["seed"], spec_["shard"], tier)
    # the same files once more, loaded by an interpreter that has done nothing else
    workload.fresh_process_reload(res, PROPERTY, FRESH)
    del FRESH[:]
    for name, msg in monitors.take_failures():
        res.violation(f"C01:ambient:{name}", msg, {"monitor": name})
    res.count("save_is_pure_evaluations", monitors.COUNTERS.get("save_is_pure.evaluations", 0))
    res.count("links_consistent_evaluations", monitors.COUNTERS.get("links_consistent.evaluations", 0))
    res.count("index_coherent_evaluations", monitors.COUNTERS.get("index_coherent.evaluations", 0))


FRESH = []


def _snap_any(obj):
    from rv.project import Project
    if isinstance(obj, Project):
        return snapshot.snap_project(obj)
    return snapshot.snap_synth(obj)


def replay(case, res):
    monitors.install(snapshot_fn=_snap_any)
    c = workload.project_case(case["case_seed"], case["index"], case.get("tier", "quick"))
    check_case(res, c, case.get("tier", "quick"))


# ------------------------------------------------------------------ soak slice (rvmon.soak): long mixed histories on a pool of objects
SOAK_KINDS = ['roundtrip']


def plan(tier, seed):
    specs = _plan_core(tier, seed)
    k = 2 if tier == "quick" else 8
    for i in range(k):
        specs.append({"tier": tier, "part": "soak", "soak_seeds": [seed * 100003 + 1000 * i + j for j in range(8 if tier == "quick" else 40)],
                      "steps": 150 if tier == "quick" else 300, "seed": seed, "shard": 1000 + i})
    return specs
