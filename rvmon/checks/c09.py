"""C09 - controller assignment enforces declared domains; defaults match the spec."""
import enum
import random

from .. import env, spec

PROPERTY = "C09"
LEVEL = "exploration"
RULE = ("one case = one (module type, controller, mode strict|lenient, path setattr|constructor, value) "
        "assignment or one (type, controller) default observation on a real instance; distinct = distinct tuples; "
        "non-trivial = the value differs from the controller's default or is a rejection probe")
EXHAUSTIVE_AXIS = "(module type, controller, boundary class min-1|min|min+1|interior|max-1|max|max+1|every enum member by value/member/name|both booleans|invalid names) in both modes and both paths"
ASSUMPTIONS = [
    "unit-dependent ranges only warn (they are not 'fixed ranges'): in-range read-back is judged under every unit, out-of-range acceptance is observed, not judged",
    "lenient mode: only the clauses the statement makes unconditionally (defaults, exact read-back of in-range values) are judged; what happens to out-of-range values there is recorded as an observation",
    "invalid enum values / names must raise some exception and leave the previous value (the statement names the library error only for fixed ranges)",
    "constructor keywords that collide with common module attributes (finetune, relative_note, scale) also set those; only the controller is judged here",
]
REQUIRED_COUNTERS = ["defaults_checked", "rejections_observed", "inrange_readbacks", "hostile_loads"]


def plan(tier, seed):
    types = sorted(spec.load())
    n = 4 if tier == "quick" else 16
    return [{"tier": tier, "types": types[i::n], "seed": env.shard_seed(i), "shard": i} for i in range(n)]


ODD_NAMES = ["", "Pad {L}", "Bus {0}", "{", "}", "100%", "%s %d", "{name!r}", "a\\b", "plain", "{0.__class__}"]
NAMES = [0]


def _val(x):
    return x.value if isinstance(x, enum.Enum) else x


def _probe_values(sc, unit, rng, tier):
    """(value, in_domain?) list for a ranged controller."""
    lo, hi = sc.bounds(unit)
    vals = {lo - 1: False, lo: True, hi: True, hi + 1: False, lo - 1000: False, hi + 1000: False,
            lo - 2 ** 31: False, hi + 2 ** 31: False}
    if hi - lo >= 2:
        vals[lo + 1] = True
        vals[hi - 1] = True
        vals[(lo + hi) // 2] = True
        if tier == "thorough" and hi - lo <= 1100:
            for v in range(lo, hi + 1):          # small ranges: every value (thorough)
                vals[v] = True
        for _ in range(3 if tier == "quick" else 40):
            vals[rng.randint(lo, hi)] = True
    if lo <= 0 <= hi:
        vals[0] = True
    return sorted(vals.items())


def run_type(res, T, rng, tier):
    import rv.errors as errors
    from rv.errors import ControllerValueError, override_raise_controller_value_errors
    from rv.modules import MODULE_CLASSES

    t = spec.load()[T]
    cls = MODULE_CLASSES[t.mtype]

    # 1. defaults on fresh instances (twice: a second construction must agree as well)
    for rep in range(2):
        try:
            inst = cls()
        except Exception as e:
            res.case((T, "construct", rep))
            res.violation(f"C09:construct-raises:{T}", f"{T}() with all defaults raised {e!r}", {"type": T})
            return
        for sc in t.controllers:
            res.case((T, sc.name, "default", rep), nontrivial=(rep == 0))
            res.count("defaults_checked")
            got = getattr(inst, sc.name)
            want = sc.default_value()
            ok = _val(got) == want
            if sc.kind == "enum":
                ok = ok and isinstance(got, getattr(cls, sc.enum))
            if sc.kind == "bool":
                ok = ok and isinstance(got, bool)
            if not ok:
                res.violation(f"C09:default:{T}.{sc.name}", f"fresh {T}().{sc.name} == {got!r}, spec default {want!r}",
                              {"type": T, "controller": sc.name, "got": repr(got), "want": want})

    raw_of = {}

    def assign(mode, path, name, value, extra_kw=None):
        """Returns (exception or None, module-or-None)."""
        try:
            if path in ("setattr", "set_raw"):
                m = cls(**(extra_kw or {}))
                # the module's display name is free text (braces, percent signs ...) and has no bearing on validation
                NAMES[0] += 1
                m.name = ODD_NAMES[NAMES[0] % len(ODD_NAMES)]
                prev = getattr(m, name)
                try:
                    if path == "setattr":
                        setattr(m, name, value)
                    else:
                        # the stored-value entry point (what readers and MIDI-style automation use): value given in the
                        # stored encoding of specs/fileformat.yaml
                        m.set_raw(name, raw_of[name](value))
                except Exception as e:
                    return e, m, prev
                return None, m, prev
            kw = dict(extra_kw or {})
            kw[name] = value
            if hasattr(cls, "drawn_waveform") or T in ("Generator", "AnalogGenerator"):
                # type-specific constructor keywords next to controller keywords: each does its own job
                NAMES[0] += 1
                if NAMES[0] % 2:
                    kw["samples"] = [(i * 7) % 100 for i in range(32)]
            try:
                m = cls(**kw)
            except Exception as e:
                return e, None, None
            return None, m, None
        finally:
            pass

    for strict in (True, False):
        mode = "strict" if strict else "lenient"
        for path in ("setattr", "constructor", "set_raw"):
            for sc in t.controllers:
                K = f"{T}.{sc.name}"
                if path == "set_raw":
                    if sc.kind not in ("range", "compact", "no_offset"):
                        continue
                    lo_ = sc.min
                    raw_of[sc.name] = (lambda v, lo_=lo_, k=sc.kind: v if k == "no_offset" or lo_ >= 0 else v - lo_)
                units = list(sc.ranges) if sc.kind == "dependent" else [None]
                for unit in units:
                    extra = {}
                    if unit is not None:
                        extra[sc.depends_on] = getattr(cls, sc.enum)[unit]
                    probes = []
                    if sc.kind in ("range", "compact", "no_offset", "dependent"):
                        probes = [(v, ok, "int") for v, ok in _probe_values(sc, unit, rng, tier)]
                    elif sc.kind == "bool":
                        probes = [(True, True, "bool"), (False, True, "bool"), (1, True, "int"), (0, True, "int")]
                    elif sc.kind == "enum":
                        ecls = getattr(cls, sc.enum)
                        for n, v in sc.members:
                            probes.append((v, True, "by-value"))
                            probes.append((ecls[n], True, "by-member"))
                            probes.append((n, True, "by-name"))
                        used = {v for _n, v in sc.members}
                        probes.append((max(used) + 1, False, "bad-value"))
                        probes.append((-1, False, "bad-value"))
                        probes.append(("no_such_member_", False, "bad-name"))
                        probes.append((sc.members[0][0].upper() + "X", False, "bad-name"))
                    for value, in_dom, how in probes:
                        res.case((T, sc.name, unit, mode, path, repr(value)),
                                 nontrivial=True)
                        res.hist("assignments_by", f"{mode}/{path}")
                        if strict:
                            exc, m, prev = assign(mode, path, sc.name, value, extra)
                        else:
                            with override_raise_controller_value_errors(False):
                                exc, m, prev = assign(mode, path, sc.name, value, extra)
                        case = {"type": T, "controller": sc.name, "unit": unit, "mode": mode, "path": path,
                                "value": repr(value), "how": how}
                        if in_dom:
                            want = value
                            if how == "by-name":
                                want = dict(sc.members)[value]
                            res.count("inrange_readbacks")
                            if res.counters["inrange_readbacks"] % 3001 == 1 and exc is None:
                                res.sample(dict(case, outcome=f"reads back {getattr(m, sc.name)!r}"))
                            if exc is not None:
                                res.violation(f"C09:inrange-raised:{K}:{path}", f"{K} = {value!r} ({mode}, {path}) raised {exc!r}", case)
                                continue
                            got = getattr(m, sc.name)
                            ok = _val(got) == _val(want)
                            if sc.kind == "enum":
                                ok = ok and isinstance(got, getattr(cls, sc.enum))
                            if sc.kind == "bool":
                                ok = ok and isinstance(got, bool)
                            if not ok:
                                res.violation(f"C09:readback:{K}:{path}", f"{K} = {value!r} ({mode}, {path}) reads back {got!r}", case)
                            continue
                        # out of domain
                        if sc.kind == "dependent":
                            res.count("warnonly_out_of_range_observed")
                            res.hist("warnonly_outcome", "raised" if exc else "accepted")
                            continue
                        if not strict:
                            res.hist("lenient_out_of_domain_outcome",
                                     "raised:" + type(exc).__name__ if exc else "accepted")
                            if exc is not None and isinstance(exc, ControllerValueError):
                                res.violation(f"C09:lenient-raised:{K}:{path}",
                                              f"{K} = {value!r} raised ControllerValueError although range errors are downgraded", case)
                            continue
                        res.count("rejections_observed")
                        if exc is None:
                            res.violation(f"C09:accepted:{sc.kind}:{K}:{path}", f"{K} = {value!r} (strict, {path}) was accepted; reads {getattr(m, sc.name)!r}", case)
                            continue
                        if sc.kind != "enum" and not isinstance(exc, ControllerValueError):
                            res.violation(f"C09:wrong-error:{K}:{path}", f"{K} = {value!r} raised {exc!r}, expected ControllerValueError", case)
                        if path in ("setattr", "set_raw"):
                            now = getattr(m, sc.name)
                            if _val(now) != _val(prev) or type(now) is not type(prev):
                                res.violation(f"C09:prev-lost:{K}", f"rejected {K} = {value!r} left {now!r}, previous was {prev!r}", case)
                        res.count("rejections_confirmed")
                        if res.counters["rejections_confirmed"] % 400 == 1:
                            res.sample(dict(case, outcome=f"rejected with {type(exc).__name__}", previous_value_kept=True))
                if errors.RAISE_CONTROLLER_VALUE_ERRORS is not True:
                    res.violation("C09:strict-flag-leaked", "strictness flag not restored after lenient block", {"type": T})


def held_out_of_range(res, T, t, cls):
    """A controller that HOLDS an out-of-range value (kept by a lenient assignment, as a lenient load keeps it): assigning that
    same value again in strict mode is an out-of-range assignment like any other."""
    from rv.errors import ControllerValueError, override_raise_controller_value_errors
    for sc in t.controllers:
        if sc.kind not in ("range", "compact", "no_offset"):
            continue
        for v in (sc.max + 1, sc.min - 1):
            m = cls()
            try:
                with override_raise_controller_value_errors(False):
                    setattr(m, sc.name, v)
            except (ControllerValueError, ValueError):
                continue
            if getattr(m, sc.name) != v:
                res.count("lenient_out_of_range_not_kept")
                continue
            res.case((T, sc.name, "held-oor", v))
            res.count("held_out_of_range_reassignments")
            case = {"type": T, "controller": sc.name, "value": v, "path": "reassign-held"}
            try:
                setattr(m, sc.name, getattr(m, sc.name))
            except ControllerValueError:
                res.count("rejections_confirmed")
                if getattr(m, sc.name) != v:
                    res.violation(f"C09:prev-lost:{T}.{sc.name}", f"rejected re-assignment of the held value {v} left {getattr(m, sc.name)!r}", case)
            except Exception as e:
                res.violation(f"C09:wrong-error:{T}.{sc.name}:reassign-held", f"{T}.{sc.name} = {v} (held, strict) raised {e!r}", case)
            else:
                res.violation(f"C09:accepted:{sc.kind}:{T}.{sc.name}:reassign-held",
                              f"{T}.{sc.name} holds the out-of-range value {v} (kept by a lenient assignment); assigning {v} again in strict mode was accepted", case)


def enum_through_metamodule(res, T, t, cls):
    """An enumerated controller exposed through a MetaModule's user-defined controller keeps its three spellings
    (value, member, member name) - on a constructed MetaModule and on one that went through a file."""
    import rv.api as api
    for idx, sc in enumerate(t.controllers):
        if sc.kind != "enum" or T in ("MetaModule", "Output"):
            continue
        emb = api.Project()
        target = emb.new_module(cls)
        mm = api.m.MetaModule(project=emb)
        mm.user_defined_controllers = 1
        mm.mappings.values[0] = mm.Mapping((1, idx))
        mm.update_user_defined_controllers()
        ecls = getattr(cls, sc.enum)
        for where, obj in (("constructed", mm), ("loaded", None)):
            if obj is None:
                try:
                    obj = mm.clone()
                except Exception as e:
                    res.violation(f"C09:metamodule-proxy-unloadable:{T}.{sc.name}", f"MetaModule exposing {T}.{sc.name} does not save/load: {e!r}", {"type": T, "controller": sc.name})
                    continue
            for n, v in sc.members:
                for how, value in (("by-value", v), ("by-member", ecls[n]), ("by-name", n)):
                    res.case((T, sc.name, "mm-proxy", where, how, n))
                    res.count("metamodule_enum_proxy_assignments")
                    case = {"type": T, "controller": sc.name, "where": where, "how": how, "member": n}
                    try:
                        obj.user_defined_1 = value
                    except Exception as e:
                        res.violation(f"C09:inrange-raised:{T}.{sc.name}:metamodule-proxy", f"user-defined controller exposing {T}.{sc.name} ({where}): assigning {value!r} ({how}) raised {e!r}", case)
                        continue
                    got = obj.user_defined_1
                    if _val(got) != v:
                        res.violation(f"C09:readback:{T}.{sc.name}:metamodule-proxy", f"user-defined controller exposing {T}.{sc.name} ({where}): {value!r} ({how}) reads back {got!r}", case)


class _IntLike(int):
    """An int subclass (as IntEnum members, numpy-free 'typed ints', bools are): a number is a number."""


def int_subclass_values(res, T, t, cls):
    """In-range values handed over as int SUBCLASS instances (an application IntEnum member, a plain int subclass, a bool where
    0 / 1 are in range): accepted and read back as that number, by attribute and by constructor keyword."""
    import enum as _enum
    for sc in t.controllers:
        if sc.kind not in ("range", "compact", "no_offset") or not sc.attached:
            continue
        picks = sorted({sc.min, sc.max, (sc.min + sc.max) // 2})
        App = _enum.IntEnum("App", {f"V{i}": v for i, v in enumerate(picks)})
        values = [(_IntLike(v), v, "int-subclass") for v in picks] + [(m_, int(m_), "IntEnum") for m_ in App]
        if sc.min <= 1 <= sc.max:
            values.append((True, 1, "bool"))
        for value, want, how in values:
            for path in ("setattr", "constructor"):
                res.case((T, sc.name, "int-subclass", how, want, path))
                res.count("int_subclass_assignments")
                case = {"type": T, "controller": sc.name, "value": want, "how": how, "path": path}
                try:
                    if path == "setattr":
                        m = cls()
                        setattr(m, sc.name, value)
                    else:
                        m = cls(**{sc.name: value})
                except Exception as e:
                    res.violation(f"C09:inrange-raised:{T}.{sc.name}:{path}", f"{T}.{sc.name} = {value!r} ({how}, in range {sc.min}..{sc.max}) raised {e!r}", case)
                    continue
                if _val(getattr(m, sc.name)) != want and getattr(m, sc.name) != want:
                    res.violation(f"C09:readback:{T}.{sc.name}:{path}", f"{T}.{sc.name} = {value!r} ({how}) reads back {getattr(m, sc.name)!r}", case)


def real_values_and_handlers(res, T, t, cls):
    """(1) Numbers that are not integers and lie OUTSIDE the range, also by less than one (1024.5 for 0..1024), as float,
    Fraction, Decimal: refused like any other out-of-range value, by attribute and by constructor keyword.
    (2) An application's change handler that corrects the value it is told about (caps it, snaps it to a grid) by assigning
    the SAME controller again: the inner assignment is an assignment like any other - applied when in range, refused when not."""
    import decimal
    import fractions
    from rv.errors import ControllerValueError
    for sc in t.controllers:
        if sc.kind not in ("range", "compact", "no_offset") or not sc.attached:
            continue
        for value, how in ((sc.max + 0.5, "float"), (sc.max + 0.001, "float"), (sc.min - 0.5, "float"), (fractions.Fraction(2 * sc.max + 1, 2), "Fraction"),
                           (decimal.Decimal(sc.max) + decimal.Decimal("0.25"), "Decimal"), (fractions.Fraction(2 * sc.min - 1, 2), "Fraction")):
            for path in ("setattr", "constructor"):
                res.case((T, sc.name, "real-out-of-range", how, str(value), path))
                res.count("real_out_of_range_assignments")
                case = {"type": T, "controller": sc.name, "value": str(value), "how": how, "path": path}
                try:
                    if path == "setattr":
                        m = cls()
                        setattr(m, sc.name, value)
                    else:
                        m = cls(**{sc.name: value})
                except Exception:
                    continue                      # refused (ControllerValueError, or the type itself is refused)
                got = getattr(m, sc.name)
                res.violation(f"C09:accepted-out-of-range:{T}.{sc.name}:{path}:{how}", f"{T}.{sc.name} = {value} ({how}; range {sc.min}..{sc.max}) is accepted and reads back {got!r}", case)
        if sc.max - sc.min < 8:
            continue
        cap = sc.min + (sc.max - sc.min) // 2
        for style in ("instance-handler", "subclass-handler"):
            calls = []

            def handler(owner, value, _name=sc.name, _cap=cap):
                calls.append(value)
                if value > _cap:
                    setattr(owner, _name, _cap)
            calls_owner = [None]
            if style == "instance-handler":
                m = cls()
                setattr(m, f"on_{sc.name}_changed", lambda value, down=False, up=False, m=m: handler(m, value))
            else:
                sub_cls = type(cls.__name__, (cls,), {f"on_{sc.name}_changed": (lambda self, value, down=False, up=False: handler(self, value)),
                                                      "__module__": cls.__module__, "__doc__": cls.__doc__})
                m = sub_cls()
                del calls[:]
            calls_owner[0] = m
            case = {"type": T, "controller": sc.name, "family": "capping-handler", "style": style, "cap": cap}
            res.case((T, sc.name, "capping-handler", style))
            res.count("capping_handler_cases")
            try:
                setattr(m, sc.name, sc.max)
                got = getattr(m, sc.name)
            except Exception as e:
                res.violation(f"C09:inrange-raised:{T}.{sc.name}:handler", f"{T}.{sc.name} = {sc.max} with a change handler that caps the value at {cap} raised {e!r}", case)
                continue
            if not calls:
                res.count("capping_handler_never_called")
                continue
            if got != cap:
                res.violation(f"C09:readback:{T}.{sc.name}:handler", f"{T}.{sc.name} = {sc.max}; the change handler assigned {cap} (in range) to the same controller; it reads {got!r}", case)
                continue
            # the same handler, now correcting to a value that is NOT in range: refused, as anywhere
            refused = []

            def bad_handler(value, down=False, up=False, _name=sc.name, _hi=sc.max):
                if value == _hi:
                    try:
                        setattr(calls_owner[0], _name, _hi + 7)
                        refused.append(False)
                    except ControllerValueError:
                        refused.append(True)
            m2 = cls()
            calls_owner[0] = m2
            setattr(m2, f"on_{sc.name}_changed", bad_handler)
            try:
                setattr(m2, sc.name, sc.max)
            except Exception:
                pass
            res.count("out_of_range_assignments_inside_handlers")
            if refused and not refused[0]:
                res.violation(f"C09:accepted-out-of-range:{T}.{sc.name}:inside-handler", f"inside its own change handler, {T}.{sc.name} = {sc.max + 7} (range {sc.min}..{sc.max}) is accepted "
                                                                                       f"(reads {getattr(m2, sc.name)!r})", case)
    from rv.modules import MODULE_CLASSES
    MODULE_CLASSES[t.mtype] = cls


def sampler_record_controllers(res):
    """The Sampler's controllers that live in its instrument record (vibrato type / attack / depth / rate, volume fade-out) are
    controllers like the others: assigned by attribute or constructor keyword they read back, out of range they are refused."""
    import rv.api as api
    from rv.errors import ControllerValueError
    table = [("vibrato_attack", 0, 255), ("vibrato_depth", 0, 255), ("vibrato_rate", 0, 63), ("volume_fadeout", 0, 8192)]
    for name, lo, hi in table:
        for v in sorted({lo, hi, (lo + hi) // 2, lo + 17, hi - 1}):
            for path in ("setattr", "constructor", "constructor-with-others"):
                res.case(("sampler-record", name, v, path))
                res.count("sampler_record_assignments")
                case = {"type": "Sampler", "controller": name, "value": v, "path": path}
                try:
                    if path == "setattr":
                        m = api.m.Sampler()
                        setattr(m, name, v)
                    elif path == "constructor":
                        m = api.m.Sampler(**{name: v})
                    else:
                        m = api.m.Sampler(volume=100, **{name: v}, polyphony=4, name="kit")
                except Exception as e:
                    res.violation(f"C09:inrange-raised:Sampler.{name}:{path}", f"Sampler.{name} = {v} (in range {lo}..{hi}) raised {e!r}", case)
                    continue
                if getattr(m, name) != v:
                    res.violation(f"C09:readback:Sampler.{name}:{path}", f"Sampler.{name} = {v} ({path}) reads back {getattr(m, name)!r}", case)
        for v in (lo - 1, hi + 1, hi + 1000):
            for path in ("setattr", "constructor"):
                res.count("sampler_record_out_of_range")
                try:
                    if path == "setattr":
                        setattr(api.m.Sampler(), name, v)
                    else:
                        api.m.Sampler(**{name: v})
                except ControllerValueError:
                    continue
                except Exception as e:
                    res.violation(f"C09:wrong-error:Sampler.{name}", f"Sampler.{name} = {v} raised {e!r}", {"controller": name, "value": v})
                    continue
                res.violation(f"C09:accepted-out-of-range:Sampler.{name}:{path}", f"Sampler.{name} = {v} (range {lo}..{hi}) is accepted", {"controller": name, "value": v, "path": path})
    VT = api.m.Sampler.VibratoType
    for member in VT:
        for path in ("setattr", "constructor", "by-name"):
            m = api.m.Sampler(vibrato_type=member) if path == "constructor" else api.m.Sampler()
            if path == "setattr":
                m.vibrato_type = member
            elif path == "by-name":
                m.vibrato_type = member.name
            res.count("sampler_record_assignments")
            if m.vibrato_type != member:
                res.violation(f"C09:readback:Sampler.vibrato_type:{path}", f"Sampler.vibrato_type = {member!r} ({path}) reads back {m.vibrato_type!r}", {"path": path})


def foreign_enum_members(res, T, t, cls):
    """An enum controller handed a member of ANOTHER enum (integer-valued, e.g. the waveform enum of a different module type, or
    an application's own IntEnum): it is a number like any int subclass - the member with that NUMBER is meant, whatever the
    other enum calls it; a number that is not in the enumeration is refused."""
    import enum as _enum
    for sc in t.controllers:
        if sc.kind != "enum" or not sc.attached:
            continue
        target = getattr(cls, sc.enum)
        members = list(target)
        if len(members) < 2:
            continue
        # an application enum that uses the target's NAMES in another order (so name and number disagree)
        rotated = _enum.IntEnum("Rotated", {m_.name: members[(k + 1) % len(members)].value for k, m_ in enumerate(members)})
        for other in rotated:
            for path in ("setattr", "constructor"):
                res.case((T, sc.name, "foreign-enum", other.name, path))
                res.count("foreign_enum_member_assignments")
                case = {"type": T, "controller": sc.name, "given": f"{other.name}={int(other)}", "path": path}
                try:
                    m = cls(**{sc.name: other}) if path == "constructor" else cls()
                    if path == "setattr":
                        setattr(m, sc.name, other)
                except Exception:
                    res.count("foreign_enum_member_refused")
                    continue
                got = getattr(m, sc.name)
                if _val(got) != int(other):
                    res.violation(f"C09:readback:{T}.{sc.name}:foreign-enum", f"{T}.{sc.name} = <{other.name}: {int(other)}> of another IntEnum reads back {got!r}; the member numbered {int(other)} "
                                                                            f"is {target(int(other))!r}", case)


def embedded_assignments(res, T, t, cls):
    """A module that sits in the project of a constructed MetaModule which exposes one of its controllers: assigning that very
    controller on the embedded module (in range) reads back exactly - whatever travels up and down the mapping."""
    import rv.api as api
    from rv.errors import ControllerValueError
    for idx, sc in enumerate(t.controllers):
        if sc.kind not in ("range", "compact") or not sc.attached or T in ("MetaModule", "Output"):
            continue
        emb = api.Project()
        mod = emb.new_module(cls)
        mm = api.m.MetaModule(project=emb)
        mm.user_defined_controllers = 1
        mm.mappings.values[0] = mm.Mapping((mod.index, idx))
        mm.update_user_defined_controllers()
        for v in sorted({sc.min, sc.max, (sc.min + sc.max) // 2, min(sc.max, sc.min + 10)}):
            res.case((T, sc.name, "embedded-assignment", v))
            res.count("embedded_assignments")
            case = {"type": T, "controller": sc.name, "value": v, "path": "embedded-in-constructed-metamodule"}
            try:
                setattr(mod, sc.name, v)
            except ControllerValueError as e:
                res.violation(f"C09:inrange-raised:{T}.{sc.name}:embedded", f"{T}.{sc.name} = {v} on a module embedded in a MetaModule that exposes it raised {e!r}", case)
                break
            except Exception:
                res.count("embedded_assignment_other_exception")
                break
            if getattr(mod, sc.name) != v:
                res.violation(f"C09:readback:{T}.{sc.name}:embedded", f"{T}.{sc.name} = {v} on a module embedded in a MetaModule that exposes it reads back {getattr(mod, sc.name)!r}", case)
                break


def failed_loads(res):
    """Loads that fail (missing path, unknown module type, truncated file) precede the strict-mode probes."""
    import os
    from io import BytesIO
    import rv.api as api
    import rv.errors as errors
    raw = api.Synth(api.m.Amplifier()).read()
    bad = [lambda: api.read_sunvox_file("/nonexistent/rvmon-no-such-file.sunvox"),
           lambda: api.read_sunvox_file(BytesIO(raw.replace(b"Amplifier\0", b"Amplifiex\0"))),
           lambda: api.read_sunvox_file(BytesIO(raw[:len(raw) // 2])),
           lambda: api.m.Amplifier().clone()]
    for i, f in enumerate(bad):
        try:
            f()
        except Exception:
            pass
        res.count("failed_or_lenient_loads_before_probes")
        res.case(("load-before-probes", i))
        if errors.RAISE_CONTROLLER_VALUE_ERRORS is not True:
            res.violation("C09:strict-mode-lost-after-load", f"after load attempt #{i} the library is no longer in strict mode", {"load": i})
            errors.RAISE_CONTROLLER_VALUE_ERRORS = True


def keyword_first(res, types):
    """The very FIRST instance of a type in this process is built with a keyword for every controller (legal non-default
    values); what is remembered of that must not become anybody's default: the next keyword-less instance reports the
    specification's defaults.  Runs before anything else has constructed a module."""
    from rv.modules import MODULE_CLASSES
    sp = spec.load()
    for T in types:
        if T == "Output":
            continue
        t = sp[T]
        cls = MODULE_CLASSES[t.mtype]
        kw = {}
        for sc in t.controllers:
            if sc.kind in ("range", "compact", "no_offset") and sc.attached:
                kw[sc.name] = sc.max if sc.default_value() != sc.max else sc.min
            elif sc.kind == "bool":
                kw[sc.name] = not sc.default_value()
            elif sc.kind == "enum":
                others = [v for _n, v in sc.members if v != sc.default_value()]
                if others:
                    kw[sc.name] = others[-1]
        if T == "MetaModule":
            kw = {k: v for k, v in kw.items() if not k.startswith("user_defined")}
        try:
            first = cls(**kw)
        except Exception as e:
            res.violation(f"C09:construct-raises:{T}", f"{T}(**every controller at a legal non-default value) raised {e!r}", {"type": T})
            continue
        res.count("keyword_first_constructions")
        fresh = cls()
        for sc in t.controllers:
            if T == "MetaModule" and sc.name.startswith("user_defined"):
                continue
            res.case((T, sc.name, "default-after-keyword-first"))
            got, want = _val(getattr(fresh, sc.name)), sc.default_value()
            if got != want:
                res.violation(f"C09:default:{T}.{sc.name}", f"{T}().{sc.name} == {got!r} after the first {T} of the process was built with {sc.name}={kw.get(sc.name)!r}; spec default {want!r}",
                              {"type": T, "controller": sc.name, "path": "keyword-first"})
            if sc.name in kw and _val(getattr(first, sc.name)) != kw[sc.name]:
                res.violation(f"C09:readback:{T}.{sc.name}:constructor", f"{T}({sc.name}={kw[sc.name]!r}) reads back {getattr(first, sc.name)!r}", {"type": T, "controller": sc.name})


def run_shard(spec_, res):
    rng = random.Random(spec_["seed"])
    keyword_first(res, spec_["types"])
    failed_loads(res)
    # other instances are used (and abused) first: odd files, MetaModules mapping onto every controller kind, in-place
    # payload edits, failed constructions.  Defaults and validation of FRESH modules are probed afterwards.
    from .. import hostile
    hostile.run(res, "quick", seed=spec_["shard"])
    from rv.modules import MODULE_CLASSES
    # an application module type of its own, whose controllers are declared with bounds the library's controllers use too; the
    # application then WIDENS ITS OWN ranges in place.  The library's controllers keep refusing what is outside THEIR ranges.
    try:
        from rv import controller as _rvc
        from rv.modules import Behavior as _B, Module as _Module
        _orig = dict(MODULE_CLASSES)
        ns = {"name": "AppType", "mtype": "RvmonAppType", "mgroup": "Effect", "flags": 0x51, "default_flags": 0x51, "behaviors": {_B.receives_audio, _B.sends_audio}}
        bounds = sorted({(c.min, c.max) for t_ in spec.load().values() for c in t_.controllers if c.kind in ("range", "compact", "no_offset")})
        for j, b in enumerate(bounds):
            ns[f"own_{j}"] = _rvc.Controller(b, b[0])
        AppType = type("AppType", (_Module,), ns)
        for j in range(len(bounds)):
            vt = AppType.controllers[f"own_{j}"].value_type
            vt.max, vt.min = 10 ** 7, -10 ** 7
        MODULE_CLASSES.clear()
        MODULE_CLASSES.update(_orig)
        res.count("application_ranges_widened_in_place", len(bounds))
    except Exception as e:
        res.count("application_type_refused")
    for T in spec_["types"]:
        run_type(res, T, rng, spec_["tier"])
        held_out_of_range(res, T, spec.load()[T], MODULE_CLASSES[spec.load()[T].mtype])
        enum_through_metamodule(res, T, spec.load()[T], MODULE_CLASSES[spec.load()[T].mtype])
        int_subclass_values(res, T, spec.load()[T], MODULE_CLASSES[spec.load()[T].mtype])
        embedded_assignments(res, T, spec.load()[T], MODULE_CLASSES[spec.load()[T].mtype])
        real_values_and_handlers(res, T, spec.load()[T], MODULE_CLASSES[spec.load()[T].mtype])
        foreign_enum_members(res, T, spec.load()[T], MODULE_CLASSES[spec.load()[T].mtype])
        if T == "Sampler":
            sampler_record_controllers(res)
        res.count("types_visited")
    # the labelled aliases of a MetaModule's exposed controllers are assignment paths to controllers as well
    from .. import aliasprobe
    aliasprobe.run(res, PROPERTY, random.Random(spec_["seed"] + 5), 40 if spec_["tier"] == "quick" else 400, domain=True)
    # several threads without any load among them (fan-out, MetaModule mirroring, construction, saving): out-of-range
    # assignments made by a thread on its own modules are refused as they are when it runs alone (rvmon.sched)
    from .. import threadtasks
    threadtasks.run_quiet(res, PROPERTY, random.Random(spec_["seed"] + 6), 10 if spec_["tier"] == "quick" else 100)
    res.exhaustive = True


def finalize(merged, tier):
    n_ctl = sum(len(t.controllers) for t in spec.load().values())
    if merged["counters"].get("defaults_checked", 0) < 2 * n_ctl:      # (shards replayed with debug logging count again)
        merged["inconclusive"].append(f"defaults checked {merged["counters"].get("defaults_checked")} < 2*{n_ctl}")


def replay(case, res):
    run_type(res, case["type"], random.Random(0), "quick")
