"""C02 - every module type survives a .sunsynth round trip and Module.clone()."""
from io import BytesIO

from .. import build, env, iffparse, monitors, snapshot, spec, workload

PROPERTY = "C02"
LEVEL = "exploration"
RULE = ("one case = one generated module of one of the 42 non-Output types (controllers at boundary-biased in-range values under a random "
        "unit, options, MIDI bindings, common settings, payload arrays within the element type) built through a randomised API history and "
        "pushed through three contexts: Synth(module) saved and loaded, Module.clone(), and the module inside a saved and loaded project; "
        "each result is compared with the original through the attribute catalogue; distinct = distinct .sunsynth files; non-trivial = all")
EXHAUSTIVE_AXIS = "42 module types x 3 serialisation contexts (every type visited in every shard round)"
ASSUMPTIONS = [
    "the .sunsynth / clone() context does not store x, y, layer, visualisation or links (documented); those are compared in the project context only",
    "payload arrays are generated within the element type's width; drawn waveforms within signed 8 bit; FMX tables within float32",
]
REQUIRED_COUNTERS = ["modules", "synth_roundtrips", "clones", "project_roundtrips", "empty_synth_refusals"]
WORKERS = {"quick": 4, "thorough": 16}


def plan(tier, seed):
    n = 4 if tier == "quick" else 16
    rounds = 30 if tier == "quick" else 300
    return [{"tier": tier, "seed": seed, "shard": i, "n_shards": n, "rounds": rounds} for i in range(n)]


FRESH = []


def compare(res, key, where, a, b, desc):
    d = snapshot.diff(a, b)
    for path, x, y in d[:3]:
        res.violation(f"C02:{where}:{key}:{snapshot.field_key(path)}", f"{key} {where} {path}: original {x}, result {y}", desc)
    return not d


def check_module(res, c, T):
    import rv.api as api
    m = c.obj
    desc = c.describe()
    res.count("modules")
    res.hist("module_types", T)
    if res.evaluations % 401 == 0:
        res.sample({"type": T, "index": c.index, "controllers": dict(list(c.ad["controllers"].items())[:5]), "options": dict(list(c.ad["options"].items())[:3]),
                    "contexts": ["synth", "clone", "project", "edit-in-place-and-save-again"]})
    g = build.gate_diff(build.expected_module(c.ad, "project"), snapshot.snap_module(m, "project"))
    g = [x for x in g if not x[0].startswith("/links")]
    if g:
        path, a, b = g[0]
        res.violation(f"C02:api-did-not-store:{T}:{snapshot.field_key(path)}", f"{T}: after building {path} is {b}, asked for {a}", desc)
        return
    S_syn = build.norm_module(snapshot.snap_module(m, "synth"), "before")
    # (a) stand-alone synth
    syn = api.Synth(m)
    try:
        raw = syn.read()
    except Exception as e:
        res.violation(f"C02:save-raises:{T}:{workload.exc_key(e)}", f"Synth({T}).read() raised {e!r}", desc)
        return
    res.case(raw)
    if c.index % 4 == 0 and len(raw) < 300000:
        FRESH.append((raw, build.norm(snapshot.snap_synth(syn), "before"), desc))
    try:
        s2 = workload.load(raw)
    except Exception as e:
        res.violation(f"C02:unloadable:{T}:{workload.exc_key(e)}", f"written .sunsynth does not load: {e!r}", desc)
        return
    res.count("synth_roundtrips")
    if type(s2.module) is not type(m):
        res.violation(f"C02:type:{T}", f"loaded module is {type(s2.module).__name__}", desc)
        return
    if tuple(s2.loaded_sunsynth_version) != tuple(syn.sunsynth_version):
        res.violation(f"C02:synth-version:{T}", f"VERS {syn.sunsynth_version} loads as {s2.loaded_sunsynth_version}", desc)
    compare(res, T, "synth", S_syn, build.norm_module(snapshot.snap_module(s2.module, "synth"), "after"), desc)
    if T in ("MetaModule", "Sampler") or c.index % 10 == 0:
        workload.saves_into_positioned_streams(res, "C02", syn, desc)
    # (b) clone
    try:
        cl = m.clone()
    except Exception as e:
        res.violation(f"C02:clone-raises:{T}:{workload.exc_key(e)}", f"{T}.clone() raised {e!r}", desc)
        return
    res.count("clones")
    if type(cl) is not type(m):
        res.violation(f"C02:clone-type:{T}", f"clone is {type(cl).__name__}", desc)
        return
    compare(res, T, "clone", S_syn, build.norm_module(snapshot.snap_module(cl, "synth"), "after"), desc)
    # (c0) inside a project that also holds OTHER modules of the same type, with other content, before and after it: what
    #      is written for one module is worked out from that module alone
    if T == "MetaModule" or c.index % 3 == 0:
        try:
            others = [workload.module_case(c.seed, 900000 + c.index * 2 + k, c.tier, T, ctx="project").obj for k in range(2)]
        except Exception:
            others = []
            res.count("companions_unusable")
        if others:
            q = api.Project()
            mine = m.clone()
            q.attach_module(others[0])
            q.attach_module(mine)
            q.attach_module(others[1])
            S_mine = build.norm_module(snapshot.snap_module(mine, "project"), "before")
            S_oth = build.norm_module(snapshot.snap_module(others[1], "project"), "before")
            try:
                q2 = workload.load(q.read())
            except Exception as e:
                res.violation(f"C02:project-context-raises:{T}:{workload.exc_key(e)}", f"{T} among others of its type in a project: {e!r}", desc)
                return
            res.count("project_roundtrips_among_same_type")
            compare(res, T, "project-among-same-type", S_mine, build.norm_module(snapshot.snap_module(q2.modules[2], "project"), "after"), desc)
            compare(res, T, "project-among-same-type", S_oth, build.norm_module(snapshot.snap_module(q2.modules[3], "project"), "after"), desc)
    # (c) inside a project
    p = api.Project()
    p.attach_module(m)
    S_proj = build.norm_module(snapshot.snap_module(m, "project"), "before")
    try:
        p2 = workload.load(p.read())
    except Exception as e:
        res.violation(f"C02:project-context-raises:{T}:{workload.exc_key(e)}", f"{T} in a project: {e!r}", desc)
        return
    res.count("project_roundtrips")
    if len(p2.modules) != 2 or type(p2.modules[1]) is not type(m):
        res.violation(f"C02:project-type:{T}", f"project context gives {[type(x).__name__ for x in p2.modules]}", desc)
        return
    compare(res, T, "project", S_proj, build.norm_module(snapshot.snap_module(p2.modules[1], "project"), "after"), desc)
    # (c1) cloning the module while it belongs to a project (linked to the output) is still "wrap, save, load": a free
    #      module with the same content and no links of its own
    try:
        p.connect(m, p.output)
        cl_att = m.clone()
        res.count("clones_of_attached_modules")
        compare(res, T, "clone-of-attached", S_syn, build.norm_module(snapshot.snap_module(cl_att, "synth"), "after"), desc)
        if cl_att.parent is not None or list(cl_att.in_links) or list(cl_att.out_links):
            res.violation(f"C02:clone-of-attached-not-free:{T}", f"clone of an attached {T}: parent {cl_att.parent!r}, in_links {cl_att.in_links}, out_links {cl_att.out_links}", desc)
    except Exception as e:
        res.violation(f"C02:clone-raises:{T}:{workload.exc_key(e)}", f"cloning an attached {T} raised {e!r}", desc)
    # (c2) an earlier clone is edited in place (embedded projects, effects, payload lists) and dropped; cloning the
    #      untouched original AGAIN must still give the original (decoded sub-objects must not be shared between loads)
    from . import c06 as _c06
    import random as _random2
    side = m.clone()
    touched = _c06.mutate_live(api.Synth(side), _random2.Random(c.seed * 31 + c.index), 6, prefer=("/payload/project/", "/effect/", "/payload/"))
    if touched:
        res.count("clone_after_sibling_edit")
        again = m.clone()
        S_again = build.norm_module(snapshot.snap_module(again, "synth"), "after")
        for path, x, y in snapshot.diff(build.norm_module(snapshot.snap_module(m, "synth"), "before"), S_again)[:3]:
            res.violation(f"C02:clone-after-sibling-edit:{T}:{snapshot.field_key(path)}",
                          f"{T}: a second clone of the untouched original differs at {path} ({x} vs {y}) after an earlier clone was edited in place {touched[:3]}", desc)
    # (d) the object has now been written several times: edit it in place and write it again
    #     (a writer that keeps bytes from an earlier save / load would replay them here)
    from . import c06
    import random as _random
    p.modules[1] = None  # detach from the scratch project without touching the module's state
    m.parent, m.index = None, None
    syn2 = api.Synth(m)
    # controllers of modules embedded in a live (constructed) MetaModule are excluded: assigning them pushes values through
    # the MetaModule's user-defined controllers (DESIGN 6.12: those are synchronised the public way, not judged here)
    applied = c06.mutate_live(syn2, _random.Random(c.seed * 7919 + c.index), 8, prefer=("/effect/", "/payload/"),
                              exclude=lambda pth: "/payload/project/" in pth and "/controllers/" in pth)
    if applied:
        res.count("resave_after_edit")
        S_new = build.norm_module(snapshot.snap_module(m, "synth"), "before")
        try:
            cl2 = m.clone()
        except Exception as e:
            res.violation(f"C02:resave-raises:{T}:{workload.exc_key(e)}", f"{T}: saving again after in-place edits {applied[:3]} raised {e!r}", desc)
            return
        for path, x, y in snapshot.diff(S_new, build.norm_module(snapshot.snap_module(cl2, "synth"), "after"))[:3]:
            res.violation(f"C02:resave-stale:{T}:{snapshot.field_key(path)}", f"{T}: after in-place edits {applied[:4]} and a second save, {path}: object {x}, file {y}", desc)
    # (d2) the Synth object made at the very beginning still wraps the module; the module has changed since (for a MetaModule
    #      also the NUMBER of exposed controllers): writing through that old wrapper gives the module as it is now
    try:
        if T == "MetaModule" and m.user_defined_controllers < 96:
            m.user_defined_controllers = m.user_defined_controllers + 1
            m.update_user_defined_controllers()      # (the documented way to let the new controller take its target's type and value)
            m.controller_midi_maps[f"user_defined_{m.user_defined_controllers}"].channel = 5
        S_now = build.norm_module(snapshot.snap_module(m, "synth"), "before")
        old_wrapper = workload.load(syn.read()).module
        res.count("writes_through_the_first_wrapper")
        for path, x, y in snapshot.diff(S_now, build.norm_module(snapshot.snap_module(old_wrapper, "synth"), "after"))[:3]:
            res.violation(f"C02:old-wrapper-stale:{T}:{snapshot.field_key(path)}", f"{T}: written through the Synth object created before the edits: {path}: object {x}, file {y}", desc)
    except Exception as e:
        res.violation(f"C02:resave-raises:{T}:{workload.exc_key(e)}", f"{T}: writing through the first Synth wrapper after edits raised {e!r}", desc)
        return
    # (e) the same on a LOADED instance (the clone): here embedded controller edits are plain edits (no MetaModule link)
    syn3 = api.Synth(cl)
    applied = c06.mutate_live(syn3, _random.Random(c.seed * 15485863 + c.index), 8, prefer=("/payload/project/", "/effect/"))
    if applied:
        res.count("resave_after_edit_loaded")
        S_new = build.norm_module(snapshot.snap_module(cl, "synth"), "before")
        try:
            cl3 = cl.clone()
        except Exception as e:
            res.violation(f"C02:resave-raises:{T}:{workload.exc_key(e)}", f"{T}: saving the loaded instance after in-place edits {applied[:3]} raised {e!r}", desc)
            return
        for path, x, y in snapshot.diff(S_new, build.norm_module(snapshot.snap_module(cl3, "synth"), "after"))[:3]:
            res.violation(f"C02:resave-stale-loaded:{T}:{snapshot.field_key(path)}", f"{T}: loaded instance edited in place {applied[:4]} then saved: {path}: object {x}, file {y}", desc)
    if T in ("Sampler", "MetaModule"):
        failed_then_repaired(res, T, m, desc)
    # unit coverage
    t = spec.load()[T]
    for sc in t.controllers:
        if sc.kind == "dependent":
            res.seen("units_exercised", f"{T}.{sc.name}@{c.ad['controllers'][sc.depends_on]}")


def failed_then_repaired(res, T, m, desc):
    """The types that carry other objects inside (Sampler: an effect synth; MetaModule: a project): a save that fails because
    something inside cannot be written (an effect synth without a module refuses, as it must) leaves nothing behind - with
    the cause removed the module round-trips as it did before."""
    import rv.api as api
    cl = m.clone()
    try:
        good = build.norm_module(snapshot.snap_module(cl, "synth"), "before")
    except Exception:
        return
    if T == "Sampler":
        keep, holder, attr, bad = cl.effect, cl, "effect", api.Synth()      # an effect that is a synth without a module
    else:
        keep, holder, attr, bad = cl.project.initial_bpm, cl.project, "initial_bpm", 120.5      # a field that cannot be packed
    setattr(holder, attr, bad)
    failed = 0
    for how in ("clone", "synth", "project"):
        try:
            if how == "clone":
                cl.clone()
            elif how == "synth":
                api.Synth(cl).read()
            else:
                api.Synth(cl).write_to(BytesIO())
        except Exception:
            failed += 1
    setattr(holder, attr, keep)
    if not failed:
        res.count("failed_save_did_not_fail")
        return
    res.count("failed_saves_then_repaired")
    try:
        again = cl.clone()
    except Exception as e:
        res.violation(f"C02:clone-raises-after-failed-save:{T}:{workload.exc_key(e)}", f"{T}: {failed} saves failed (module-less effect synth inside); with the effect put right clone() raises {e!r}", desc)
        return
    compare(res, T, "clone-after-failed-save", good, build.norm_module(snapshot.snap_module(again, "synth"), "after"), desc)


def older_layout_then_edit(res, T):
    """A module loaded from a file of an OLDER layout of its type (fewer CVALs than the type has controllers today, shorter CMID),
    whose newer controllers - and their MIDI bindings - are then edited: the edits survive synth, clone and project round trips.
    A flags word with bits that have no name in this library (a foreign writer's, or `mod.flags |= 1 << 26`) survives as it is."""
    import struct
    import rv.api as api
    from rv.modules import MODULE_CLASSES
    t = spec.load()[T]
    cls = MODULE_CLASSES[t.mtype]
    ctls = [c for c in t.controllers if c.attached]
    if len(ctls) < 3 or T == "MetaModule":
        return
    chunks = [(c[0], c[1]) for c in iffparse.parse(api.Synth(cls()).read())]
    idx = [k for k, c in enumerate(chunks) if c[0] == b"CVAL"]
    drop = min(2, len(idx) - 1)
    keep = len(idx) - drop
    out = []
    for k, (cid, pl) in enumerate(chunks):
        if cid == b"CVAL" and k in idx[keep:]:
            continue
        if cid == b"CMID":
            pl = pl[:8 * keep]
        out.append((cid, pl))
    desc = {"type": T, "family": "older-layout-then-edit", "cvals_in_file": keep, "controllers_today": len(idx)}
    res.case((T, "older-layout-then-edit"))
    res.count("older_layout_files")
    try:
        m = workload.load(iffparse.build(out)).module
    except Exception as e:
        res.violation(f"C02:older-layout-unloadable:{T}:{workload.exc_key(e)}", f"{T} file with {keep} of {len(idx)} CVALs does not load: {e!r}", desc)
        return
    edited = {}
    for sc in ctls[keep:]:
        if sc.kind == "dependent":
            continue
        dom = list(sc.domain(None))
        v = dom[-1] if _cval(getattr(m, sc.name)) != _cval(dom[-1]) else dom[0]
        try:
            setattr(m, sc.name, getattr(cls, sc.enum)(v) if sc.kind == "enum" else v)
            m.controller_midi_maps[sc.name].channel = 7
            m.controller_midi_maps[sc.name].message_parameter = 99
        except Exception:
            continue
        edited[sc.name] = _cval(v)
    m.flags = m.flags | (1 << 26) | 0x20
    want_flags = m.flags
    if not edited:
        return
    p = api.Project()
    for how in ("synth", "clone", "project"):
        try:
            if how == "synth":
                back = workload.load(api.Synth(m).read()).module
            elif how == "clone":
                back = m.clone()
            else:
                if m.parent is None:
                    p.attach_module(m)
                back = workload.load(p.read()).modules[m.index]
        except Exception as e:
            res.violation(f"C02:older-layout-raises:{T}:{workload.exc_key(e)}", f"{T} from an older-layout file, edited, {how}: {e!r}", desc)
            return
        res.count("older_layout_roundtrips")
        for name, v in edited.items():
            cm = back.controller_midi_maps[name]
            if _cval(getattr(back, name)) != v or (cm.channel, cm.message_parameter) != (7, 99):
                res.violation(f"C02:older-layout-edit-lost:{T}:{how}", f"{T} loaded from a file with {keep} of {len(idx)} CVALs; {name} = {v} and its MIDI binding (7, 99) set afterwards; "
                                                                      f"after the {how} round trip: {getattr(back, name)!r}, ({cm.channel}, {cm.message_parameter})", dict(desc, controller=name))
                return
        if back.flags != want_flags:
            res.violation(f"C02:{how}:{T}:/flags", f"{T}: flags {want_flags:#x} (bits without a name in this library set) come back as {back.flags:#x} after the {how} round trip", desc)
            return


def _cval(x):
    return x.value if hasattr(x, "value") and not isinstance(x, (int, bool)) else (x.value if hasattr(x, "value") and hasattr(x, "name") else x)


def big_payloads(res):
    """Payloads of 1, 2, 3 MiB (exactly, and one byte around): Vorbis data and a sampler sample."""
    import rv.api as api
    MiB = 1 << 20
    for size in (MiB, 2 * MiB, 2 * MiB - 1, 2 * MiB + 1, 3 * MiB):
        for kind in ("vorbis", "sample"):
            if kind == "sample" and size not in (2 * MiB, 3 * MiB):
                continue
            res.case(("big-payload", kind, size))
            res.count("big_payload_roundtrips")
            data = bytes((i * 31 + 7) & 0xFF for i in range(4096)) * (size // 4096) + bytes(size % 4096)
            desc = {"big_payload": kind, "bytes": size}
            try:
                if kind == "vorbis":
                    m = api.m.VorbisPlayer()
                    m.data = data
                    back = m.clone().data
                    pp = api.Project()
                    pp.attach_module(m)
                    back2 = workload.load(pp.read()).modules[1].data
                else:
                    m = api.m.Sampler()
                    s = m.Sample()
                    s.data, s.format, s.channels = data, m.Format.int8, m.Channels.mono
                    m.samples[3] = s
                    back = m.clone().samples[3].data
                    pp = api.Project()
                    pp.attach_module(m)
                    back2 = workload.load(pp.read()).modules[1].samples[3].data
            except Exception as e:
                res.violation(f"C02:big-payload-raises:{kind}:{workload.exc_key(e)}", f"{kind} payload of {size} bytes: save/load raised {e!r}", desc)
                continue
            if bytes(back) != data or bytes(back2) != data:
                res.violation(f"C02:big-payload:{kind}", f"{kind} payload of {size} bytes comes back with {len(back)} / {len(back2)} bytes (clone / project) or different content", desc)
    # the written file read back through every kind of stream an application may hold it in (payloads of 64 KiB .. 300 KiB)
    import os
    import shutil
    import tempfile
    tdir = tempfile.mkdtemp(prefix="rvmon-c02-", dir=os.environ.get("TMPDIR", "/var/tmp"))
    try:
        for size, kind in ((65536, "vorbis"), (307200, "vorbis"), (65535, "sample"), (200000, "sample")):
            data = bytes((i * 17 + 3) & 0xFF for i in range(size))
            if kind == "vorbis":
                m = api.m.VorbisPlayer()
                m.data = data
            else:
                m = api.m.Sampler()
                s = m.Sample()
                s.data, s.format, s.channels = data, m.Format.int8, m.Channels.mono
                m.samples[0] = s
            workload.loads_through_streams_and_names(res, "C02", api.Synth(m).read(), lambda o: build.norm(snapshot.snap_synth(o), "after"),
                                                     {"big_payload": kind, "bytes": size}, tdir, kinds=("buffered", "unbuffered", "read-write", "mmap", "gzip.open", "bz2.open", "lzma.open", "pipe", "socket"))
    finally:
        shutil.rmtree(tdir, ignore_errors=True)


def empty_synth(res):
    import rv.api as api
    from rv.errors import EmptySynthError
    for how in ("write_to", "read", "clone"):
        res.case(("empty-synth", how))
        res.count("empty_synth_refusals")
        s = api.Synth()
        f = BytesIO()
        try:
            if how == "write_to":
                s.write_to(f)
            elif how == "read":
                s.read()
            else:
                s.clone()
        except EmptySynthError:
            if f.getvalue():
                res.violation("C02:empty-synth-wrote-bytes", f"Synth().{how} raised but wrote {len(f.getvalue())} bytes", {"how": how})
        except Exception as e:
            res.violation("C02:empty-synth-wrong-error", f"Synth().{how} raised {e!r}", {"how": how})
        else:
            res.violation("C02:empty-synth-accepted", f"Synth().{how} did not refuse", {"how": how})


def run_shard(spec_, res):
    monitors.install(snapshot_fn=_snap_any)
    types = sorted(T for T in spec.load() if T != "Output")
    tier = spec_["tier"]
    idx = spec_["shard"]
    for rnd in range(spec_["rounds"]):
        for ti, T in enumerate(types):
            index = (rnd * spec_["n_shards"] + spec_["shard"]) * 100 + ti
            try:
                c = workload.module_case(spec_["seed"], index, tier, T, ctx="project")
                c.extra = T
            except Exception as e:
                res.violation(f"C02:build-raises:{T}:{workload.exc_key(e)}", f"building {T} raised {e!r}", {"case_seed": spec_["seed"], "index": index, "type": T})
                continue
            check_module(res, c, T)
    if spec_["shard"] % 2 == 0:
        for T in types[spec_["shard"] // 2::max(1, spec_["n_shards"] // 2)]:
            older_layout_then_edit(res, T)
    workload.fresh_process_reload(res, PROPERTY, FRESH)
    del FRESH[:]
    if spec_["shard"] == 0:
        empty_synth(res)
    if spec_["shard"] == 1:
        # MetaModules one of whose mapped embedded modules was taken out by hand (generator and oracle are C15's)
        import random as _r5
        from . import c15
        from ..runner import Result
        scratch = Result()
        c15.deleted_targets(scratch, _r5.Random(spec_["seed"] + 5), 10)
        res.count("metamodules_with_deleted_targets", scratch.counters.get("deleted_target_cases", 0))
        for v in scratch.violations:
            res.violation(v["key"].replace("C15:", "C02:", 1), v["what"], v.get("case"))
        big_payloads(res)
        pass
    else:
        res.count("empty_synth_refusals", 0)
    for name, msg in monitors.take_failures():
        res.violation(f"C02:ambient:{name}", msg, {"monitor": name})
    res.count("save_is_pure_evaluations", monitors.COUNTERS.get("save_is_pure.evaluations", 0))
    res.exhaustive = True


def _snap_any(obj):
    from rv.project import Project
    return snapshot.snap_project(obj) if isinstance(obj, Project) else snapshot.snap_synth(obj)


def finalize(merged, tier):
    seen = merged["counters"].get("module_types", {})
    if len(seen) != 42:
        merged["inconclusive"].append(f"only {len(seen)} of 42 module types were exercised")


def replay(case, res):
    monitors.install(snapshot_fn=_snap_any)
    T = case["kind"].split(":", 1)[1]
    c = workload.module_case(case["case_seed"], case["index"], case.get("tier", "quick"), T, ctx="project")
    check_module(res, c, T)
