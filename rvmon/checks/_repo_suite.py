"""Second, independent workload for the ambient monitors: the repository's own 170 tests (thorough tiers)."""
from .. import runner


def ambient_under_repo_tests(res, prop, monitor_names):
    r = runner.repo_tests_under_monitors()
    plug = r.get("plugin")
    res.counters["repo_suite_under_monitors"] = {"summary": r["summary"]}
    if not plug:
        res.inconclusive.append(f"repository suite under monitors produced no plugin report: {r['summary']}")
        return
    for name in monitor_names:
        n = plug["counters"].get(f"{name}.evaluations", 0)
        res.count(f"repo_suite_{name}_evaluations", n)
        if n == 0:
            res.inconclusive.append(f"monitor {name} was never evaluated under the repository's tests")
    for mon, msg in plug["failures"]:
        if mon in monitor_names:
            res.violation(f"{prop}:ambient-under-repo-tests:{mon}", f"monitor {mon} fired while the repository's own tests ran: {msg}", {"monitor": mon})
