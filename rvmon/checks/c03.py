"""C03 - written files conform to the documented SunVox chunk format (independent decoder as output monitor)."""
import os
import re
import struct

from .. import build, env, iffparse, monitors, refcodec, snapshot, spec, workload
from . import c15

PROPERTY = "C03"
LEVEL = "exploration"
RULE = ("one case = one file written by the library from a generated object (projects as in C01; every module type stand-alone and "
        "inside a project as in C02; MetaModules as in C15; samplers as in C16): the bytes are decoded by rvmon.refcodec, which is built "
        "only from docs/sunvox-file-format.rst and specs/fileformat.yaml and shares no code with rv; the decoder must consume every byte, "
        "report no structural problem (SNAM 32 bytes, PDTA = lines x tracks x 8, one PEND/SEND per slot, one CVAL per attached controller, "
        "8 CMID bytes per value, CHNM < CHNK, CHDT follows CHNM, documented relative order, options record = highest byte + 1, 400-byte "
        "sampler record, 44-byte sample headers, 0x14+4n envelope chunks, array chunk sizes, recursively for embedded projects/effects) "
        "and the decoded content must equal the object's public state. distinct = distinct files; non-trivial = all")
ASSUMPTIONS = [
    "the oracle decoder is calibrated first on the 52 SunVox-written fixtures (two independent decoders must agree on every value present); the calibration result is part of this evidence",
    "interpretive decisions of DESIGN.md 1.5 (cell layout, 400-byte record, 44-byte sample header, YAML option layout, 96-entry mapping array)",
    "only the relative order of chunk ids that appear in the documented order lists is asserted",
    "out-link tables are derived data and are not in the file; they are covered by C07/C08",
]
REQUIRED_COUNTERS = ["files_decoded", "chunks_decoded", "fixtures_calibrated", "structural_rule_evaluations"]
WORKERS = {"quick": 4, "thorough": 16}


def plan(tier, seed):
    n = 4 if tier == "quick" else 16
    return [{"tier": tier, "seed": seed, "shard": i, "n_shards": n,
             "projects": 400 if tier == "quick" else 2000, "rounds": 12 if tier == "quick" else 60,
             "metamodules": 60 if tier == "quick" else 400} for i in range(n)]


def problem_key(p):
    p = re.sub(r"^(module \d+( \([^)]*\))?(/embedded|/effect)*: ?)+", "", p)
    p = re.sub(r"module \d+( \([^)]*\))?(/embedded|/effect)?: ?", "", p)
    p = re.sub(r"0x[0-9a-fA-F]+|\d+", "N", p)
    return p[:90]


def cells_match(res, obj, dec, desc, origin):
    """Note attributes of the live patterns vs the documented cell layout of the written PDTA (note, vel, module u16, CCEE u16, XXYY u16)."""
    import struct
    for pi, (q, dq) in enumerate(zip(obj.patterns, dec["patterns"])):
        if q is None or dq is None or dq["kind"] != "pattern" or not hasattr(q, "data"):
            continue
        if (q.tracks, q.lines) != (dq["tracks"], dq["lines"]):
            continue  # slot misalignment / wrong shape is reported by the structural comparison
        cells = dq["cells"]
        tracks = dq["tracks"]
        n = len(cells) // 8
        for k in range(0, n, max(1, n // 24)):
            note, vel, module, ctl, val = struct.unpack_from("<BBHHH", cells, k * 8)
            nt = q.data[k // tracks][k % tracks]
            got = (int(nt.note), nt.vel, nt.module, nt.ctl, nt.val, nt.controller, nt.effect, nt.val_xx, nt.val_yy)
            want = (note, vel, module, ctl, val, ctl >> 8, ctl & 0xFF, val >> 8, val & 0xFF)
            res.count("cells_compared")
            if got != want:
                res.violation("C03:content:cell-layout", f"{origin}: pattern {pi} cell {k}: note attributes {got}, file cell decodes to {want}", desc)
                return


def judge(res, raw, snap_norm, desc, origin, obj=None):
    res.count("files_decoded")
    res.hist("files_by_origin", origin)
    res.case(raw)
    try:
        chunks = iffparse.parse(raw)
    except iffparse.Malformed as e:
        res.violation("C03:not-a-chunk-stream", f"{origin}: {e}", desc)
        return
    res.count("chunks_decoded", len(chunks))
    for c in chunks:
        res.hist("chunks_by_id", c[0].decode("latin1"))
    try:
        dec, problems = refcodec.decode(raw)
    except (refcodec.DecodeError, iffparse.Malformed, UnicodeDecodeError, KeyError) as e:
        res.violation(f"C03:undecodable:{problem_key(str(e))}", f"{origin}: independent decoder cannot parse the written file: {e!r}", desc)
        return
    res.count("structural_rule_evaluations", 12 + 6 * sum(1 for c in chunks if c[0] in (b"SEND", b"PEND")))
    for p in problems[:4]:
        res.violation(f"C03:structure:{problem_key(p)}", f"{origin}: {p}", desc)
    if problems:
        return
    if obj is not None and dec["kind"] == "project" and len(obj.patterns) == len(dec["patterns"]):
        cells_match(res, obj, dec, desc, origin)
    d = refcodec.compare(snap_norm, dec)
    for path, a, b in d[:4]:
        res.violation(f"C03:content:{snapshot.field_key(path)}", f"{origin}: {path}: object has {snapshot._short(a)}, file decodes to {snapshot._short(b)}", desc)


def os_texts(res):
    """Text that came from the operating system (undecodable file / device names reach a Python program with lone surrogates
    in them, os.fsdecode).  The format documents every string as UTF-8: a file either carries valid UTF-8 in every string
    field, or is not written."""
    import rv.api as api
    odd = [os.fsdecode(b"caf\xe9.wav"), "dev\udcff", "\ud800", "ok\udc80\udc81 name", "\udfff" * 3]

    def walk(data):
        for c in iffparse.parse(data):
            yield c[0], c[1]
            if c[1][:4] in (b"SVOX", b"SSYN"):
                yield from walk(c[1])
    for k, text in enumerate(odd):
        for where in ("project-name", "pattern-name", "module-name", "midi-out-name", "label", "embedded-module-name"):
            p = api.Project()
            amp = p.new_module(api.m.Amplifier)
            pat = api.Pattern(tracks=1, lines=1)
            p.attach_pattern(pat)
            mm = p.new_module(api.m.MetaModule)
            inner = mm.project.new_module(api.m.Filter)
            mm.user_defined_controllers = 1
            mm.mappings.values[0] = mm.Mapping((inner.index, 0))
            if where == "project-name":
                p.name = text
            elif where == "pattern-name":
                pat.name = text
            elif where == "module-name":
                amp.name = text
            elif where == "midi-out-name":
                amp.midi_out_name = text
            elif where == "label":
                mm.user_defined[0].label = text
            else:
                inner.name = text
            case = {"family": "os-texts", "where": where, "text": repr(text)}
            res.case(("os-texts", where, k))
            res.count("os_text_cases")
            try:
                raw = p.read()
            except Exception:
                res.count("os_text_saves_refused")
                continue
            res.count("os_text_saves_written")
            cur = None
            for cid, pl in walk(raw):
                if cid == b"CHNM" and len(pl) == 4:
                    cur = int.from_bytes(pl, "little")
                is_label = cid == b"CHDT" and cur is not None and 8 <= cur < 104 and pl[:4] not in (b"SVOX", b"SSYN")
                if cid in (b"NAME", b"PNME", b"SNAM", b"SMIN") or is_label:
                    try:
                        pl.split(b"\0", 1)[0].decode("utf-8")
                    except UnicodeDecodeError:
                        res.violation(f"C03:string-not-utf8:{cid.decode()}", f"a {where} holding {text!r} was written; chunk {cid.decode()} carries {pl[:24]!r}, which is not UTF-8", case)
                        break


def spectravoice_views(res, seed):
    """SpectraVoice has two public ways of WRITING its sixteen harmonics: the four tables and `harmonics[i]`.  Whatever the
    history (tables replaced by new objects or by new lists, rows written through either way, before or after a save, on a
    built or on a loaded module), the file's tables hold what was written last, cell by cell.  (What `harmonics[i]` REPORTS
    after the tables were written directly is not judged: the row objects keep their own copy of what went through them.)"""
    import random as _r
    import rv.api as api
    rng = _r.Random(seed * 13 + 1)
    H = api.m.SpectraVoice.HarmonicType
    TABLES = ["harmonic_freqs", "harmonic_volumes", "harmonic_widths", "harmonic_types"]
    for k in range(40):
        sv = api.m.SpectraVoice(name="sv")
        if k % 4 == 3:
            sv = sv.clone()
        model = {t: [x.value if hasattr(x, "value") else x for x in getattr(sv, t).values] for t in TABLES}
        history = []
        for step in range(rng.randint(2, 7)):
            op = rng.choice(("replace-objects", "replace-lists", "row-via-view", "row-via-table", "save", "read-view"))
            history.append(op)
            if op == "replace-objects":
                for attr in rng.sample(TABLES, rng.randint(1, 4)):
                    setattr(sv, attr, type(getattr(sv, attr))())
                    model[attr] = [x.value if hasattr(x, "value") else x for x in getattr(sv, attr).values]
            elif op == "replace-lists":
                attr = rng.choice(TABLES[:3])
                vals = [rng.randrange(200) for _ in range(16)]
                getattr(sv, attr).values = list(vals)
                model[attr] = vals
            elif op == "row-via-view":
                i = rng.randrange(16)
                h = sv.harmonics[i]
                vals = (rng.randrange(22050), rng.randrange(256), rng.randrange(256), rng.randrange(len(H)))
                h.freq_hz, h.volume, h.width, h.type = vals[0], vals[1], vals[2], H(vals[3])
                for t, v in zip(TABLES, vals):
                    model[t][i] = v
            elif op == "row-via-table":
                i = rng.randrange(16)
                a_, b_ = rng.randrange(22050), rng.randrange(256)
                sv.harmonic_freqs.values[i], sv.harmonic_volumes.values[i] = a_, b_
                model["harmonic_freqs"][i], model["harmonic_volumes"][i] = a_, b_
            elif op == "save":
                api.Synth(sv).read()
            else:
                [(h.freq_hz, h.volume) for h in sv.harmonics]
        case = {"family": "spectravoice-writes", "history": history, "loaded": k % 4 == 3}
        res.case(("spectravoice-writes", k, tuple(history)))
        res.count("spectravoice_view_cases")
        try:
            raw = api.Synth(sv).read()
            dec, problems = refcodec.decode(raw)
            pl = dec["module"]["payload"]
        except Exception as e:
            res.violation(f"C03:spectravoice-raises:{workload.exc_key(e)}", f"SpectraVoice after {history}: {e!r}", case)
            continue
        for t in TABLES:
            filed = [int(x) for x in pl[t]]
            if filed != [int(x) for x in model[t]]:
                rows = [i for i in range(16) if filed[i] != int(model[t][i])]
                res.violation(f"C03:content:/module/payload/{t}:writes", f"SpectraVoice after {history}: rows {rows[:5]} of {t} in the file hold {[filed[i] for i in rows[:5]]}, "
                                                                       f"last written were {[int(model[t][i]) for i in rows[:5]]}", case)
                break


def object_histories(res, seed):
    """Objects with a past, written and held against the format: (1) patterns whose declared size was changed after their cells
    existed and that were then cleared (the documented way to get a grid of the new size): the note block is lines x tracks x 8
    bytes; (2) Samplers that received chunks through the public load_chunk() hook, or came from a file whose writer left the
    instrument record out, then edited: the written module carries its 400-byte instrument record."""
    import random as _r
    import rv.api as api
    from rv.modules import Chunk
    rng = _r.Random(seed * 17 + 3)
    for k in range(30):
        p = api.Project()
        pat = api.Pattern(tracks=rng.randint(1, 6), lines=rng.randint(1, 8))
        p.attach_pattern(pat)
        for line in pat.data:
            for n in line:
                n.vel = rng.randrange(130)
        how = rng.choice(("tracks", "lines", "both"))
        if how in ("tracks", "both"):
            pat.tracks = rng.choice([t for t in range(1, 8) if t != pat.tracks])
        if how in ("lines", "both"):
            pat.lines = rng.choice([t for t in range(1, 10) if t != pat.lines])
        pat.clear()
        case = {"family": "object-histories", "kind": "pattern-resized-and-cleared", "changed": how, "tracks": pat.tracks, "lines": pat.lines}
        shape = (len(pat.data), sorted(set(len(r_) for r_ in pat.data)))
        if shape != (pat.lines, [pat.tracks]):
            res.violation("C03:structure:PDTA-size", f"after resizing ({how}) and clear() the grid is {shape[0]} x {shape[1]}, declared are {pat.lines} lines x {pat.tracks} tracks", case)
            continue
        if rng.random() < 0.5:
            pat.data[pat.lines - 1][pat.tracks - 1].vel = 7
        res.count("resized_cleared_patterns")
        try:
            raw = p.read()
        except Exception as e:
            res.violation(f"C03:save-raises:{workload.exc_key(e)}", f"pattern resized ({how}) and cleared: saving raised {e!r}", case)
            continue
        judge(res, raw, build.norm(snapshot.snap_project(p), "before"), case, "pattern-resized-and-cleared", obj=p)
        pdta = [c[1] for c in iffparse.parse(raw) if c[0] == b"PDTA"]
        if not pdta or len(pdta[0]) != pat.lines * pat.tracks * 8:
            res.violation("C03:structure:PDTA-size", f"pattern declared {pat.lines} lines x {pat.tracks} tracks after resizing ({how}) and clear(): PDTA has {len(pdta[0]) if pdta else None} bytes, "
                                                     f"expected {pat.lines * pat.tracks * 8}", case)
    # files of OTHER writers loaded and written again: fixed-size fields they stored shorter / longer (SNAM as a plain C string,
    # or 40 bytes), names without terminator - what this library writes conforms, whatever it read
    for k in range(12):
        try:
            c = workload.project_case(seed, 960000 + k, "quick", max_modules=4)
            chunks = [(x[0], x[1]) for x in iffparse.parse(c.obj.read())]
        except Exception:
            continue
        style = ("c-string", "long", "bare", "c-string+junk")[k % 4]
        out = []
        for cid, pl in chunks:
            if cid == b"SNAM":
                text = pl.split(b"\0", 1)[0]
                pl = {"c-string": text + b"\0", "long": (text + b"\0").ljust(40, b"\0"), "bare": text or b"x", "c-string+junk": (text + b"\0old text").ljust(32, b"\0")}[style]
            out.append((cid, pl))
        case = {"family": "object-histories", "kind": "foreign-fixed-fields:" + style}
        res.count("foreign_fixed_field_files")
        try:
            o = workload.load(iffparse.build(out))
            raw2 = o.read()
        except Exception:
            res.count("foreign_fixed_field_unloadable")
            continue
        judge(res, raw2, build.norm(snapshot.snap_project(o), "before"), case, "foreign-fixed-fields:" + style, obj=o)
        bad = [len(x[1]) for x in iffparse.parse(raw2) if x[0] == b"SNAM" and len(x[1]) != 32]
        if bad:
            res.violation("C03:structure:SNAM-size", f"a project read from a file whose SNAM fields were stored as {style} is written with SNAM chunks of {bad[:4]} bytes (documented: 32)", case)
    # projects whose lists were edited BY HAND (the lists are plain lists): a module position emptied while a link still names it,
    # one Pattern object put into two positions - the file says what the object says
    for k in range(8):
        p = api.Project()
        mods = [p.new_module(api.m.Amplifier, name=f"a{i}") for i in range(4)]
        for a_, b_ in zip(mods, mods[1:]):
            a_ >> b_
        mods[0] >> mods[3]
        mods[3] >> p.output
        pat = api.Pattern(tracks=2, lines=2, name="twice")
        pat.data[0][0].vel = 7
        p.attach_pattern(pat)
        p.attach_pattern(api.Pattern(tracks=1, lines=1, name="other"))
        what = ("module-emptied", "pattern-twice", "both")[k % 3]
        if what in ("module-emptied", "both"):
            p.modules[mods[k % 3].index] = None
        if what in ("pattern-twice", "both"):
            p.patterns.append(pat)
        case = {"family": "object-histories", "kind": "lists-edited-by-hand:" + what}
        res.count("hand_edited_list_projects")
        try:
            raw = p.read()
        except Exception:
            res.count("hand_edited_list_projects_unsaveable")
            continue
        # the SLNK chunks hold what the in_links lists hold; every Pattern object is written as a pattern (PDTA), not as a clone
        tables = [list(struct.unpack("<" + "i" * (len(c[1]) // 4), c[1])) for c in iffparse.parse(raw) if c[0] == b"SLNK"]
        want_tables = [list(m_.in_links) for m_ in p.modules if m_ is not None]
        if tables != want_tables:
            res.violation("C03:content:/modules[]/links/in:hand-edited-lists", f"{what}: SLNK chunks decode to {tables}, the modules' in_links are {want_tables}", case)
            continue
        n_pdta = sum(1 for c in iffparse.parse(raw) if c[0] == b"PDTA")
        n_ppar = sum(1 for c in iffparse.parse(raw) if c[0] == b"PPAR")
        want_pdta = sum(1 for q in p.patterns if isinstance(q, api.Pattern))
        if (n_pdta, n_ppar) != (want_pdta, 0):
            res.violation("C03:content:/patterns:hand-edited-lists", f"{what}: the pattern list holds {want_pdta} Pattern objects and no clones; the file has {n_pdta} PDTA and {n_ppar} PPAR chunks", case)
    for hname in ("handed-a-chunk", "file-without-record"):
        for k in range(4):
            try:
                if hname == "handed-a-chunk":
                    src = api.m.Sampler()
                    src.volume_envelope.points = [(0, 0x8000), (16, 0x4000), (64, 0)]
                    pairs = dict(src.volume_envelope.chunks())
                    ch = Chunk()
                    ch.chnm = int.from_bytes(pairs[b"CHNM"], "little")
                    ch.chdt = pairs[b"CHDT"]
                    smp = api.m.Sampler()
                    smp.load_chunk(ch)
                else:
                    chunks = [(c[0], c[1]) for c in iffparse.parse(api.Synth(api.m.Sampler()).read())]
                    out, skip = [], False
                    for cid, pl in chunks:
                        if cid == b"CHNM":
                            skip = pl == bytes(4)
                        if skip and cid in (b"CHNM", b"CHDT", b"CHFF", b"CHFR"):
                            continue
                        skip = False
                        out.append((cid, pl))
                    smp = workload.load(iffparse.build(out)).module
                smp.vibrato_depth = 40 + k
                smp.volume_fadeout = 1000 + k
                s_ = smp.Sample()
                s_.data, s_.format, s_.channels = bytes(range(16)), smp.Format.int8, smp.Channels.mono
                smp.samples[k] = s_
                syn = api.Synth(smp)
                raw = syn.read()
            except Exception as e:
                res.violation(f"C03:save-raises:{workload.exc_key(e)}", f"Sampler ({hname}), edited: {e!r}", {"family": "object-histories", "kind": hname})
                continue
            case = {"family": "object-histories", "kind": "sampler:" + hname}
            res.count("sampler_histories_written")
            judge(res, raw, build.norm(snapshot.snap_synth(syn), "before"), case, "sampler:" + hname)
            recs = []
            cur = None
            for cid, pl, *_x in iffparse.parse(raw):
                if cid == b"CHNM":
                    cur = int.from_bytes(pl, "little")
                elif cid == b"CHDT" and cur == 0:
                    recs.append(pl)
            if not recs or len(recs[0]) < 0x190:
                res.violation("C03:structure:sampler-record-missing", f"Sampler ({hname}), edited and saved: the module carries {'no' if not recs else 'a ' + str(len(recs[0])) + '-byte'} "
                                                                      f"instrument record (CHNM 0), documented are 400 bytes", case)


def calibrate(res):
    """The oracle must agree with rv's reader on SunVox-written files before it judges anything."""
    ok = 0
    for f in env.fixtures():
        name = os.path.relpath(f, env.FIXTURE_DIR)
        with open(f, "rb") as fh:
            raw = fh.read()
        try:
            dec, _problems = refcodec.decode(raw)
            o = workload.load(raw)
        except Exception as e:
            res.inconclusive.append(f"calibration: {name}: {e!r}")
            continue
        S = snapshot.snap_project(o) if dec["kind"] == "project" else snapshot.snap_synth(o)
        d = [x for x in refcodec.compare(build.norm(S, "after"), dec)
             if not (x[2] is None or x[2] == "<absent>" or x[0].endswith("/flags") or x[1] == "<absent>")]
        # MultiSynth curves absent from old files decode to None
        d = [x for x in d if not (isinstance(x[2], str) and x[2] == "None")]
        # a foreign file without SLnK legitimately loads with re-derived slots (C08); the elision rule is for files rv writes
        d = [x for x in d if not x[0].endswith("/links/in_slots")]
        if d:
            res.counters.setdefault("calibration_disagreements", []).append([name, d[0][0], str(d[0][1])[:60], str(d[0][2])[:60]])
        else:
            ok += 1
    res.count("fixtures_calibrated", ok)


def run_shard(spec_, res):
    import rv.api as api
    monitors.install()
    tier, seed = spec_["tier"], spec_["seed"]
    if spec_["shard"] == 0:
        calibrate(res)
    # projects (C01 workload)
    start = spec_["shard"] * spec_["projects"]
    for i in range(start, start + spec_["projects"]):
        try:
            c = workload.project_case(seed, i, tier)
            raw = c.obj.read()
        except Exception as e:
            res.count("unsaveable_cases")
            continue
        judge(res, raw, build.norm(c.snap, "before"), c.describe(), "project", obj=c.obj)
        # the object has been written once; now ONE field of some MIDI bindings / of the project changes and it is written again
        try:
            import random as _r3
            from rv.cmidmap import MidiMessageType, Slope
            rr = _r3.Random(i)
            touched = 0
            for mod in [m for m in c.obj.modules if m is not None]:
                names = list(mod.controller_midi_maps) or list(type(mod).controllers)[:2]
                for nm in rr.sample(names, min(2, len(names))):
                    if nm not in type(mod).controllers or not type(mod).controllers[nm].attached(mod):
                        continue
                    cm = mod.controller_midi_maps[nm]
                    field = rr.choice(("slope", "slope", "channel", "message_parameter", "message_type"))
                    if field == "slope":
                        cm.slope = Slope((cm.slope.value + 1 + rr.randrange(4)) % 6)
                    elif field == "channel":
                        cm.channel = (cm.channel + 1) % 17
                    elif field == "message_parameter":
                        cm.message_parameter = (cm.message_parameter + 1) % 65536
                    else:
                        cm.message_type = MidiMessageType((cm.message_type.value + 1) % 9)
                    touched += 1
            if touched:
                res.count("second_writes_after_single_field_edits")
                judge(res, c.obj.read(), build.norm(snapshot.snap_project(c.obj), "before"), dict(c.describe(), second_write=True), "project-second-write", obj=c.obj)
        except Exception as e:
            res.count("second_write_failed")
            res.hist("second_write_failed_why", workload.exc_key(e))
    # every module type, both contexts (C02 workload)
    types = sorted(T for T in spec.load() if T != "Output")
    for rnd in range(spec_["rounds"]):
        for ti, T in enumerate(types):
            index = 700000 + (rnd * spec_["n_shards"] + spec_["shard"]) * 100 + ti
            try:
                c = workload.module_case(seed, index, tier, T, ctx="project")
                syn = api.Synth(c.obj)
                raw = syn.read()
                S = build.norm(snapshot.snap_synth(syn), "before")
            except Exception:
                res.count("unsaveable_cases")
                continue
            judge(res, raw, S, c.describe(), f"synth:{T}")
            try:
                p = api.Project()
                p.attach_module(c.obj)
                rawp = p.read()
                Sp = build.norm(snapshot.snap_project(p), "before")
            except Exception:
                res.count("unsaveable_cases")
                continue
            judge(res, rawp, Sp, c.describe(), f"in-project:{T}")
            try:
                syn_att = api.Synth(c.obj)        # the module now belongs to a project; the .sunsynth must still be a .sunsynth
                raw_att = syn_att.read()
                judge(res, raw_att, build.norm(snapshot.snap_synth(syn_att), "before"), c.describe(), f"synth-of-attached:{T}")
            except Exception:
                res.count("unsaveable_cases")
            # objects whose PUBLIC state holds values outside the ranges the library knows: (1) the file they were loaded from
            # carried such values (readers keep them), (2) a unit-dependent controller keeps its value when the unit is
            # switched to one with a narrower range.  What is written must still be exactly the public state.
            try:
                import random as _r
                from . import c05
                mrng = _r.Random(index)
                X = None
                for _try in range(6):
                    mut = c05.mutate(raw, mrng)
                    if mut and mut[0] == "cval":
                        X = mut[1]
                        break
                if X is not None:
                    o = workload.load(X)
                    n_oor = c05.count_out_of_range(o)
                    raw_o = o.read()
                    judge(res, raw_o, build.norm(snapshot.snap_synth(o), "before"), dict(c.describe(), cval_mutated=True), f"synth-loaded-out-of-range:{T}")
                    res.count("out_of_range_public_values_written", n_oor)
            except Exception:
                res.count("unloadable_or_unsaveable_mutants")
            try:
                t = spec.load()[T]
                deps = [sc for sc in t.controllers if sc.kind == "dependent"]
                if deps:
                    m2 = c.obj.clone()
                    for sc in deps:
                        ecls = getattr(type(m2), sc.enum)
                        wide = max(sc.ranges, key=lambda u: sc.ranges[u][1])
                        narrow = min(sc.ranges, key=lambda u: sc.ranges[u][1])
                        setattr(m2, sc.depends_on, ecls[wide])
                        setattr(m2, sc.name, sc.ranges[wide][1] - (index % 3))
                    for sc in deps:
                        setattr(m2, sc.depends_on, getattr(type(m2), sc.enum)[narrow])
                    syn2 = api.Synth(m2)
                    judge(res, syn2.read(), build.norm(snapshot.snap_synth(syn2), "before"), dict(c.describe(), unit_switched=True), f"synth-unit-switched:{T}")
                    res.count("unit_switched_values_written")
            except Exception as e:
                res.count("unit_switch_failed")
                res.hist("unit_switch_failed_why", workload.exc_key(e))
    # freshly constructed modules (nothing assigned, nothing loaded) whose list-valued payloads are changed ELEMENT BY ELEMENT
    # in place, stand-alone and in a project
    from rv.modules import MODULE_CLASSES
    import random as _r2
    for ti, T in enumerate(types):
        if ti % spec_["n_shards"] != spec_["shard"]:
            continue
        cls = MODULE_CLASSES[spec.load()[T].mtype]
        m = cls()
        rr = _r2.Random(ti)
        touched = 0
        for attr in ("nv_curve", "vv_curve", "np_curve", "curve", "custom_waveform"):
            ch = getattr(m, attr, None)
            if ch is not None and hasattr(ch, "values") and ch.values:
                for i in rr.sample(range(len(ch.values)), min(3, len(ch.values))):
                    ch.values[i] = 0.25 if isinstance(ch.values[i], float) else (int(ch.values[i]) + 1) % 100
                touched += 1
        if hasattr(m, "drawn_waveform"):
            for i in rr.sample(range(32), 3):
                m.drawn_waveform.samples[i] = (m.drawn_waveform.samples[i] + 17) % 100
            touched += 1
        if hasattr(m, "harmonics"):
            h = m.harmonics[rr.randrange(16)]
            h.volume, h.width = (h.volume + 3) % 200, (h.width + 1) % 3
            touched += 1
        if hasattr(m, "mappings") and T == "MultiCtl":
            m.mappings.values[0].min, m.mappings.values[0].max = 11, 22
            touched += 1
        if not touched:
            continue
        res.count("fresh_modules_edited_in_place")
        try:
            syn = api.Synth(m)
            judge(res, syn.read(), build.norm(snapshot.snap_synth(syn), "before"), {"type": T, "fresh_in_place": True}, f"synth-fresh-in-place:{T}")
            p = api.Project()
            p.attach_module(m)
            judge(res, p.read(), build.norm(snapshot.snap_project(p), "before"), {"type": T, "fresh_in_place": True}, f"project-fresh-in-place:{T}")
        except Exception as e:
            res.violation(f"C03:save-raises:{T}:{workload.exc_key(e)}", f"saving a fresh {T} after in-place payload edits raised {e!r}", {"type": T})
    # order-of-operations cases: a pattern attached while still untouched and sized afterwards; one Sample object in two slots
    if spec_["shard"] == 1 % max(1, spec_["n_shards"]):
        import random as _r4
        from rv.note import NOTECMD
        rr = _r4.Random(seed + 41)
        for k in range(8):
            try:
                p = api.Project()
                q = api.Pattern()
                p.attach_pattern(q) if k % 2 == 0 else p.__iadd__(q)
                q.lines, q.tracks = rr.randint(1, 20), rr.randint(1, 6)
                if k % 4 < 2:
                    q.tracks, q.lines = q.tracks, q.lines
                for ln in range(q.lines):
                    for tr in range(q.tracks):
                        n = q.data[ln][tr]
                        n.note, n.vel, n.module = NOTECMD(1 + (ln * 7 + tr) % 100), (ln + tr) % 130, tr + 1
                res.count("patterns_sized_after_attaching")
                judge(res, p.read(), build.norm(snapshot.snap_project(p), "before"), {"pattern_sized_after_attach": k}, "project-pattern-sized-after-attach", obj=p)
            except Exception as e:
                res.violation(f"C03:save-raises:pattern-sized-after-attach:{workload.exc_key(e)}", f"pattern attached untouched, sized afterwards, filled, saved: {e!r}", {"k": k})
        for k in range(6):
            try:
                smp = api.m.Sampler()
                s = smp.Sample()
                s.data, s.format, s.channels, s.rate = bytes(range(40 + k)), smp.Format.int8, smp.Channels.mono, 8000 + k
                a, b = rr.sample(range(128), 2)
                smp.samples[a] = s
                smp.samples[b] = s           # the very same Sample object in a second slot
                res.count("samplers_with_one_sample_object_in_two_slots")
                syn = api.Synth(smp)
                judge(res, syn.read(), build.norm(snapshot.snap_synth(syn), "before"), {"shared_sample": [a, b]}, "synth-shared-sample-object")
            except Exception as e:
                res.violation(f"C03:save-raises:shared-sample:{workload.exc_key(e)}", f"sampler holding one Sample object in two slots: {e!r}", {"k": k})
    # effects inside effects: a Sampler whose effect synth holds a Sampler that has an effect of its own, directly or through
    # the project of a MetaModule
    if spec_["shard"] == 0:
        for k in range(4):
            try:
                innermost = api.m.Sampler(name="innermost")
                innermost.effect = api.Synth(api.m.Reverb(name="deep verb", wet=77 + k))
                if k % 2:
                    inner_p = api.Project()
                    inner_p.attach_module(innermost)
                    middle = api.m.MetaModule(project=inner_p, name="wrapper")
                else:
                    middle = api.m.Sampler(name="middle")
                    middle.effect = api.Synth(innermost)
                outer = api.m.Sampler(name="outer")
                outer.effect = api.Synth(middle)
                syn = api.Synth(outer)
                res.count("effects_inside_effects")
                judge(res, syn.read(), build.norm(snapshot.snap_synth(syn), "before"), {"nested_effects": k}, "synth-effects-inside-effects")
                p = api.Project()
                p.attach_module(outer)
                p.new_module(api.m.Sampler, name="sibling").effect = api.Synth(api.m.Echo())
                judge(res, p.read(), build.norm(snapshot.snap_project(p), "before"), {"nested_effects": k}, "project-effects-inside-effects")
            except Exception as e:
                res.violation(f"C03:save-raises:nested-effects:{workload.exc_key(e)}", f"saving samplers with effects inside effects raised {e!r}", {"nested_effects": k})
    # several MetaModules side by side in ONE project (different numbers of exposed controllers)
    for k in range(3):
        try:
            p = api.Project()
            for j in range(3):
                cm = c15.make_case(seed, 950000 + (spec_["shard"] * 3 + k) * 3 + j, tier, 1)
                p.attach_module(cm.obj)
            res.count("projects_with_sibling_metamodules")
            judge(res, p.read(), build.norm(snapshot.snap_project(p), "before"), {"siblings": True, "index": k}, "project-sibling-metamodules")
        except Exception:
            res.count("unsaveable_cases")
    # metamodules with forced nesting (C15 workload)
    start = 900000 + spec_["shard"] * spec_["metamodules"]
    for i in range(start, start + spec_["metamodules"]):
        try:
            c = c15.make_case(seed, i, tier, 2)
            syn = api.Synth(c.obj)
            raw = syn.read()
            S = build.norm(snapshot.snap_synth(syn), "before")
        except Exception:
            res.count("unsaveable_cases")
            continue
        judge(res, raw, S, c.describe(), "synth:MetaModule-nested")
    # objects that were LOADED (from SunVox-written fixtures and from generated files), edited in place and written again:
    # the written file must be just as well-formed and describe the edited object
    from . import c06
    import random as _random
    fx = [f for i, f in enumerate(env.fixtures()) if i % spec_["n_shards"] == spec_["shard"]]
    for f in fx:
        name = os.path.relpath(f, env.FIXTURE_DIR)
        with open(f, "rb") as fh:
            raw0 = fh.read()
        for rep in range(2 if tier == "quick" else 8):
            try:
                o = workload.load(raw0)
            except Exception:
                break
            applied = c06.mutate_live(o, _random.Random(seed * 1000 + rep + len(raw0)), 6 + rep, prefer=("/options/", "/payload/", "labels"))
            try:
                raw = o.read()
            except Exception as e:
                res.violation(f"C03:loaded-edited-unsaveable:{workload.exc_key(e)}", f"{name} loaded, edited {applied[:3]}, cannot be saved: {e!r}", {"fixture": name})
                continue
            S = snapshot.snap_project(o) if hasattr(o, "modules") else snapshot.snap_synth(o)
            judge(res, raw, build.norm(S, "before"), {"fixture": name, "edits": applied}, f"loaded+edited:{name}", obj=o if hasattr(o, "modules") else None)
            res.count("loaded_edited_files")
    if spec_["shard"] == 1:
        spectravoice_views(res, seed)
        object_histories(res, seed)
    if spec_["shard"] == 0:
        os_texts(res)
        res.sample({"origin": "synth:Sampler", "checked": ["chunk stream tiles the file", "400-byte instrument record at documented offsets",
                                                           "44-byte sample headers", "envelope chunks 0x14+4n", "CVAL/CMID counts", "decoded == public state"]})
    else:
        res.count("fixtures_calibrated", 0)


def finalize(merged, tier):
    dis = merged["counters"].get("calibration_disagreements")
    if dis:
        merged["inconclusive"].append(f"oracle calibration disagreement on SunVox-written fixtures: {dis[:2]}")
    if merged["counters"].get("fixtures_calibrated", 0) < 50:
        merged["inconclusive"].append(f"only {merged['counters'].get('fixtures_calibrated', 0)} fixtures calibrated")


def replay(case, res):
    import rv.api as api
    monitors.install()
    tier = case.get("tier", "quick")
    if case["kind"] == "project":
        c = workload.project_case(case["case_seed"], case["index"], tier)
        judge(res, c.obj.read(), build.norm(c.snap, "before"), case, "project")
    else:
        T = case["kind"].split(":", 1)[1]
        if case["index"] >= 900000:
            c = c15.make_case(case["case_seed"], case["index"], tier, 2)
        else:
            c = workload.module_case(case["case_seed"], case["index"], tier, T, ctx="project")
        syn = api.Synth(c.obj)
        judge(res, syn.read(), build.norm(snapshot.snap_synth(syn), "before"), case, f"synth:{T}")
        p = api.Project()
        p.attach_module(c.obj)
        judge(res, p.read(), build.norm(snapshot.snap_project(p), "before"), case, f"in-project:{T}")
