"""Run one shard of one check in a fresh interpreter:  python -m rvmon.worker <check> <spec.json> <out.json>"""
import importlib
import json
import sys
import faulthandler

from . import env
from .runner import Result


def main():
    check, spec_path, out_path = sys.argv[1:4]
    with open(spec_path) as f:
        spec = json.load(f)
    faulthandler.enable()
    res = Result()
    try:
        env.setup()
    except env.WrongSource as e:
        res.inconclusive.append(str(e))
    else:
        mod = importlib.import_module(f"rvmon.checks.{check.lower()}")
        mod.run_shard(spec, res)
    with open(out_path + ".tmp", "w") as f:
        json.dump(res.as_dict(), f, default=str)
    import os
    os.replace(out_path + ".tmp", out_path)


if __name__ == "__main__":
    main()
