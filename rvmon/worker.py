"""Run one shard of one check in a fresh interpreter:  python -m rvmon.worker <check> <spec.json> <out.json>"""
import importlib
import json
import os
import sys
import faulthandler

from . import env
from .runner import Result


def _failed_loads_first(res):
    from io import BytesIO
    import rv.api as api
    good = api.Project()
    good.new_module(api.m.MetaModule).project.new_module(api.m.Amplifier)
    raw = good.read()
    bad_inner = raw.replace(b"Amplifier\0", b"Amplifiex\0")
    n = 0
    for arg in ("/nonexistent/rvmon-missing.sunvox", BytesIO(b"not a container at all"), BytesIO(raw[:len(raw) // 2]), BytesIO(bad_inner), BytesIO(b"SVOX\0\0\0\0VERS\x04\0\0\0\x01"),
                BytesIO(b"")):
        try:
            api.read_sunvox_file(arg)
        except BaseException:  # noqa - whatever it is, the application caught it and moved on
            n += 1
    res.count("failed_loads_before_the_workload", n)


def main():
    check, spec_path, out_path = sys.argv[1:4]
    with open(spec_path) as f:
        spec = json.load(f)
    faulthandler.enable()
    res = Result()
    cov = None
    if os.environ.get("RVMON_COVERAGE"):
        # development aid (tools/cov.sh): which lines of rv do the workloads reach?  Never set by the registered commands.
        import coverage
        cov = coverage.Coverage(data_file=os.path.join(os.environ["RVMON_COVERAGE"], f".coverage.{check}.{os.getpid()}"),
                                include=[os.path.join(env.SRC, "rv", "*")], branch=True)
        cov.start()
    if spec.get("python_flags"):
        res.count("shards_with_interpreter_flags_" + "".join(spec["python_flags"]).replace("-", "").replace(" ", "_"))
    if spec.get("rv_loglevel"):
        os.environ["RVMON_RV_LOGLEVEL"] = spec["rv_loglevel"]
        res.count("shards_with_library_debug_logging")
    try:
        env.setup()
    except env.WrongSource as e:
        res.inconclusive.append(str(e))
    else:
        mod = importlib.import_module(f"rvmon.checks.{check.lower()}")
        import zlib
        if getattr(mod, "FAILED_LOADS_FIRST", True) and zlib.crc32(json.dumps(spec, sort_keys=True, default=str).encode()) % 2 == 1:
            # Process history: in every second shard the application has already tried - and failed - to load a few things
            # (a missing file, garbage, a truncated file, a file with a broken nested container) before the workload starts.
            _failed_loads_first(res)
        try:
            mod.run_shard(spec, res)
        except Exception as e:
            # An exception escaping from rv code in the middle of a workload whose operations the property
            # says must succeed is an observation about the code under test, not a harness fault: report it
            # as a violation keyed by where it was raised.  Anything else stays a crash (=> inconclusive).
            import traceback
            from .workload import exc_key
            tb = traceback.extract_tb(e.__traceback__)
            import sysconfig
            stdlib = (sysconfig.get_paths()["stdlib"], sysconfig.get_paths()["platstdlib"])
            inner = [fr for fr in tb if not fr.filename.startswith(stdlib) and not fr.filename.startswith("<")]
            # (frames of the standard library - enum lookups, struct, codecs - are skipped: the innermost frame that
            # is not stdlib decides whose exception it is)
            from .workload import LoaderContractBroken
            if isinstance(e, LoaderContractBroken):
                res.violation(f"{mod.PROPERTY}:load-returned-nothing", str(e), {"shard": spec})
            elif inner and inner[-1].filename.startswith(env.SRC):
                res.violation(f"{mod.PROPERTY}:unexpected-exception:{exc_key(e)}",
                              f"workload operation raised {e!r} inside rv: " + "".join(traceback.format_tb(e.__traceback__)[-3:])[-900:],
                              {"shard": spec})
            else:
                raise
    if cov is not None:
        cov.stop()
        cov.save()
    for v in res.violations:
        v["shard_spec"] = spec  # lets --replay re-run exactly the shard that produced the witness
    with open(out_path + ".tmp", "w") as f:
        json.dump(res.as_dict(), f, default=str)
    os.replace(out_path + ".tmp", out_path)


if __name__ == "__main__":
    main()
