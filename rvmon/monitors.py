"""Monitors (invariants / contracts) attached to the live rv objects from outside.

Pure functions return a list of problem strings (empty = invariant holds); ``install()``
wraps the real rv entry points so the invariants are evaluated on every call made by any
workload (icontract when available, an equivalent builtin wrapper otherwise).  Every
monitor counts its evaluations in ``COUNTERS``; a check treats a zero count as inconclusive.
"""
import functools
import sys

COUNTERS = {}
PURITY_ENABLED = True  # C06 turns this off for "save first, look afterwards" cases (a pre-save read can mask stale caches)
FAILURES = []  # (monitor name, message) collected when raise_on_failure is False
BACKEND = None


def _count(name, n=1):
    COUNTERS[name] = COUNTERS.get(name, 0) + n


class MonitorViolation(AssertionError):
    def __init__(self, monitor, message):
        super().__init__(f"{monitor}: {message}")
        self.monitor = monitor
        self.message = message


class ContractBroken(AssertionError):
    pass


# ---------------------------------------------------------------------------- pure invariants
def links_consistent(project):
    """C07/C08 rule: in-table of every module and out-table of the source agree entry by entry."""
    probs = []
    mods = project.modules
    seen_pairs = {}
    for t in mods:
        if t is None:
            continue
        il, ils, ol, ols = t.in_links, t.in_link_slots, t.out_links, t.out_link_slots
        if len(il) != len(ils):
            probs.append(f"module {t.index}: len(in_links)={len(il)} != len(in_link_slots)={len(ils)}")
            continue
        if len(ol) != len(ols):
            probs.append(f"module {t.index}: len(out_links)={len(ol)} != len(out_link_slots)={len(ols)}")
            continue
        for i, (src, s) in enumerate(zip(il, ils)):
            if src == -1:
                if s != -1:
                    probs.append(f"module {t.index}: freed in-entry {i} has slot {s}")
                continue
            if not (0 <= src < len(mods)) or mods[src] is None:
                probs.append(f"module {t.index}: in-entry {i} names missing module {src}")
                continue
            sm = mods[src]
            if not (0 <= s < len(sm.out_links)):
                probs.append(f"module {t.index}: in-entry {i} from {src} names out-slot {s}, source has {len(sm.out_links)}")
                continue
            if sm.out_links[s] != t.index or (s < len(sm.out_link_slots) and sm.out_link_slots[s] != i):
                probs.append(f"module {t.index}: in-entry {i}=(src {src}, slot {s}) but source out[{s}]=({sm.out_links[s]}, "
                             f"{sm.out_link_slots[s] if s < len(sm.out_link_slots) else None})")
            seen_pairs[(src, t.index)] = seen_pairs.get((src, t.index), 0) + 1
        for i, (dst, s) in enumerate(zip(ol, ols)):
            if dst == -1:
                if s != -1:
                    probs.append(f"module {t.index}: freed out-entry {i} has slot {s}")
                continue
            if not (0 <= dst < len(mods)) or mods[dst] is None:
                probs.append(f"module {t.index}: out-entry {i} names missing module {dst}")
                continue
            dm = mods[dst]
            if not (0 <= s < len(dm.in_links)) or dm.in_links[s] != t.index or dm.in_link_slots[s] != i:
                probs.append(f"module {t.index}: out-entry {i}=(dst {dst}, slot {s}) not mirrored by destination in-table")
    for pair, n in seen_pairs.items():
        if n > 1:
            probs.append(f"pair {pair} recorded {n} times")
    return probs


def edge_multiset(project):
    """Directed edges as a sorted list of (src, dst), read from the in-tables."""
    out = []
    for t in project.modules:
        if t is None:
            continue
        for src in t.in_links:
            if src != -1:
                out.append((src, t.index))
    return sorted(out)


def index_coherent(project):
    """C14 rule."""
    from rv.modules.output import Output
    probs = []
    mods = project.modules
    for i, m in enumerate(mods):
        if m is None:
            continue
        if m.index != i:
            probs.append(f"modules[{i}].index == {m.index}")
        if m.parent is not project:
            probs.append(f"modules[{i}].parent is not the project")
    if mods:
        if not isinstance(mods[0], Output):
            probs.append(f"modules[0] is {type(mods[0]).__name__}, not Output")
        elif project.output is not mods[0]:
            probs.append("project.output is not modules[0]")
    ids = [id(m) for m in mods if m is not None]
    if len(ids) != len(set(ids)):
        probs.append("a module object occupies two positions")
    for i, p in enumerate(getattr(project, "patterns", ())):  # absent only inside Project.__init__
        if p is not None and p.project is not project:
            probs.append(f"patterns[{i}].project is not the project")
    return probs


# ---------------------------------------------------------------------------- installation
_installed = False
_orig = {}


def install(raise_on_failure=False, snapshot_fn=None):
    """Attach ambient monitors to rv.  Idempotent.

    * post-condition of Project.connect:         links_consistent
    * post-condition of Project.attach_module / attach_pattern / new_module / __iadd__: index_coherent
    * Container.write_to / read:                 save_is_pure (needs snapshot_fn)
    * read_sunvox_file (every bound reference):  strictness_restored, links/index on the returned project
    """
    global _installed, BACKEND
    if _installed:
        return
    import rv.api  # noqa
    import rv.errors as errors
    from rv.project import Project
    from rv.container import Container

    try:
        import icontract  # noqa
        BACKEND = "icontract"
    except Exception:
        icontract = None
        BACKEND = "builtin"

    def fail(monitor, msg):
        if raise_on_failure:
            raise MonitorViolation(monitor, msg)
        if len(FAILURES) < 200:
            FAILURES.append((monitor, msg))
        _count(f"{monitor}.failed")

    # -- Project.connect post-condition
    def links_post(self, result=None):
        _count("links_consistent.evaluations")
        p = links_consistent(self)
        if p:
            fail("links_consistent", "; ".join(p[:3]))
        return True

    def index_post(self, result=None):
        _count("index_coherent.evaluations")
        p = index_coherent(self)
        if p:
            fail("index_coherent", "; ".join(p[:3]))
        return True

    def wrap_post(cls, name, post):
        orig = getattr(cls, name)
        _orig[(cls, name)] = orig
        if icontract is not None:
            def cond(self, result):
                return post(self, result)
            cond.__name__ = f"{post.__name__}_{name}"
            wrapped = icontract.ensure(cond, error=ContractBroken)(orig)
        else:
            @functools.wraps(orig)
            def wrapped(self, *a, **kw):
                r = orig(self, *a, **kw)
                post(self, r)
                return r
        setattr(cls, name, wrapped)

    wrap_post(Project, "connect", links_post)
    for n in ("attach_module", "attach_pattern", "new_module", "__iadd__"):
        wrap_post(Project, n, index_post)

    # -- save purity
    if snapshot_fn is not None:
        orig_write = Container.write_to
        _orig[(Container, "write_to")] = orig_write

        @functools.wraps(orig_write)
        def write_to(self, file):
            depth = COUNTERS.get("_write_depth", 0)
            COUNTERS["_write_depth"] = depth + 1
            try:
                if depth or not PURITY_ENABLED:
                    return orig_write(self, file)  # nested (MetaModule project, sampler effect): outer call covers it
                before = snapshot_fn(self)
                r = orig_write(self, file)
                after = snapshot_fn(self)
                _count("save_is_pure.evaluations")
                if before != after:
                    fail("save_is_pure", f"snapshot of {type(self).__name__} changed by write_to")
                return r
            finally:
                COUNTERS["_write_depth"] = depth
        Container.write_to = write_to

    # -- read_sunvox_file: every bound reference
    import rv.readers.reader as reader_mod
    orig_read = reader_mod.read_sunvox_file
    _orig[("read", None)] = orig_read

    @functools.wraps(orig_read)
    def read_sunvox_file(file_or_name):
        before = errors.RAISE_CONTROLLER_VALUE_ERRORS
        _count("strictness_restored.evaluations")
        try:
            obj = orig_read(file_or_name)
        except BaseException:
            if errors.RAISE_CONTROLLER_VALUE_ERRORS is not before:
                fail("strictness_restored", f"flag {before!r} -> {errors.RAISE_CONTROLLER_VALUE_ERRORS!r} after a failed load")
            raise
        if errors.RAISE_CONTROLLER_VALUE_ERRORS is not before:
            fail("strictness_restored", f"flag {before!r} -> {errors.RAISE_CONTROLLER_VALUE_ERRORS!r} after load")
        if isinstance(obj, Project):
            _count("loaded_project.evaluations")
            p = index_coherent(obj)
            if p:
                fail("index_coherent", "after load: " + "; ".join(p[:3]))
        return obj

    n = rebind("read_sunvox_file", orig_read, read_sunvox_file)
    COUNTERS["read_sunvox_file.names_rebound"] = n
    _installed = True


def rebind(name, old, new):
    """Replace every module-global binding of ``old`` called ``name`` in rv.* by ``new``."""
    n = 0
    for modname, mod in list(sys.modules.items()):
        if mod is None or not (modname == "rv" or modname.startswith("rv.")):
            continue
        if getattr(mod, name, None) is old:
            setattr(mod, name, new)
            n += 1
    return n


def take_failures():
    out = list(FAILURES)
    FAILURES.clear()
    return out
