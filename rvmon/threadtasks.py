"""Task factories for rvmon.sched: what the threads of a multi-threaded application do, each on ITS OWN objects.

Two families, never mixed:
 * `loads_mix`:   loading / saving / attaching / note edits.  The library switches the process-wide strictness setting off
                  while a load runs (by design), so nothing in this mix probes strictness, and all files hold in-range values.
 * `quiet_mix`:   no loads or clones at all: construction, saving, MultiCtl fan-out, MetaModule mirroring, strictness probes.
"""
import hashlib
import random

from . import build, snapshot
from .sched import YieldingReader, YieldingWriter


def _snap(o):
    import rv.api as api
    return build.norm(snapshot.snap_project(o) if isinstance(o, api.Project) else snapshot.snap_synth(o), "after")


def gapped_project(k=0, version=None):
    """[Output, gen, None, echo, reverb, None, amp] with links across the gaps; a pattern addressing the late modules."""
    import rv.api as api
    p = api.Project()
    gen = p.new_module(api.m.Generator, name=f"gen{k}")
    p.attach_module(None)
    echo = p.new_module(api.m.Echo, name=f"echo{k}")
    rev = p.new_module(api.m.Reverb, name=f"rev{k}")
    p.attach_module(None)
    amp = p.new_module(api.m.Amplifier, name=f"amp{k}", volume=300 + k)
    gen >> echo >> rev >> amp >> p.output
    gen >> amp
    pat = api.Pattern(tracks=2, lines=4, name=f"pat{k}")
    for ln in range(4):
        pat.data[ln][0].module = (3, 4, 6, 1)[ln] + 1
        pat.data[ln][1].vel = 10 + ln + k
    p.attach_pattern(pat)
    if version is not None:
        p.sunvox_version = version
    return p


def load_task(raw):
    def task(yp):
        import rv.api as api
        return _snap(api.read_sunvox_file(YieldingReader(raw, yp)))
    return task


def save_task(make):
    def task(yp):
        o = make()
        w = YieldingWriter(yp)
        o.write_to(w)
        return w.getvalue()
    return task


def world_task(seed):
    """Attachments to a project with empty positions: each new module takes the lowest empty position."""
    def task(yp):
        import rv.api as api
        rng = random.Random(seed)
        p = api.Project()
        for i in range(6):
            if rng.random() < 0.4:
                p.attach_module(None)
            else:
                p.new_module(api.m.Amplifier, name=f"a{i}")
        out = []
        for i in range(8):
            yp()
            r = rng.random()
            if r < 0.3:
                p.attach_module(None)
            elif r < 0.65:
                m = p.new_module(rng.choice([api.m.Filter, api.m.Lfo, api.m.Generator]), name=f"n{i}")
                out.append(m.index)
            else:
                m = api.m.Distortion(name=f"d{i}")
                p.attach_module(m)
                out.append(m.index)
            yp()
            out.append([None if x is None else x.name for x in p.modules])
        return out
    return task


def notes_task(seed):
    """Pattern images with 16-bit module numbers assigned and read back (outside any load)."""
    def task(yp):
        import struct
        import rv.api as api
        rng = random.Random(seed)
        p = api.Project()
        pat = api.Pattern(tracks=3, lines=4)
        p.attach_pattern(pat)
        out = []
        for r in range(5):
            img = b"".join(struct.pack("<BBHHH", rng.choice([0, 1, 60, 128]), rng.randrange(130), rng.choice([0, 255, 256, 299, 0x1234, 0xFFFF]),
                                       rng.randrange(65536), rng.randrange(65536)) for _ in range(12))
            yp()
            pat.raw_data = img
            yp()
            out.append((pat.raw_data == img, [n.module for line in pat.data for n in line]))
            n = pat.data[r % 4][r % 3]
            yp()
            n.raw_data = struct.pack("<BBHHH", 1, 2, 300 + r, 3, 4)
            yp()
            out.append(n.module)
        return out
    return task


def construct_task(k):
    def task(yp):
        import rv.api as api
        from rv.modules import MODULE_CLASSES
        out = []
        classes = [c for _t, c in sorted(MODULE_CLASSES.items()) if c.__name__ != "Output"]
        for i in range(6):
            cls = classes[(k * 5 + i * 7) % len(classes)]
            yp()
            m = cls()
            yp()
            out.append((cls.__name__, hashlib.sha1(api.Synth(m).read()).hexdigest()))
        return out
    return task


STRICT_ACCEPTED = []


def _strict_probe(api):
    from rv.errors import ControllerValueError
    try:
        api.m.Reverb().dry = 257
        STRICT_ACCEPTED.append("Reverb.dry = 257 inside a change handler")
        return "accepted"
    except ControllerValueError:
        return "refused"


def fanout_task(seed):
    def task(yp):
        import rv.api as api
        from rv.modules.multictl import MultiCtl
        rng = random.Random(seed)
        p = api.Project()
        amp = p.new_module(api.m.Amplifier)
        flt = p.new_module(api.m.Filter)
        mc = p.new_module(MultiCtl, mappings=[(0, 32768, 1, 0, 0, 0, 0, 0), (32768, 0, 2, 0, 0, 0, 0, 0)])
        mc >> [amp, flt]
        out = []
        # the destinations notify the application when they change; the application's handler works on OTHER modules and
        # is told "no" for an out-of-range value there, as anywhere else
        amp.on_volume_changed = lambda value, down=False, up=False: out.append(("in-handler", _strict_probe(api)))
        flt.on_freq_changed = lambda value, down=False, up=False: out.append(("in-handler", _strict_probe(api)))
        for _ in range(10):
            v = rng.randrange(32769)
            yp()
            mc.value = v
            yp()
            out.append((v, amp.volume, flt.freq))
        return out
    return task


def mirror_task(seed):
    def task(yp):
        import rv.api as api
        rng = random.Random(seed)
        inner = api.Project()
        amp = inner.new_module(api.m.Amplifier)
        mm = api.m.MetaModule(project=inner)
        mm.user_defined_controllers = 1
        mm.mappings.values[0] = mm.Mapping((1, 1))
        mm.update_user_defined_controllers()
        out = []
        mm.on_user_defined_1_changed = lambda value, down=False, up=False: out.append(("in-handler", _strict_probe(api)))
        amp.on_balance_changed = lambda value, down=False, up=False: out.append(("in-handler", _strict_probe(api)))
        for _ in range(8):
            # (values that are legal for both controllers: which of them the notification reaches is DESIGN decision 12,
            #  not judged - only that it is the same with and without other threads)
            v = rng.randint(0, 128)
            yp()
            try:
                amp.volume = v
            except Exception as e:
                out.append(type(e).__name__)
            yp()
            try:
                mm.user_defined_1 = rng.randint(0, 128)
            except Exception as e:
                out.append(type(e).__name__)
            yp()
            out.append((amp.volume, amp.balance, mm.user_defined_1))
        return out
    return task


def strict_task(seed):
    """Out-of-range assignments on the thread's own modules: each is refused (nobody is loading anything)."""
    def task(yp):
        import rv.api as api
        from rv.errors import ControllerValueError
        rng = random.Random(seed)
        out = []
        for _ in range(12):
            m, name, v = rng.choice([(api.m.Amplifier(), "volume", 1200), (api.m.Filter(), "freq", 99999), (api.m.Amplifier(), "balance", -500),
                                     (api.m.Reverb(), "dry", 257)])
            yp()
            try:
                setattr(m, name, v)
                out.append((name, "accepted"))
                STRICT_ACCEPTED.append(f"{type(m).__name__}.{name} = {v}")
            except ControllerValueError:
                out.append((name, "refused"))
            yp()
        return out
    return task


def loads_mix(rng, raws):
    """raws: in-range files (bytes) to be loaded by the loader threads."""
    tasks = []
    picks = rng.sample(raws, min(len(raws), rng.randint(2, 3)))
    for i, raw in enumerate(picks):
        tasks.append((f"load#{i}", load_task(raw)))
    k = rng.randrange(1000)
    tasks.append(("attach-world", world_task(k)))
    tasks.append(("note-images", notes_task(k + 1)))
    tasks.append(("save", save_task(lambda k=k: gapped_project(k % 7))))
    rng.shuffle(tasks)
    return tasks


def quiet_mix(rng):
    k = rng.randrange(1000)
    tasks = [("fan-out", fanout_task(k)), ("mirror", mirror_task(k + 1)), ("strict-probes", strict_task(k + 2)), ("construct", construct_task(k % 11)),
             ("save", save_task(lambda k=k: gapped_project(k % 7))), ("strict-probes-2", strict_task(k + 3))]
    rng.shuffle(tasks)
    return tasks


def standard_raws(seed, tier, n=4):
    """In-range files: two hand-made gapped projects (one stamped below 1.9.5.0) and generated ones."""
    from . import workload
    raws = [gapped_project(1).read(), gapped_project(2, version=(1, 9, 4, 0)).read()]
    for i in range(n):
        try:
            raws.append(workload.project_case(seed, 940000 + i, tier).obj.read())
        except Exception:
            pass
    return raws


def run_loads(res, prop, rng, seed, tier, n_schedules):
    import rv.errors as errors
    from . import sched
    raws = standard_raws(seed, tier)
    for r in range(n_schedules):
        sub = random.Random(rng.randrange(2 ** 40))
        state = sub.getstate()

        def make(sub=sub, state=state):
            sub.setstate(state)
            return loads_mix(sub, raws)
        sched.differential(res, prop, random.Random(rng.randrange(2 ** 40)), make, 1, "loads")
        # (overlapping loads leave the process-wide strictness setting wherever the last one to finish puts it - the
        #  library's documented design is a process-wide switch; not judged here, restored for what follows)
        errors.RAISE_CONTROLLER_VALUE_ERRORS = True


def run_quiet(res, prop, rng, n_schedules):
    from . import sched
    for r in range(n_schedules):
        sub = random.Random(rng.randrange(2 ** 40))
        state = sub.getstate()

        def make(sub=sub, state=state):
            sub.setstate(state)
            return quiet_mix(sub)
        del STRICT_ACCEPTED[:]
        sched.differential(res, prop, random.Random(rng.randrange(2 ** 40)), make, 1, "quiet")
        res.count("strict_probes_in_threads_and_handlers")
        if STRICT_ACCEPTED:
            res.violation(f"{prop}:threads:quiet:out-of-range-accepted", f"nobody is loading anything, yet an out-of-range assignment was accepted while other API calls were under way: "
                                                                         f"{STRICT_ACCEPTED[:3]}", {"family": "threads", "label": "quiet"})
            del STRICT_ACCEPTED[:]


def free_running_saves(res, prop, seed, shard, tier, n_objs=6, rounds=6):
    """Free-running threads (the interpreter switches as often as it can, anywhere), each constructing and saving ITS OWN
    objects; no loads.  Every save gives the bytes the same object gave when the process had one thread."""
    import sys
    import threading
    import rv.api as api
    from rv.modules import MODULE_CLASSES
    from . import monitors, workload
    objs = []
    for i in range(n_objs):
        try:
            c = workload.project_case(seed, 930000 + shard * 10 + i, tier)
            # every project also carries an instrument with samples and envelopes and an embedded project
            smp = c.obj.new_module(api.m.Sampler)
            s = smp.Sample()
            s.data, s.format, s.channels = bytes((i * 7 + j) & 0xFF for j in range(2000 + i)), smp.Format.int16, smp.Channels.stereo
            smp.samples[i % 8] = s
            c.obj.new_module(api.m.MetaModule)
            objs.append(c.obj)
        except Exception:
            res.count("threaded_case_unusable")
    if len(objs) < 2:
        return
    classes = [cls for _mt, cls in sorted(MODULE_CLASSES.items()) if cls.__name__ != "Output"]
    old_purity = monitors.PURITY_ENABLED
    monitors.PURITY_ENABLED = False          # (the ambient monitor's own bookkeeping is not thread-safe)
    try:
        want = [o.read() for o in objs]
        want_fresh = {cls.__name__: api.Synth(cls()).read() for cls in classes}
        bad = []

        def work(k):
            o = objs[k]
            for r in range(rounds):
                if o.read() != want[k]:
                    bad.append(("project", k, r))
                    return
                cls = classes[(k * 7 + r * 3) % len(classes)]
                if api.Synth(cls()).read() != want_fresh[cls.__name__]:
                    bad.append(("fresh " + cls.__name__, k, r))
                    return
        old = sys.getswitchinterval()
        sys.setswitchinterval(1e-6)
        try:
            ts = [threading.Thread(target=work, args=(k,)) for k in range(len(objs))]
            for t in ts:
                t.start()
            for t in ts:
                t.join()
        finally:
            sys.setswitchinterval(old)
    finally:
        monitors.PURITY_ENABLED = old_purity
    res.count("threaded_save_rounds", len(objs) * rounds)
    if bad:
        res.violation(f"{prop}:threads:free-running-saves", f"{len(objs)} threads each saving their own objects: {bad[0][0]} of thread {bad[0][1]} gave different bytes in round {bad[0][2]} "
                                                            f"than it gave single-threaded", {"family": "threaded-saves", "threads": len(objs)})
