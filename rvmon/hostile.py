"""Workloads that try to disturb class-level metadata (controller ranges, option tables, defaults) through ordinary
use of OTHER instances: loads of odd files, MetaModules mapping onto every controller kind, in-place edits of
payload lists, failed constructions.  Nothing here may change what a fresh module reports afterwards."""
import random
import struct
from io import BytesIO

from . import env, iffparse, spec


def run(res, tier, seed=13):
    import rv.api as api
    from rv.modules import MODULE_CLASSES
    rng = random.Random(env.shard_seed(seed))
    sp = spec.load()
    sources = []
    for f in env.fixtures():
        with open(f, "rb") as fh:
            sources.append(fh.read())
    n_api = 0
    for T, t in sorted(sp.items()):
        if T == "Output":
            continue
        cls = MODULE_CLASSES[t.mtype]
        m = cls()
        sources.append(api.Synth(m).read())
        # ordinary API use under every unit / enum member
        for c in t.controllers:
            if c.kind == "enum":
                for n, v in c.members:
                    setattr(m, c.name, v)
            elif c.kind == "dependent":
                for unit in c.ranges:
                    setattr(m, c.depends_on, getattr(cls, c.enum)[unit])
                    setattr(m, c.name, c.ranges[unit][1])
                    m.get_raw(c.name)
                    cls.controllers[c.name].pattern_value(m, c.ranges[unit][1])
        # the lenient mode is public API: out-of-range assignments there are kept (or not), but say nothing about the class
        from rv.errors import override_raise_controller_value_errors
        for c in t.controllers:
            if c.kind in ("range", "compact", "no_offset"):
                for v in (c.max + 1, c.min - 1, c.max + 1000):
                    try:
                        with override_raise_controller_value_errors(False):
                            setattr(m, c.name, v)
                        res.count("lenient_out_of_range_assignments")
                    except Exception:
                        res.count("lenient_out_of_range_assignments_raised")
                try:
                    setattr(m, c.name, c.default_value())
                except Exception:
                    pass
        # every representable integer of every multi-bit option, also those that name no enumeration member
        for o in t.options:
            if o.size > 1:
                for v in range(1 << o.size):
                    try:
                        setattr(m, o.name, v)
                        res.count("option_integer_assignments")
                    except Exception:
                        res.count("option_integer_assignments_raised")
        # in-place edits of every list-valued payload of this instance
        for attr in ("nv_curve", "vv_curve", "np_curve", "curve", "harmonic_freqs", "harmonic_volumes", "harmonic_widths", "custom_waveform"):
            ch = getattr(m, attr, None)
            if ch is not None and hasattr(ch, "values"):
                for i in range(0, len(ch.values), 3):
                    ch.values[i] = 40 if not isinstance(ch.values[i], float) else 0.25
                n_api += 1
        if hasattr(m, "harmonics"):
            for h in m.harmonics:
                h.volume, h.width, h.freq_hz = 40, 7, 1234
        if hasattr(m, "drawn_waveform"):
            for i in range(32):
                m.drawn_waveform.samples[i] = 5
        for env_name in ("volume_envelope", "panning_envelope", "pitch_envelope"):
            e = getattr(m, env_name, None)
            if e is not None:
                e.points.append((999, 0))
                if e.points:
                    e.points[0] = (1, 1)
        if hasattr(m, "mappings"):
            mp = m.mappings.values[0]
            for a in ("min", "max", "controller", "module"):
                if hasattr(mp, a):
                    setattr(mp, a, 3)
        # looking for attributes that do not exist (feature probing with hasattr / getattr-with-default, old unit-suffixed names)
        for c in t.controllers[:12]:
            for suffix in ("_hz", "_ms", "_pct", "_db", "_sec", "_semitones", "_raw", "__"):
                hasattr(m, c.name + suffix)
                getattr(m, c.name + suffix, None)
        res.count("missing_attribute_probes")
        # a MultiCtl pulling its value back from a controller that holds an out-of-range value (kept leniently)
        try:
            rp = api.Project()
            tgt = rp.new_module(cls)
            ranged = [c for c in t.controllers if c.kind in ("range", "compact", "dependent") and c.attached]
            if ranged:
                c0 = ranged[0]
                hi = c0.max if c0.kind != "dependent" else max(r_[1] for r_ in c0.ranges.values())
                with override_raise_controller_value_errors(False):
                    setattr(tgt, c0.name, hi + 1000)
                mc = rp.new_module(api.m.MultiCtl, mappings=[(0, 32768, cls.controllers[c0.name].number, 0, 0, 0, 0, 0)])
                mc >> tgt
                for prop_ in (False, True):
                    try:
                        mc.reflect(0, propagate=prop_)
                    except Exception:
                        pass
                res.count("reflect_on_out_of_range_targets")
        except Exception:
            res.count("reflect_on_out_of_range_targets_failed")
        # keywords the constructor does not know (typos): ignored or refused, they say nothing about the class
        for kwname in ("transpoze", "no_such_keyword", "volume_", "Volume"):
            try:
                cls(**{kwname: 12})
                res.count("unknown_keyword_constructions")
            except Exception:
                res.count("unknown_keyword_constructions_raised")
        # failed constructions: a keyword of the wrong type for every option / one controller
        for o in t.options:
            for bad in (None, "x", 1.5):
                try:
                    cls(**{o.name: bad})
                except Exception:
                    res.count("failed_constructions")
        if t.controllers:
            try:
                cls(**{t.controllers[0].name: "no such value"})
            except Exception:
                res.count("failed_constructions")
        # a MetaModule whose user-defined controllers map onto every controller of this type (value types are taken
        # over from the embedded controllers), built, updated, saved, loaded and cloned
        emb = api.Project()
        emb.new_module(cls)
        mm = api.m.MetaModule(project=emb)
        k = min(96, len(t.controllers))
        mm.user_defined_controllers = k
        for i in range(k):
            mm.mappings.values[i] = mm.Mapping((1, i))
        mm.update_user_defined_controllers()
        try:
            raw = api.Synth(mm).read()
            api.read_sunvox_file(BytesIO(raw)).module.clone()
            res.count("metamodule_mapping_loads")
        except Exception:
            res.count("metamodule_mapping_loads_raised")
        # the mappings live on: units of the embedded module change, slots are pointed at other controllers (other kinds of
        # value type), hidden and shown again, taken away - with the mappings re-derived after every step
        target = emb.modules[1]
        try:
            for c in t.controllers:
                if c.kind == "dependent":
                    for unit in c.ranges:
                        setattr(target, c.depends_on, getattr(cls, c.enum)[unit])
                        mm.update_user_defined_controllers()
            for shift in (1, 2, 5):
                for i in range(k):
                    mm.mappings.values[i] = mm.Mapping((1, (i + shift) % max(1, len(t.controllers))))
                mm.update_user_defined_controllers()
            mm.user_defined_controllers = max(0, k // 2)
            mm.update_user_defined_controllers()
            mm.user_defined_controllers = k
            mm.update_user_defined_controllers()
            for i in range(0, k, 2):
                mm.mappings.values[i] = mm.Mapping((0, 0))
            mm.update_user_defined_controllers()
            res.count("metamodule_remapping_rounds")
        except Exception:
            res.count("metamodule_remapping_raised")
    # labelled MetaModule controllers used through their `u_<label>` attribute names (assignments included)
    from . import aliasprobe
    from .runner import Result
    scratch = Result()
    aliasprobe.run(scratch, "X", random.Random(seed), 20 if tier == "quick" else 120, domain=True, pairs=True)
    res.count("hostile_alias_assignments", scratch.counters.get("alias_assignments", 0))
    per = 6 if tier == "quick" else 40
    n = 0
    for raw in sources:
        chunks = [(c[0], c[1]) for c in iffparse.parse(raw)]
        for k in range(per):
            out = [list(c) for c in chunks]
            kind = rng.choice(("cval-enum", "cval-enum", "styp", "chdt", "cval-big", "options-long"))
            idx_cval = [i for i, c in enumerate(out) if c[0] == b"CVAL"]
            if kind in ("cval-enum", "cval-big") and idx_cval:
                for i in rng.sample(idx_cval, min(len(idx_cval), rng.randint(1, 4))):
                    out[i][1] = struct.pack("<i", rng.choice([7, 8, 9, 10, 11, 17, 99, 255]) if kind == "cval-enum" else rng.choice([-5, 70000, 2 ** 31 - 1]))
            elif kind == "styp":
                idx = [i for i, c in enumerate(out) if c[0] == b"STYP"]
                if idx:
                    out[rng.choice(idx)][1] = rng.choice([b"Resampler\0", b"Amplifier2\0", b"New module\0", b"\0"])
            elif kind == "options-long":
                # an options record longer than the specification knows, with non-zero surplus bytes ("newer SunVox")
                idx = [i for i, c in enumerate(out) if c[0] == b"CHDT" and 0 < len(c[1]) <= 16]
                if idx:
                    i = rng.choice(idx)
                    out[i][1] = out[i][1] + bytes(rng.randrange(1, 256) for _ in range(rng.randint(1, 6)))
            else:
                idx = [i for i, c in enumerate(out) if c[0] == b"CHDT" and 0 < len(c[1]) <= 64]
                if idx:
                    i = rng.choice(idx)
                    out[i][1] = bytes(rng.randrange(256) for _ in range(len(out[i][1])))
            try:
                o = api.read_sunvox_file(BytesIO(iffparse.build(out)))
                res.count("hostile_loads_completed")
                try:
                    o.read()
                except Exception:
                    res.count("hostile_resaves_raised")
            except Exception:
                res.count("hostile_loads_raised")
            n += 1
    res.count("hostile_loads", n)
    res.count("hostile_api_edits", n_api)
    # requests the library may well refuse, made through its public helpers: macro bundles onto controllers that are NOT exposed
    # as CVALs (the Sampler's record fields, hidden MetaModule slots), enum controllers handed odd spellings of member names
    from rv.modules.multictl import MultiCtl
    n_req = 0
    for cname in ("volume_fadeout", "vibrato_depth", "vibrato_rate", "vibrato_attack", "vibrato_type"):
        try:
            p = api.Project()
            smp = p.new_module(api.m.Sampler)
            MultiCtl.macro(p, (smp, cname), (smp, "volume"))
        except Exception:
            pass
        n_req += 1
    try:
        p = api.Project()
        mm = p.new_module(api.m.MetaModule)
        MultiCtl.macro(p, (mm, "user_defined_40"))
    except Exception:
        pass
    for T, t in sorted(sp.items()):
        cls = MODULE_CLASSES[t.mtype]
        for c in t.controllers:
            if c.kind != "enum":
                continue
            members = [n_ for n_, _v in c.members]
            for name in members[:3]:
                for spelling in (name.upper(), name.replace("_", " ").title(), name.replace("_", "-"), " " + name + " ", name.capitalize(), name + "s"):
                    try:
                        setattr(cls(), c.name, spelling)
                    except Exception:
                        pass
                    n_req += 1
    # type NAMES where classes are expected (any spelling), and a MetaModule file whose embedded project is larger than the
    # module-position controllers were specified for, with stored positions beyond their range
    for spelling in ("Lfo", "lfo", "LFO", "analog_generator", "Analog generator", "MetaModule", "metamodule", "Sampler ", "Output", "Amplifier"):
        try:
            api.Project().new_module(spelling)
        except Exception:
            pass
        try:
            api.Project().new_module(spelling, name="x")
        except Exception:
            pass
        n_req += 1
    try:
        inner = api.Project()
        for _ in range(300):
            inner.new_module(api.m.Amplifier)
        big = api.m.MetaModule(project=inner)
        chunks = [(c[0], c[1]) for c in iffparse.parse(api.Synth(big).read())]
        ctl_names = [n_ for n_, c in type(big).controllers.items() if c.attached(big)]
        cv = [k for k, c in enumerate(chunks) if c[0] == b"CVAL"]
        for nm, v in (("input_module", 290),):
            if nm in ctl_names:
                chunks[cv[ctl_names.index(nm)]] = (b"CVAL", struct.pack("<i", v))
        o = api.read_sunvox_file(BytesIO(iffparse.build(chunks)))
        o.module.clone()
        n_req += 1
    except Exception:
        pass
    res.count("hostile_helper_requests", n_req)
