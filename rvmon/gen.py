"""Seeded generators of abstract descriptions (ADs) in the shape produced by rvmon.snapshot.

Knows nothing about rv: domains come from rvmon.spec and from the documented field widths
(DESIGN.md 1.4).  Values are biased to boundaries and fields that could be confused get distinct values.
"""
import struct

from . import spec

U32 = 2 ** 32 - 1
I32_MIN, I32_MAX = -2 ** 31, 2 ** 31 - 1

ALPHABET = ["a", "Z", "0", " ", "_", "-", "é", "ß", "Ж", "中", "日", "́", "€", "😀", "𝄞", "\t", "~", "'", '"', "/",
            "\ufeff", "\u200b", "\xa0", "\n", "\r", "\x01", "\x7f", "\ufffd", "\u2028", "\U0010ffff", "\ue000", "\\", "%", "{"]
# characters that text-handling layers like to strip or reinterpret when they come FIRST or LAST
EDGE_CHARS = ["\ufeff", " ", "\t", "\n", "\xa0", "\u200b", "\ufffe", "\x01"]

NOTE_VALUES = list(range(0, 121)) + [128, 129, 130, 131, 132, 133, 134, 140]
MODULE_FLAG_BITS = [0, 1, 3, 4, 6, 7, 8, 10, 11, 13, 14, 15, 16, 17, 18, 19, 20, 21, 22, 23, 24, 25]


class Gen:
    def __init__(self, rng, tier="quick", max_lines=None):
        self.rng = rng
        self.sp = spec.load()
        self.types = sorted(T for T in self.sp if T != "Output")
        self.max_lines = max_lines or (64 if tier == "quick" else 512)
        self.type_cursor = rng.randrange(len(self.types))
        self.force_nest = 0  # C15: force a MetaModule inside every embedded project down to this depth

    # ------------------------------------------------------------- scalars
    def pick(self, lo, hi, default=None):
        r = self.rng
        c = r.random()
        if c < 0.12:
            return lo
        if c < 0.24:
            return hi
        if c < 0.30 and hi - lo >= 2:
            return lo + 1
        if c < 0.36 and hi - lo >= 2:
            return hi - 1
        if c < 0.42 and lo <= 0 <= hi:
            return 0
        if c < 0.50 and default is not None and lo <= default <= hi:
            return default
        return r.randint(lo, hi)

    def u32(self, default=None):
        return self.pick(0, U32, default)

    def i32(self, default=None):
        return self.pick(I32_MIN, I32_MAX, default)

    def text(self, max_chars=12, allow_empty=True):
        r = self.rng
        n = r.randint(0 if allow_empty else 1, max_chars)
        s = "".join(r.choice(ALPHABET) for _ in range(n))
        if s and r.random() < 0.12:
            s = r.choice(EDGE_CHARS) + s[1:]
        if s and r.random() < 0.08:
            s = s[:-1] + r.choice(EDGE_CHARS)
        return s

    def module_name(self):
        """Names whose UTF-8 form straddles byte 30-34 with multi-byte characters, and ordinary ones."""
        r = self.rng
        c = r.random()
        if c < 0.22:
            return self.text(10)
        if c < 0.25:
            # names that are also words of the format or of the library: type names, chunk ids, attribute names
            return r.choice(["Output", "output", "OUTPUT", "MetaModule", "Sampler", "Amplifier", "SEND", "None", "name", "Module", "Output ", "0"])
        if c < 0.35:
            return ""
        # build to a target byte length around the 32-byte limit
        target = r.choice([30, 31, 32, 33, 34, 35, 40, 64])
        s = ""
        while len(s.encode("utf8")) < target:
            s += r.choice(ALPHABET)
        if r.random() < 0.1:
            s = r.choice(EDGE_CHARS) + s[1:]
        return s

    def version(self, modern=True):
        r = self.rng
        if modern:
            return r.choice([(2, 1, 2, 1), (1, 9, 5, 0), (1, 9, 6, 1), (2, 0, 0, 0), (255, 255, 255, 255),
                             (r.randint(2, 255), r.randint(0, 255), r.randint(0, 255), r.randint(0, 255))])
        return r.choice([(1, 9, 4, 255), (1, 7, 0, 0), (0, 0, 0, 0), (1, 9, 4, 0)])

    # ------------------------------------------------------------- cells / patterns
    def cell(self, max_module=0xFFFF):
        r = self.rng
        e16 = [0, 1, 0xFF, 0x100, 0x7FFF, 0x8000, 0xFFFF]
        def w(mx=0xFFFF):
            v = r.choice(e16) if r.random() < 0.3 else r.randrange(65536)
            return min(v, mx)
        note = r.choice(NOTE_VALUES)
        vel = self.pick(0, 129)
        module, ctl, val = w(max_module), w(), w()
        if r.random() < 0.35:
            # column-sparse cells: only some columns carry a value (a module number alone, an effect alone, ...)
            keep = r.sample(range(5), r.randint(1, 2))
            note, vel, module, ctl, val = [v if i in keep else 0 for i, v in enumerate((note, vel, module or 1, ctl or 1, val or 1))]
            module = min(module, max_module)
        return bytes([note, vel, module & 0xFF, module >> 8, ctl & 0xFF, ctl >> 8, val & 0xFF, val >> 8])

    def pattern(self, max_module=0xFFFF):
        r = self.rng
        tracks = self.pick(1, 32, 4)
        lines = self.pick(1, self.max_lines, 32) if r.random() < 0.3 else r.randint(1, 16)
        style = r.choice(("random", "sparse", "empty"))
        cells = []
        for _ in range(tracks * lines):
            if style == "empty" or (style == "sparse" and r.random() < 0.85):
                cells.append(bytes(8))
            else:
                cells.append(self.cell(max_module))
        return {"kind": "pattern",
                "name": None if r.random() < 0.3 else self.text(10),
                "tracks": tracks, "lines": lines,
                "y_size": self.u32(32), "flags_PFLG": self.u32(0),
                "icon": bytes(r.randrange(256) for _ in range(32)),
                "fg_color": tuple(r.randrange(256) for _ in range(3)),
                "bg_color": tuple(r.randrange(256) for _ in range(3)),
                "flags_PFFF": self.u32(0), "x": self.i32(0), "y": self.i32(0),
                "cells": b"".join(cells)}

    def clone(self, n_patterns):
        r = self.rng
        return {"kind": "clone", "source": r.randrange(max(1, n_patterns)) if r.random() < 0.9 else self.u32(),
                "flags_PFFF": self.u32(1), "x": self.i32(0), "y": self.i32(0)}

    # ------------------------------------------------------------- controllers / options / cmid
    def controllers(self, t):
        r = self.rng
        vals = {}
        for c in t.controllers:
            if not c.attached or c.kind == "dependent":
                continue
            if c.kind == "bool":
                vals[c.name] = r.random() < 0.5
            elif c.kind == "enum":
                vals[c.name] = r.choice(c.members)[1]
            else:
                vals[c.name] = self.pick(c.min, c.max, c.default)
        for c in t.controllers:
            if c.kind == "dependent":
                unit_val = vals[c.depends_on]
                unit_name = [n for n, v in t.ctl(c.depends_on).members if v == unit_val][0]
                lo, hi = c.ranges[unit_name]
                vals[c.name] = self.pick(lo, hi, c.default)
        # keep spec order
        return {c.name: vals[c.name] for c in t.controllers if c.attached}

    def options(self, t):
        r = self.rng
        out = {}
        groups_on = set()
        for o in t.options:
            if o.min is not None and o.max is not None:
                out[o.name] = self.pick(o.min, o.max, 0)
            elif o.size == 1:
                v = r.random() < 0.5
                if v and any(x in groups_on for x in o.exclusive_of):
                    v = False
                if v and o.exclusive_of:
                    groups_on.add(o.name)
                out[o.name] = v
            else:
                out[o.name] = r.randrange(1 << o.size)
        if t.options and r.random() < 0.2:
            # every option at its specified default except ONE (a record that is "all defaults" but for a single bit)
            def dflt(o):
                d = o.default
                if o.enum:
                    d = dict(o.members)[spec.mangle(d)]
                return bool(d) if o.size == 1 and o.min is None else d
            one = r.choice(t.options)
            for o in t.options:
                if o is not one and o.name != "user_defined_controllers":
                    out[o.name] = dflt(o)
            if one.size == 1 and one.min is None:
                out[one.name] = not dflt(one)
                for x in one.exclusive_of:
                    if out[one.name]:
                        out[x] = False
        return out

    def cmid(self, names):
        r = self.rng
        out = {}
        for i, n in enumerate(names):
            if r.random() < 0.5:
                out[n] = (0, 0, 0, 0)
            else:
                # distinct per controller: parameter carries the position
                out[n] = (r.randint(0, 8), r.randrange(256), r.randint(0, 5), (i * 257 + r.randrange(256)) & 0xFFFF)
        return out

    # ------------------------------------------------------------- payloads
    def arr(self, n, lo, hi, default=None, positional=True):
        r = self.rng
        style = r.choice(("default", "random", "extremes", "positional")) if default is not None else r.choice(("random", "extremes", "positional"))
        if style == "default":
            return list(default)
        if style == "random":
            return [r.randint(lo, hi) for _ in range(n)]
        if style == "extremes":
            return [r.choice((lo, hi)) for _ in range(n)]
        span = hi - lo + 1
        return [lo + (i * 37 + 11) % span for i in range(n)]

    def f32(self):
        r = self.rng
        c = r.random()
        if c < 0.2:
            v = r.choice([0.0, 1.0, -1.0, 0.5, -0.25, 3.4028234663852886e38, -3.4028234663852886e38, 1.401298464324817e-45])
        else:
            v = r.uniform(-1.0, 1.0)
        return struct.unpack("<f", struct.pack("<f", v))[0]

    def payload(self, T, depth):
        r = self.rng
        t = self.sp[T]
        def chunk_default(name):
            for ch in t.chunks:
                if ch.get("name") == name:
                    d = ch.get("default")
                    if isinstance(d, list):
                        return d
                    return [d] * ch["length"] if isinstance(d, int) else None
            return None
        if T == "MultiSynth":
            return {"nv_curve": self.arr(128, 0, 255, [255] * 128),
                    "vv_curve": self.arr(257, 0, 255, chunk_default("velocity_velocity_curve")),
                    "np_curve": self.arr(128, 0, 65535, chunk_default("note_pitch_curve"))}
        if T == "MultiCtl":
            maps = []
            for i in range(16):
                if r.random() < 0.4:
                    maps.append((0, 0x8000, 0, 0, 0, 0, 0, 0))
                else:
                    maps.append(tuple(self.pick(0, U32) for _ in range(8)))
            return {"mappings": maps, "curve": self.arr(257, 0, 65535, chunk_default("curve"))}
        if T == "WaveShaper":
            return {"curve": self.arr(256, 0, 65535, chunk_default("curve"))}
        if T == "SpectraVoice":
            types = [v for _n, v in t.enums["HarmonicType"]]
            return {"harmonic_freqs": self.arr(16, 0, 65535, [0x044A] + [0] * 15),
                    "harmonic_volumes": self.arr(16, 0, 255, [255] + [0] * 15),
                    "harmonic_widths": self.arr(16, 0, 255, [3] + [0] * 15),
                    "harmonic_types": [r.choice(types) for _ in range(16)]}
        if T in ("AnalogGenerator", "Generator"):
            default = [0, -100, -90, 0, 90, -119, -20, 45, 2, -20, 111, -23, 2, -98, 60, 32,
                       100, 50, 0, -50, 65, 98, 50, 32, -90, -120, 100, 90, 59, 21, 0, 54]
            return {"drawn_waveform": self.arr(32, -128, 127, default), "drawn_waveform_format": 1, "drawn_waveform_freq": 44100}
        if T == "Fmx":
            if r.random() < 0.3:
                return {"custom_waveform": [0.0] * 256}
            return {"custom_waveform": [self.f32() for _ in range(256)]}
        if T == "VorbisPlayer":
            c = r.random()
            if c < 0.3:
                return {"data": b""}
            return {"data": bytes(r.randrange(256) for _ in range(r.choice([1, 7, 64, 1000])))}
        if T == "MetaModule":
            return None  # filled by metamodule()
        if T == "Sampler":
            return self.sampler_payload(depth)
        return {}

    def envelope(self, lo_y, defaults, long_ok=False):
        r = self.rng
        n = r.choice([0, 1, 2, 4, 12, 13, 64, r.randint(0, 64)])
        if long_ok and r.random() < 0.12:
            n = r.choice([255, 256, 257, 300])      # (volume / panning also have a one-byte legacy count and stop at 255)
        pts = []
        x = 0
        for i in range(n):
            x = min(65535, x + r.choice([0, 1, 8, 255, 4000]))
            y = lo_y + r.choice([0, 1, 0x200, 0x4000, 0x8000, 0xFFFF, r.randrange(65536)])
            pts.append((x if r.random() < 0.9 else r.randrange(65536), y))
        if r.random() < 0.25:
            pts = list(defaults)
        top = 255
        if r.random() < 0.2:
            # an envelope that differs from a freshly constructed one in exactly ONE field (the builder completes the
            # description with the constructed values of the other fields)
            full = {"points": pts, "sustain_point": self.pick(0, top, 0), "loop_start_point": self.pick(0, top, 0), "loop_end_point": self.pick(0, top, 0),
                    "enable": r.random() < 0.5, "sustain": r.random() < 0.5, "loop": r.random() < 0.5,
                    "ctl_index": self.pick(1, 255, 1), "gain_pct": self.pick(0, 255, 100), "velocity": self.pick(0, 255, 0)}
            full["only"] = r.choice(["ctl_index", "ctl_index", "gain_pct", "velocity", "sustain_point", "loop_start_point", "loop_end_point", "enable", "sustain", "loop", "points"])
            return full
        return {"points": pts,
                "sustain_point": self.pick(0, top, 0), "loop_start_point": self.pick(0, top, 0), "loop_end_point": self.pick(0, top, 0),
                "enable": r.random() < 0.5, "sustain": r.random() < 0.5, "loop": r.random() < 0.5,
                "ctl_index": self.pick(0, 255, 0), "gain_pct": self.pick(0, 255, 100), "velocity": self.pick(0, 255, 0)}

    def field_text(self, width):
        """Bytes for a fixed-width text field, as an application makes them from a str: UTF-8 with multi-byte characters, sometimes
        LONGER than the field (the field holds the first `width` bytes, wherever that cuts)."""
        r = self.rng
        target = r.choice([width - 1, width, width + 1, width + 2, width + 3, 2 * width])
        s = ""
        while len(s.encode("utf8")) < target:
            s += r.choice(["a", "Z", " ", "é", "ß", "Ж", "日", "€", "😀", "1"])
        return s.encode("utf8").rstrip(b"\0")

    def sample(self):
        r = self.rng
        fmt = r.choice([1, 2, 4])
        ch = r.choice([0, 8])
        frame = {1: 1, 2: 2, 4: 4}[fmt] * (2 if ch else 1)
        nframes = r.choice([0, 1, 3, 17, 256])
        extra = r.choice([0, 0, 0, 1]) if frame > 1 else 0  # odd tails: "all byte strings as sample data"
        data = bytes(r.randrange(256) for _ in range(nframes * frame + extra))
        name = bytes(r.choice(b"abcXYZ019 _\xff\x80") for _ in range(r.choice([0, 3, 21, 22])))
        if r.random() < 0.15:
            name = self.field_text(22)
        name = name.rstrip(b"\0")
        return {"data": data, "format": fmt, "channels": ch, "loop_type": r.choice([0, 1, 2]),
                "loop_start": self.u32(0), "loop_len": self.u32(0), "volume": self.pick(0, 255, 64), "finetune": self.pick(-128, 127, 100),
                "rate": self.u32(44100), "loop_sustain": r.random() < 0.5, "panning": self.pick(-128, 127, 0),
                "relative_note": self.pick(-128, 127, 16), "reserved2": self.pick(0, 255, 0), "name": name, "start_pos": self.u32(0)}

    def sampler_payload(self, depth):
        r = self.rng
        slots = set()
        c = r.random()
        if c < 0.15:
            slots = set()
        elif c < 0.3:
            slots = {0}
        elif c < 0.4:
            slots = {127}
        else:
            slots = set(r.sample(range(128), r.randint(1, 5))) | ({0} if r.random() < 0.5 else set())
        effect = None
        if depth < 2 and r.random() < 0.4:
            T = self.next_type(exclude=("MetaModule",) if depth >= 1 else ())
            effect = {"kind": "synth", "sunsynth_version": (2, 1, 2, 1), "module": self.module(T, "synth", depth + 1)}
        iname = bytes(r.choice(b"instrumentNAME 01") for _ in range(r.choice([0, 5, 22]))).rstrip(b"\0")
        if r.random() < 0.2:
            iname = self.field_text(22)
        return {
            "samples": {i: self.sample() for i in sorted(slots)},
            "volume_envelope": self.envelope(0, [(0, 0x8000), (8, 0), (0x80, 0), (0x100, 0)]),
            "panning_envelope": self.envelope(-0x4000, [(0, 0), (0x40, -0x2000), (0x80, 0x2000), (0xB4, 0)]),
            "pitch_envelope": self.envelope(-0x4000, [(0, 0), (0x40, 0)], long_ok=True),
            "effect_control_envelopes": [self.envelope(0, [(0, 0x8000), (0x40, 0x8000)], long_ok=True) for _ in range(4)],
            "note_samples": [self.pick(0, 255, 0) if r.random() < 0.5 else 0 for _ in range(119)],
            "vibrato_type": r.choice([0, 1, 2]), "vibrato_attack": self.pick(0, 255, 0), "vibrato_depth": self.pick(0, 255, 0),
            "vibrato_rate": self.pick(0, 63, 0), "volume_fadeout": self.pick(0, 8192, 0),
            "instrument_name": iname, "volume_old": self.pick(0, 255, 64), "ins_finetune": self.pick(-128, 127, 0),
            "ins_relative_note": self.pick(-128, 127, 0), "editor_cursor": self.i32(0), "editor_selected_size": self.i32(0),
            "version": self.pick(0, U32, 6), "max_version": self.pick(0, U32, 6),
            "unused1": self.u32(0), "unused2": self.pick(0, 65535, 0), "unused3": self.pick(0, 65535, 0),
            "unused4": self.u32(0), "unused5": self.pick(0, 255, 0), "unused6": self.u32(0),
            "effect": effect,
        }

    # ------------------------------------------------------------- modules
    def next_type(self, exclude=()):
        for _ in range(len(self.types)):
            self.type_cursor = (self.type_cursor + 1) % len(self.types)
            T = self.types[self.type_cursor]
            if T not in exclude:
                return T
        return "Amplifier"

    def flags(self, t):
        r = self.rng
        f = t.default_flags
        if r.random() < 0.6:
            for b in r.sample(MODULE_FLAG_BITS, r.randint(0, 4)):
                f |= 1 << b
        return f

    def module(self, T, ctx, depth=0, n_user=None):
        r = self.rng
        t = self.sp[T]
        ctl = self.controllers(t)
        d = {"type": t.mtype,
             "name": self.module_name(),
             "flags": self.flags(t),
             "color": tuple(r.randrange(256) for _ in range(3)),
             "midi_in_always": r.random() < 0.5,
             "midi_in_channel": self.pick(0, 16, 0),
             "midi_out_channel": self.pick(0, 16, 0),
             "midi_out_bank": self.pick(-1, I32_MAX, -1),
             "midi_out_program": self.pick(-1, I32_MAX, -1),
             "midi_out_name": None if r.random() < 0.6 else self.text(8, allow_empty=False),
             "finetune": self.i32(0), "relative_note": self.i32(0), "scale": self.u32(256)}
        # fields that could be swapped get distinct values
        while d["relative_note"] == d["finetune"]:
            d["relative_note"] = self.i32(0) ^ 1
        if ctx == "project":
            d["x"], d["y"], d["layer"] = self.i32(512), self.i32(512), self.pick(0, 7, 0)
            while d["y"] == d["x"]:
                d["y"] = r.randint(I32_MIN, I32_MAX)
            d["visualization"] = self.u32(0x000C0101)
            d["links"] = {"in": [], "in_slots": [], "out": [], "out_slots": []}
        d["controllers"] = ctl
        d["options"] = self.options(t)
        if T == "MetaModule":
            self.metamodule(d, depth, n_user)
        else:
            d["payload"] = self.payload(T, depth)
        names = list(d["controllers"])
        if T == "MetaModule":
            names += [f"user_defined_{i + 1}" for i in range(d["payload"]["count"])]
        d["cmid"] = self.cmid(names)
        return d

    def metamodule(self, d, depth, n_user=None):
        """Embedded project, mappings, labels, user-defined values established 'the public way'."""
        r = self.rng
        forced = ["MetaModule"] if self.force_nest > depth else None
        emb = self.project(depth + 1, max_modules=4, as_embedded=True, types=forced)
        n = n_user if n_user is not None else r.choice([0, 0, 1, 2, 3, 27, 95, 96, r.randint(0, 96)])
        d["options"]["user_defined_controllers"] = n
        mods = emb["modules"]
        mappings = []
        for i in range(96):
            c = r.random()
            if c < 0.35 or len(mods) < 2:
                mappings.append((0, 0))
            elif c < 0.45:
                mappings.append((r.choice([len(mods), len(mods) + 3, 0xFFFF]), r.randrange(40)))  # dangling module
            else:
                mi = r.randrange(1, len(mods))
                m = mods[mi]
                if m is None:
                    mappings.append((mi, r.randrange(8)))
                    continue
                nctl = self.n_class_controllers(m["type"])
                ci = r.randrange(nctl + 3) if nctl else r.randrange(3)  # sometimes beyond the list
                mappings.append((mi, ci))
        labels = {}
        for i in range(96):
            if r.random() < 0.2:
                labels[i] = self.text(8, allow_empty=True) if r.random() < 0.85 else r.choice(["%", "->", "***", "\u266a", "-", "_", "e\u0301", "\u2126", "A\u030a\u0327", "Arpeggiator", "volume"])
        # labels spelled exactly like the display name of the controller the slot is mapped onto ("Volume" on Amplifier.volume)
        for i, (mi, ci) in enumerate(mappings):
            if 0 < mi < len(mods) and mods[mi] is not None and r.random() < 0.15:
                t_ = spec.by_mtype().get(mods[mi]["type"])
                if t_ is not None and ci < len(t_.controllers):
                    labels[i] = t_.controllers[ci].name.replace("_", " ").title()
        d["payload"] = {"project": emb, "mappings": mappings, "labels_all": labels, "count": n,
                        "unmapped_values": {i: self.pick(0, 44100, 0) for i in range(96) if r.random() < 0.5}}
        return d

    def n_class_controllers(self, mtype):
        t = spec.by_mtype()[mtype]
        n = len(t.controllers)
        if mtype == "MetaModule":
            n += 96
        if mtype == "Sampler":
            n += 5
        return n

    # ------------------------------------------------------------- projects
    def project(self, depth=0, max_modules=8, as_embedded=False, types=None):
        r = self.rng
        modern = r.random() < 0.9
        nmod = r.randint(0, max_modules)
        if types:
            nmod = max(nmod, len(types) + 1)
        modules = [self.output_module()]
        for i in range(nmod):
            if r.random() < 0.15 and not types:
                modules.append(None)
                continue
            if types:
                T = types.pop(0)
            else:
                excl = ("MetaModule",) if depth >= 2 else ()
                T = self.next_type(exclude=excl)
                if T == "MetaModule" and depth >= 1 and r.random() < 0.5:
                    T = self.next_type(exclude=("MetaModule",))
            modules.append(self.module(T, "project", depth))
        while modules and modules[-1] is None:
            modules.pop()  # trailing empty slots carry no information (DESIGN 6.1)
        pats = []
        for i in range(r.choice([0, 0, 1, 2, 3, 4])):
            c = r.random()
            if c < 0.6:
                pats.append(self.pattern(0xFFFF if modern else 0xFF))
            elif c < 0.8:
                pats.append(self.clone(len(pats)))
            else:
                pats.append(None)
        d = {"kind": "project",
             "name": self.text(16),
             "initial_bpm": self.u32(125), "initial_tpl": self.u32(6), "global_volume": self.u32(80),
             "time_grid": self.u32(4), "time_grid2": self.u32(4), "flags": self.u32(0),
             "sunvox_version": self.version(modern), "based_on_version": self.version(r.random() < 0.8),
             "modules_scale": self.u32(256), "modules_zoom": self.u32(256),
             "modules_x_offset": self.i32(0), "modules_y_offset": self.i32(0),
             "modules_layer_mask": self.u32(0), "modules_current_layer": self.u32(0),
             "timeline_position": self.i32(0), "restart_position": self.i32(0),
             "selected_module": self.u32(0), "selected_generator": self.i32(-1),
             "current_pattern": self.u32(0), "current_track": self.u32(0), "current_line": self.u32(0),
             "receive_sync_midi": r.randrange(8), "receive_sync_other": r.randrange(8),
             "modules": modules, "patterns": pats,
             "link_ops": self.link_ops(modules)}
        while d["modules_y_offset"] == d["modules_x_offset"]:
            d["modules_y_offset"] = r.randint(I32_MIN, I32_MAX)
        return d

    def output_module(self):
        r = self.rng
        t = self.sp["Output"]
        return {"type": "Output", "name": "Output", "flags": self.flags(t),
                "color": tuple(r.randrange(256) for _ in range(3)),
                "midi_in_always": r.random() < 0.5, "midi_in_channel": self.pick(0, 16, 0),
                "midi_out_channel": self.pick(0, 16, 0), "midi_out_bank": self.pick(-1, I32_MAX, -1),
                "midi_out_program": self.pick(-1, I32_MAX, -1),
                "midi_out_name": None if r.random() < 0.7 else self.text(8, allow_empty=False),
                "finetune": self.i32(0), "relative_note": self.i32(0) | 1, "scale": self.u32(256),
                "x": self.i32(512), "y": self.i32(512) | 1, "layer": self.pick(0, 7, 0), "visualization": self.u32(0x000C0101),
                "links": {"in": [], "in_slots": [], "out": [], "out_slots": []},
                "controllers": {}, "options": {}, "cmid": {}, "payload": {}}

    def link_ops(self, modules):
        """Short C07-style sequences: (from, to, disconnect)."""
        r = self.rng
        live = [i for i, m in enumerate(modules) if m is not None]
        ops = []
        if len(live) < 2:
            return ops
        for _ in range(r.choice([0, 1, 3, 6, 12])):
            f, t = r.choice(live), r.choice(live)
            if f == t and r.random() < 0.8:
                continue
            ops.append((f, t, False))
        # free some slots in the middle, reconnect some
        for (f, t, _d) in list(ops):
            if r.random() < 0.3:
                ops.append((f, t, True))
                if r.random() < 0.4:
                    ops.append((f, t, False))
        return ops
