"""Entry point:  python -m rvmon.main <ID> [quick|thorough] [--replay path]"""
import os
import sys

from . import runner


def main(argv):
    if not argv:
        print("usage: check <ID> [quick|thorough] [--replay path]")
        return 64
    check = argv[0]
    tier = os.environ.get("VERIF_TIER", "quick")
    replay = None
    rest = argv[1:]
    while rest:
        a = rest.pop(0)
        if a in ("quick", "thorough"):
            tier = a
        elif a == "--replay":
            replay = rest.pop(0)
    if tier not in ("quick", "thorough"):
        tier = "quick"
    return runner.main_check(check, tier, replay)


if __name__ == "__main__":
    sys.exit(main(sys.argv[1:]))
