"""Independent SunVox decoder + encoder written from the documentation.  MUST NOT import rv.

Sources (DESIGN.md 1.5): docs/sunvox-file-format.rst, specs/fileformat.yaml (via rvmon.spec), and for ids the
.rst predates (FLGS, SFGS, SLnK) the separately maintained table src/ts/chunks/chunkTypes.ts.
decode(bytes) -> abstract description in the shape of rvmon.snapshot (file-level fields only) + a list of
structural problems.  encode(AD, **choices) -> bytes, making its own legal encoding choices.
"""
import struct

from . import iffparse, spec

ENC = "utf8"


class DecodeError(Exception):
    pass


def _cstr(b):
    i = b.find(b"\0")
    return (b if i < 0 else b[:i]).decode(ENC)


def _u32(b):
    if len(b) != 4:
        raise DecodeError(f"expected 4 bytes, got {len(b)}")
    return struct.unpack("<I", b)[0]


def _i32(b):
    if len(b) != 4:
        raise DecodeError(f"expected 4 bytes, got {len(b)}")
    return struct.unpack("<i", b)[0]


def _ver(b):
    if len(b) != 4:
        raise DecodeError("version chunk is not 4 bytes")
    return tuple(reversed(b))


PROJECT_U32 = {b"FLGS": "flags", b"BPM ": "initial_bpm", b"SPED": "initial_tpl", b"TGRD": "time_grid", b"TGD2": "time_grid2",
               b"GVOL": "global_volume", b"MSCL": "modules_scale", b"MZOO": "modules_zoom", b"LMSK": "modules_layer_mask",
               b"CURL": "modules_current_layer", b"SELS": "selected_module", b"PATN": "current_pattern", b"PATT": "current_track",
               b"PATL": "current_line"}
PROJECT_I32 = {b"MXOF": "modules_x_offset", b"MYOF": "modules_y_offset", b"TIME": "timeline_position", b"REPS": "restart_position",
               b"LGEN": "selected_generator"}
PROJECT_ORDER = [b"VERS", b"BVER", b"BPM ", b"SPED", b"TGRD", b"TGD2", b"GVOL", b"NAME", b"MSCL", b"MZOO", b"MXOF", b"MYOF",
                 b"LMSK", b"CURL", b"TIME", b"REPS", b"SELS", b"LGEN", b"PATN", b"PATT", b"PATL"]
PATTERN_ORDER = [b"PDTA", b"PNME", b"PCHN", b"PLIN", b"PYSZ", b"PFLG", b"PICO", b"PFGC", b"PBGC", b"PFFF", b"PXXX", b"PYYY"]
CLONE_ORDER = [b"PPAR", b"PFFF", b"PXXX", b"PYYY"]
MODULE_ORDER = [b"SFFF", b"SNAM", b"STYP", b"SFIN", b"SREL", b"SXXX", b"SYYY", b"SZZZ", b"SSCL", b"SVPR", b"SCOL", b"SMII", b"SMIN",
                b"SMIC", b"SMIB", b"SMIP", b"SLNK", b"CVAL", b"CMID", b"CHNK"]
PROJECT_DEFAULTS = {"flags": 0, "timeline_position": 0, "restart_position": 0}


def check_order(ids, order, problems, what):
    """Only the relative order of ids that are in the documented list is asserted."""
    pos = {cid: i for i, cid in enumerate(order)}
    last = -1
    for cid in ids:
        if cid in pos:
            if pos[cid] < last:
                problems.append(f"{what}: chunk {cid!r} appears after a chunk documented to follow it")
            last = max(last, pos[cid])


# =============================================================================== decoder
def decode(raw):
    """-> (AD, problems).  Raises DecodeError / iffparse.Malformed if the stream cannot be consumed."""
    chunks = iffparse.parse(raw)
    problems = []
    if not chunks:
        raise DecodeError("empty file")
    head = chunks[0]
    if head[1] != b"":
        problems.append(f"header chunk {head[0]!r} has a payload")
    if head[0] == b"SVOX":
        ad = decode_project(chunks[1:], problems)
    elif head[0] == b"SSYN":
        ad = decode_synth(chunks[1:], problems)
    else:
        raise DecodeError(f"unknown header chunk {head[0]!r}")
    return ad, problems


def decode_project(chunks, problems):
    d = {"kind": "project", "modules": [], "patterns": [], "name": None, "based_on_version": None,
         "receive_sync_midi": None, "receive_sync_other": None}
    d.update(PROJECT_DEFAULTS)
    i, n = 0, len(chunks)
    header_ids = []
    # ---- project header: up to the first pattern/module chunk
    while i < n and chunks[i][0] not in (b"PDTA", b"PPAR", b"PEND", b"SFFF", b"SEND"):
        cid, pl, _ = chunks[i]
        header_ids.append(cid)
        if cid == b"VERS":
            d["file_version"] = _ver(pl)
        elif cid == b"BVER":
            d["based_on_version"] = _ver(pl)
        elif cid == b"SFGS":
            w = _u32(pl)
            d["receive_sync_midi"], d["receive_sync_other"] = w & 7, (w >> 3) & 7
            if w >> 6:
                problems.append(f"SFGS has bits above the two 3-bit fields: {w:#x}")
        elif cid == b"NAME":
            if b"\0" not in pl:
                problems.append("NAME is not NUL-terminated")
            d["name"] = _cstr(pl)
        elif cid in PROJECT_U32:
            d[PROJECT_U32[cid]] = _u32(pl)
        elif cid in PROJECT_I32:
            d[PROJECT_I32[cid]] = _i32(pl)
        else:
            problems.append(f"unknown project header chunk {cid!r}")
        i += 1
    for cid in set(header_ids):
        if header_ids.count(cid) > 1:
            problems.append(f"project header chunk {cid!r} appears {header_ids.count(cid)} times")
    check_order(header_ids, PROJECT_ORDER, problems, "project header")
    # ---- patterns
    while i < n and chunks[i][0] in (b"PDTA", b"PPAR", b"PEND"):
        j = i
        while j < n and chunks[j][0] != b"PEND":
            j += 1
        if j >= n:
            raise DecodeError("pattern slot without PEND")
        d["patterns"].append(decode_pattern(chunks[i:j], problems))
        i = j + 1
    # ---- modules
    idx = 0
    while i < n:
        if chunks[i][0] not in (b"SFFF", b"SEND"):
            raise DecodeError(f"unexpected chunk {chunks[i][0]!r} where a module section should start")
        j = i
        while j < n and chunks[j][0] != b"SEND":
            j += 1
        if j >= n:
            raise DecodeError("module slot without SEND")
        d["modules"].append(decode_module(chunks[i:j], "project", idx, problems) if j > i else None)
        idx += 1
        i = j + 1
    return d


def decode_pattern(sec, problems):
    if not sec:
        return None
    ids = [c[0] for c in sec]
    f = {c[0]: c[1] for c in sec}
    for cid in set(ids):
        if ids.count(cid) > 1:
            problems.append(f"pattern chunk {cid!r} repeated")
    if ids[0] == b"PPAR":
        check_order(ids, CLONE_ORDER, problems, "pattern clone")
        for need in CLONE_ORDER:
            if need not in f:
                raise DecodeError(f"pattern clone lacks {need!r}")
        return {"kind": "clone", "source": _u32(f[b"PPAR"]), "flags_PFFF": _u32(f[b"PFFF"]), "x": _i32(f[b"PXXX"]), "y": _i32(f[b"PYYY"])}
    check_order(ids, PATTERN_ORDER, problems, "pattern")
    for need in (b"PDTA", b"PCHN", b"PLIN"):
        if need not in f:
            raise DecodeError(f"pattern lacks {need!r}")
    for need in PATTERN_ORDER:
        if need not in f and need != b"PNME":
            problems.append(f"pattern lacks {need!r}")
    tracks, lines = _u32(f[b"PCHN"]), _u32(f[b"PLIN"])
    if len(f[b"PDTA"]) != tracks * lines * 8:
        problems.append(f"PDTA has {len(f[b'PDTA'])} bytes for {lines} lines x {tracks} tracks")
    if b"PICO" in f and len(f[b"PICO"]) != 32:
        problems.append(f"PICO has {len(f[b'PICO'])} bytes")
    if (b"PFGC" in f and len(f[b"PFGC"]) != 3) or (b"PBGC" in f and len(f[b"PBGC"]) != 3):
        problems.append("pattern colour chunk is not 3 bytes")
    for cid in ids:
        if cid not in PATTERN_ORDER:
            problems.append(f"unknown pattern chunk {cid!r}")
    name = None
    if b"PNME" in f:
        if not f[b"PNME"].endswith(b"\0"):
            problems.append("PNME is not NUL-terminated")
        name = _cstr(f[b"PNME"])
    def opt(cid, fn):
        return fn(f[cid]) if cid in f else None
    return {"kind": "pattern", "name": name, "tracks": tracks, "lines": lines, "y_size": opt(b"PYSZ", _u32),
            "flags_PFLG": opt(b"PFLG", _u32), "icon": opt(b"PICO", bytes), "fg_color": opt(b"PFGC", tuple), "bg_color": opt(b"PBGC", tuple),
            "flags_PFFF": opt(b"PFFF", _u32), "x": opt(b"PXXX", _i32), "y": opt(b"PYYY", _i32), "cells": f[b"PDTA"]}


def decode_synth(chunks, problems):
    d = {"kind": "synth"}
    i = 0
    if chunks and chunks[0][0] == b"VERS":
        d["file_version"] = _ver(chunks[0][1])
        i = 1
    else:
        problems.append("synth has no VERS chunk after the header")
    if i >= len(chunks) or chunks[i][0] != b"SFFF":
        raise DecodeError("synth has no module section")
    j = i
    while j < len(chunks) and chunks[j][0] != b"SEND":
        j += 1
    if j >= len(chunks):
        raise DecodeError("synth module section without SEND")
    if j != len(chunks) - 1:
        problems.append(f"{len(chunks) - 1 - j} chunk(s) after the module's SEND")
    d["module"] = decode_module(chunks[i:j], "synth", 1, problems)
    return d


def decode_module(sec, ctx, index, problems):
    ids = [c[0] for c in sec]
    first = {}
    for c in sec:
        first.setdefault(c[0], c[1])
    where = f"module {index}"
    # ---- structural: order of the common section, single occurrence
    common = []
    for cid in ids:
        if cid == b"CHNM":
            break
        common.append(cid)
    check_order([c for c in common if c != b"SLnK"], MODULE_ORDER, problems, where)
    for cid in (b"SFFF", b"SNAM", b"STYP", b"SFIN", b"SREL", b"SXXX", b"SYYY", b"SZZZ", b"SSCL", b"SVPR", b"SCOL", b"SMII", b"SMIN",
                b"SMIC", b"SMIB", b"SMIP", b"SLNK", b"SLnK", b"CMID", b"CHNK"):
        if common.count(cid) > 1:
            problems.append(f"{where}: chunk {cid!r} appears {common.count(cid)} times")
    if ids[0] != b"SFFF":
        problems.append(f"{where}: section does not start with SFFF")
    d = {}
    d["flags"] = _u32(first[b"SFFF"])
    snam = first.get(b"SNAM")
    if snam is None:
        raise DecodeError(f"{where}: no SNAM")
    if len(snam) != 32:
        problems.append(f"{where}: SNAM is {len(snam)} bytes, documented 32")
    try:
        d["name"] = _cstr(snam)
    except UnicodeDecodeError:
        problems.append(f"{where}: SNAM is not valid UTF-8")
        d["name"] = None
    if b"STYP" in first:
        if not first[b"STYP"].endswith(b"\0"):
            problems.append(f"{where}: STYP is not NUL-terminated")
        d["type"] = _cstr(first[b"STYP"])
    else:
        d["type"] = "Output"
        if not (ctx == "project" and index == 0):
            problems.append(f"{where}: no STYP chunk")
    t = spec.by_mtype().get(d["type"])
    if t is None:
        raise DecodeError(f"{where}: unknown module type {d['type']!r}")
    for need in (b"SFIN", b"SREL", b"SSCL", b"SCOL", b"SMII", b"SMIC", b"SMIB", b"SMIP"):
        if need not in first:
            problems.append(f"{where}: lacks {need!r}")

    def opt(cid, fn):
        return fn(first[cid]) if cid in first else None
    d["finetune"], d["relative_note"] = opt(b"SFIN", _i32), opt(b"SREL", _i32)
    d["scale"] = opt(b"SSCL", _u32)
    if b"SCOL" in first and len(first[b"SCOL"]) != 3:
        problems.append(f"{where}: SCOL is {len(first[b'SCOL'])} bytes")
    d["color"] = opt(b"SCOL", tuple)
    w = opt(b"SMII", _u32)
    d["midi_in_always"], d["midi_in_channel"] = (None, None) if w is None else (bool(w & 1), w >> 1)
    d["midi_out_name"] = None
    if b"SMIN" in first:
        if not first[b"SMIN"].endswith(b"\0"):
            problems.append(f"{where}: SMIN is not NUL-terminated")
        d["midi_out_name"] = _cstr(first[b"SMIN"]) or None
    d["midi_out_channel"] = opt(b"SMIC", _u32)
    d["midi_out_bank"], d["midi_out_program"] = opt(b"SMIB", _i32), opt(b"SMIP", _i32)
    if ctx == "project":
        for need in (b"SXXX", b"SYYY", b"SZZZ", b"SVPR", b"SLNK"):
            if need not in first:
                problems.append(f"{where}: lacks {need!r} (project context)")
        d["x"], d["y"] = opt(b"SXXX", _i32), opt(b"SYYY", _i32)
        d["layer"] = opt(b"SZZZ", _u32)
        d["visualization"] = opt(b"SVPR", _u32)
        sl = first.get(b"SLNK", b"")
        if len(sl) % 4:
            problems.append(f"{where}: SLNK length {len(sl)} is not a multiple of 4")
        links = list(struct.unpack("<" + "i" * (len(sl) // 4), sl[:len(sl) // 4 * 4]))
        slots = None
        if b"SLnK" in first:
            s2 = first[b"SLnK"]
            slots = list(struct.unpack("<" + "i" * (len(s2) // 4), s2[:len(s2) // 4 * 4]))
            if len(slots) != len(links):
                problems.append(f"{where}: SLnK has {len(slots)} entries, SLNK has {len(links)}")
        d["links"] = {"in": links, "in_slots": slots}
    else:
        for bad in (b"SXXX", b"SYYY", b"SZZZ", b"SVPR", b"SLNK", b"SLnK"):
            if bad in first:
                problems.append(f"{where}: chunk {bad!r} present in a stand-alone synth (documented as not stored)")
    # ---- module-specific chunks
    ms = {}
    chnk = None
    cur = None
    cvals = []
    seen_chnk = False
    for cid, pl, _ in sec:
        if cid == b"CVAL":
            if seen_chnk:
                problems.append(f"{where}: CVAL after CHNK")
            cvals.append(_i32(pl))
        elif cid == b"CHNK":
            chnk = _u32(pl)
            seen_chnk = True
        elif cid == b"CHNM":
            if not seen_chnk:
                problems.append(f"{where}: CHNM before CHNK")
            num = _u32(pl)
            if num in ms:
                problems.append(f"{where}: CHNM {num} appears twice")
            cur = ms.setdefault(num, {"chdt": None, "chff": None, "chfr": None})
            cur["_has_data"] = False
        elif cid == b"CHDT":
            if cur is None or cur.get("_has_data"):
                problems.append(f"{where}: CHDT does not follow its CHNM")
            else:
                cur["chdt"] = pl
                cur["_has_data"] = True
        elif cid == b"CHFF":
            if cur is None or not cur.get("_has_data"):
                problems.append(f"{where}: CHFF without CHNM/CHDT")
            else:
                cur["chff"] = _u32(pl)
        elif cid == b"CHFR":
            if cur is None or not cur.get("_has_data"):
                problems.append(f"{where}: CHFR without CHNM/CHDT")
            else:
                cur["chfr"] = _u32(pl)
        elif cid not in MODULE_ORDER and cid != b"SLnK":
            problems.append(f"{where}: unknown module chunk {cid!r}")
    for num, ent in ms.items():
        if ent["chdt"] is None:
            problems.append(f"{where}: CHNM {num} has no CHDT")
        if chnk is None or num >= chnk:
            problems.append(f"{where}: CHNM {num} is not below the declared CHNK count {chnk}")
    # ---- options (needed before controllers: MetaModule user-controller count)
    d["options"] = {}
    if t.options:
        ent = ms.get(t.options_chnm)
        if ent is None or ent["chdt"] is None:
            problems.append(f"{where}: options chunk {t.options_chnm} missing")
        else:
            rec = ent["chdt"]
            need = max(o.byte for o in t.options) + 1
            if len(rec) != need:
                problems.append(f"{where}: options record is {len(rec)} bytes, highest option byte + 1 is {need}")
            for o in t.options:
                b = rec[o.byte] if o.byte < len(rec) else 0
                v = (b >> o.bit) & ((1 << o.size) - 1)
                if o.size == 1:
                    v = bool(v)
                    if o.inverted:
                        v = not v
                d["options"][o.name] = v
    # ---- controllers
    names = [c.name for c in t.controllers if c.attached]
    n_user = 0
    if d["type"] == "MetaModule":
        n_user = d["options"].get("user_defined_controllers", 0)
    if len(cvals) != len(names) + n_user:
        problems.append(f"{where} ({d['type']}): {len(cvals)} CVAL chunks for {len(names) + n_user} attached controllers")
    cm = first.get(b"CMID")
    if cvals:
        if cm is None:
            problems.append(f"{where}: controller values without CMID")
        elif len(cm) != 8 * len(cvals):
            problems.append(f"{where}: CMID is {len(cm)} bytes for {len(cvals)} controller values (documented 8 per value)")
    elif cm is not None:
        problems.append(f"{where}: CMID without controller values")
    raw_by_name = dict(zip(names, cvals))
    ctl = {}
    for c in t.controllers:
        if c.name not in raw_by_name:
            continue
        r = raw_by_name[c.name]
        if c.kind == "bool":
            ctl[c.name] = bool(r)
        elif c.kind == "enum":
            ctl[c.name] = r
        elif c.kind == "no_offset":
            ctl[c.name] = r
        elif c.kind == "dependent":
            ctl[c.name] = r  # all unit tables have min >= 0
        else:
            ctl[c.name] = r + c.min if c.min < 0 else r
    d["controllers"] = ctl
    d["user_values_raw"] = {f"user_defined_{i + 1}": v for i, v in enumerate(cvals[len(names):len(names) + n_user])}
    cmid = {}
    if cm:
        allnames = names + [f"user_defined_{i + 1}" for i in range(n_user)]
        for i, nm in enumerate(allnames):
            rec = cm[i * 8:i * 8 + 8]
            if len(rec) == 8:
                mt, ch, slope, _z, par, _z2, _tail = struct.unpack("<BBBBHBB", rec)
                cmid[nm] = (mt, ch, slope, par)
    d["cmid"] = cmid
    d["chnk"] = chnk
    d["payload"] = decode_payload(d["type"], t, ms, d, problems, where)
    return d


def _arr(ent, fmt, n, problems, where, what):
    if ent is None or ent["chdt"] is None:
        problems.append(f"{where}: {what} chunk missing")
        return None
    size = struct.calcsize("<" + fmt)
    if len(ent["chdt"]) != size * n:
        problems.append(f"{where}: {what} has {len(ent['chdt'])} bytes, documented {n} x {size}")
    k = len(ent["chdt"]) // size
    vals = list(struct.iter_unpack("<" + fmt, ent["chdt"][:k * size]))
    return [v[0] if len(v) == 1 else tuple(v) for v in vals]


DRAWN_DEFAULT = [0, -100, -90, 0, 90, -119, -20, 45, 2, -20, 111, -23, 2, -98, 60, 32,
                 100, 50, 0, -50, 65, 98, 50, 32, -90, -120, 100, 90, 59, 21, 0, 54]


def _spec_chunk_default(t, name):
    for ch in t.chunks:
        if ch.get("name") == name:
            return list(ch["default"])
    return None


def decode_payload(mtype, t, ms, d, problems, where):
    if mtype == "MultiSynth":
        np_ = _arr(ms.get(3), "H", 128, problems, where, "note-pitch curve") if 3 in ms else _spec_chunk_default(t, "note_pitch_curve")
        return {"nv_curve": _arr(ms.get(0), "B", 128, problems, where, "note-velocity curve"),
                "vv_curve": _arr(ms.get(2), "B", 257, problems, where, "velocity-velocity curve"),
                "np_curve": np_}
    if mtype == "MultiCtl":
        return {"mappings": _arr(ms.get(0), "IIIIIIII", 16, problems, where, "mappings"),
                "curve": _arr(ms.get(1), "H", 257, problems, where, "curve")}
    if mtype == "WaveShaper":
        return {"curve": _arr(ms.get(0), "H", 256, problems, where, "curve")}
    if mtype == "SpectraVoice":
        return {"harmonic_freqs": _arr(ms.get(0), "H", 16, problems, where, "harmonic freqs"),
                "harmonic_volumes": _arr(ms.get(1), "B", 16, problems, where, "harmonic volumes"),
                "harmonic_widths": _arr(ms.get(2), "B", 16, problems, where, "harmonic widths"),
                "harmonic_types": _arr(ms.get(3), "B", 16, problems, where, "harmonic types")}
    if mtype in ("Analog generator", "Generator"):
        if 0 not in ms:
            # documented: not written when unchanged; format mono 8-bit, 44100 Hz
            return {"drawn_waveform": list(DRAWN_DEFAULT), "drawn_waveform_format": 1, "drawn_waveform_freq": 44100}
        ent = ms[0]
        if len(ent["chdt"]) != 32:
            problems.append(f"{where}: drawn waveform has {len(ent['chdt'])} bytes, documented 32")
        if ent["chff"] not in (None, 1):
            problems.append(f"{where}: drawn waveform CHFF {ent['chff']} (documented mono 8-bit = 1)")
        if ent["chfr"] not in (None, 44100):
            problems.append(f"{where}: drawn waveform CHFR {ent['chfr']} (documented 44100)")
        return {"drawn_waveform": [b - 256 if b > 127 else b for b in ent["chdt"]],
                "drawn_waveform_format": ent["chff"] or 1, "drawn_waveform_freq": 44100 if ent["chfr"] is None else ent["chfr"]}
    if mtype == "FMX":
        return {"custom_waveform": _arr(ms.get(0), "f", 256, problems, where, "custom waveform")}
    if mtype == "Vorbis player":
        return {"data": (ms.get(0) or {}).get("chdt") or b""}
    if mtype == "MetaModule":
        n = d["options"].get("user_defined_controllers", 0)
        ent = ms.get(0)
        emb, sub = None, []
        if ent is None or ent["chdt"] is None:
            problems.append(f"{where}: MetaModule has no embedded project chunk")
        else:
            emb, sub = decode(ent["chdt"])
            problems.extend(f"{where}/embedded: {p}" for p in sub)
            if emb.get("kind") != "project":
                problems.append(f"{where}: embedded chunk is not a project")
        maps = _arr(ms.get(1), "HH", 96, problems, where, "MetaModule mappings")
        labels = {}
        for num, e in ms.items():
            if num >= 8:
                if num - 8 >= 96:
                    problems.append(f"{where}: label chunk {num} beyond 96 controllers")
                if e["chdt"] is not None:
                    if not e["chdt"].endswith(b"\0"):
                        problems.append(f"{where}: label {num - 8} not NUL-terminated")
                    labels[num - 8] = _cstr(e["chdt"])
        return {"project": emb, "mappings": maps, "labels": labels, "count": n}
    if mtype == "Sampler":
        return decode_sampler(ms, problems, where)
    return {}


def decode_envelope(ent, lo_y, problems, where, what):
    if ent is None or ent["chdt"] is None:
        problems.append(f"{where}: {what} envelope chunk missing")
        return None
    b = ent["chdt"]
    if len(b) < 0x14:
        problems.append(f"{where}: {what} envelope shorter than its 0x14-byte header")
        return None
    flags, ctl, gain, vel = struct.unpack_from("<HBBB", b, 0)
    count, sus, ls, le = struct.unpack_from("<HHHH", b, 8)
    if len(b) != 0x14 + 4 * count:
        problems.append(f"{where}: {what} envelope is {len(b)} bytes for {count} points (documented 0x14 + 4n)")
    pts = []
    for i in range(min(count, (len(b) - 0x14) // 4)):
        x, y = struct.unpack_from("<HH", b, 0x14 + 4 * i)
        pts.append((x, y + lo_y))
    return {"points": pts, "sustain_point": sus, "loop_start_point": ls, "loop_end_point": le,
            "enable": bool(flags & 1), "sustain": bool(flags & 2), "loop": bool(flags & 4),
            "ctl_index": ctl, "gain_pct": gain, "velocity": vel}


def decode_sampler(ms, problems, where):
    out = {}
    rec = (ms.get(0) or {}).get("chdt")
    if rec is None:
        problems.append(f"{where}: sampler has no instrument record")
        return out
    if len(rec) != 400:
        problems.append(f"{where}: sampler instrument record is {len(rec)} bytes, documented 400")
    rec = rec.ljust(400, b"\0")
    out["instrument_name"] = rec[4:26].rstrip(b"\0")
    samples_num = struct.unpack_from("<H", rec, 0x1c)[0]
    out["vibrato_type"], out["vibrato_attack"], out["vibrato_depth"], out["vibrato_rate"] = rec[0xee], rec[0xef], rec[0xf0], rec[0xf1]
    out["volume_fadeout"] = struct.unpack_from("<H", rec, 0xf2)[0]
    out["volume_old"] = rec[0xf4]
    out["ins_finetune"] = struct.unpack_from("<b", rec, 0xf5)[0]
    out["ins_relative_note"] = struct.unpack_from("<b", rec, 0xf7)[0]
    if rec[0xfc:0x100] != b"PMAS":
        problems.append(f"{where}: instrument signature is {rec[0xfc:0x100]!r}, documented 'PMAS'")
    out["version"] = struct.unpack_from("<I", rec, 0x100)[0]
    out["note_samples"] = list(rec[0x104:0x104 + 119])
    out["max_version"] = struct.unpack_from("<I", rec, 0x184)[0]
    out["editor_cursor"], out["editor_selected_size"] = struct.unpack_from("<ii", rec, 0x188)
    # legacy mirrors
    out["_legacy_note_samples"] = list(rec[0x24:0x84])
    out["_legacy_counts"] = (rec[0xe4], rec[0xe5])
    samples = {}
    for num, ent in ms.items():
        if num == 0 or num >= 0x101:
            continue
        if num % 2 == 1:
            idx = (num - 1) // 2
            h = ent["chdt"] or b""
            if len(h) != 44:
                problems.append(f"{where}: sample {idx} header is {len(h)} bytes, documented 44")
            h = h.ljust(44, b"\0")
            length, reppnt, replen, vol, fine, typ, pan, rel, res2 = struct.unpack_from("<IIIBbBBbB", h, 0)
            s = samples.setdefault(idx, {})
            s.update({"_frames": length, "loop_start": reppnt, "loop_len": replen, "volume": vol, "finetune": fine,
                      "loop_type": typ & 3, "loop_sustain": bool(typ & 4), "_type_format": typ & 0x30, "_type_stereo": bool(typ & 0x40),
                      "panning": pan - 0x80, "relative_note": rel, "reserved2": res2, "name": h[18:40].rstrip(b"\0"),
                      "start_pos": struct.unpack_from("<I", h, 40)[0]})
            if typ & 0x88:
                problems.append(f"{where}: sample {idx} type byte {typ:#x} has undocumented bits")
        else:
            idx = (num - 2) // 2
            s = samples.setdefault(idx, {})
            s["data"] = ent["chdt"] or b""
            ff = ent["chff"]
            if ff is None:
                problems.append(f"{where}: sample {idx} data has no CHFF")
                ff = 1
            s["format"], s["channels"] = ff & 7, ff & 8
            if ff & ~0xF or (ff & 7) not in (1, 2, 4):
                problems.append(f"{where}: sample {idx} CHFF {ff:#x} is not a documented format")
            s["rate"] = ent["chfr"]
            if ent["chfr"] is None:
                problems.append(f"{where}: sample {idx} data has no CHFR")
    for idx, s in samples.items():
        if "data" not in s or "loop_start" not in s:
            problems.append(f"{where}: sample {idx} lacks its header or data chunk")
            continue
        fmt_bits = {1: 0x00, 2: 0x10, 4: 0x20}.get(s["format"])
        if fmt_bits != s["_type_format"] or bool(s["channels"]) != s["_type_stereo"]:
            problems.append(f"{where}: sample {idx} header format bits disagree with CHFF")
        frame = {1: 1, 2: 2, 4: 4}.get(s["format"], 1) * (2 if s["channels"] else 1)
        if s["_frames"] != len(s["data"]) // frame:
            problems.append(f"{where}: sample {idx} header says {s['_frames']} frames, data has {len(s['data']) // frame}")
    if samples and samples_num != max(samples) + 1:
        problems.append(f"{where}: samples_num is {samples_num}, highest slot + 1 is {max(samples) + 1}")
    if not samples and samples_num != 0:
        problems.append(f"{where}: samples_num is {samples_num} with no samples")
    out["samples"] = {i: {k: v for k, v in s.items() if not k.startswith("_")} for i, s in samples.items() if "data" in s and "loop_start" in s}
    out["volume_envelope"] = decode_envelope(ms.get(0x102), 0, problems, where, "volume")
    out["panning_envelope"] = decode_envelope(ms.get(0x103), -0x4000, problems, where, "panning")
    out["pitch_envelope"] = decode_envelope(ms.get(0x104), -0x4000, problems, where, "pitch")
    out["effect_control_envelopes"] = [decode_envelope(ms.get(0x105 + i), 0, problems, where, f"effect control {i + 1}") for i in range(4)]
    out["effect"] = None
    if 0x10a in ms and ms[0x10a]["chdt"] is not None:
        eff, sub = decode(ms[0x10a]["chdt"])
        problems.extend(f"{where}/effect: {p}" for p in sub)
        if eff.get("kind") != "synth":
            problems.append(f"{where}: effect chunk is not a synth")
        out["effect"] = eff
    return out


# =============================================================================== comparison with a snapshot
def compare(snap, dec, path="", out=None):
    """Differences between a (normalised) snapshot and the decoded file content, over the fields the file defines."""
    from .snapshot import diff
    out = [] if out is None else out
    if snap is None or dec is None:
        if snap is not dec:
            out.append((path, "present" if snap is not None else None, "present" if dec is not None else None))
        return out
    kind = snap.get("kind")
    if kind == "project":
        for k in ("name", "flags", "initial_bpm", "initial_tpl", "global_volume", "time_grid", "time_grid2", "based_on_version",
                  "modules_scale", "modules_zoom", "modules_x_offset", "modules_y_offset", "modules_layer_mask", "modules_current_layer",
                  "timeline_position", "restart_position", "selected_module", "selected_generator", "current_pattern", "current_track",
                  "current_line", "receive_sync_midi", "receive_sync_other", "file_version"):
            a, b = snap.get(k), dec.get(k)
            if (tuple(a) if isinstance(a, (list, tuple)) else a) != (tuple(b) if isinstance(b, (list, tuple)) else b):
                out.append((f"{path}/{k}", a, b))
        if len(snap["modules"]) != len(dec["modules"]):
            out.append((f"{path}/modules#len", len(snap["modules"]), len(dec["modules"])))
        else:
            for i, (a, b) in enumerate(zip(snap["modules"], dec["modules"])):
                compare_module(a, b, f"{path}/modules[{i}]", out, "project")
        if len(snap["patterns"]) != len(dec["patterns"]):
            out.append((f"{path}/patterns#len", len(snap["patterns"]), len(dec["patterns"])))
        else:
            for i, (a, b) in enumerate(zip(snap["patterns"], dec["patterns"])):
                for p_, x, y in diff(a, b, f"{path}/patterns[{i}]"):
                    out.append((p_, x, y))
        return out
    if kind == "synth":
        if tuple(snap.get("file_version")) != tuple(dec.get("file_version", ())):
            out.append((f"{path}/file_version", snap.get("file_version"), dec.get("file_version")))
        compare_module(snap["module"], dec["module"], f"{path}/module", out, "synth")
        return out
    raise ValueError(kind)


def compare_module(a, b, path, out, ctx):
    from .snapshot import diff
    if a is None or b is None:
        if a is not b:
            out.append((path, "module" if a is not None else None, "module" if b is not None else None))
        return
    keys = ["type", "name", "flags", "finetune", "relative_note", "scale", "color", "midi_in_always", "midi_in_channel",
            "midi_out_name", "midi_out_channel", "midi_out_bank", "midi_out_program"]
    if ctx == "project":
        keys += ["x", "y", "layer", "visualization"]
    for k in keys:
        x, y = a.get(k), b.get(k)
        if k == "name" and a.get("type") == "Output":
            continue  # the output module's name is fixed by the API whatever the file says
        if (tuple(x) if isinstance(x, (list, tuple)) else x) != (tuple(y) if isinstance(y, (list, tuple)) else y) \
                or (isinstance(x, bool) != isinstance(y, bool)):
            out.append((f"{path}/{k}", x, y))
    ca = {k: v for k, v in a["controllers"].items() if not k.startswith("user_defined_")}
    for p_, x, y in diff(ca, b["controllers"], f"{path}/controllers"):
        out.append((p_, x, y))
    for p_, x, y in diff(a["options"], b["options"], f"{path}/options"):
        out.append((p_, x, y))
    for p_, x, y in diff(a["cmid"], b["cmid"], f"{path}/cmid"):
        out.append((p_, x, y))
    if ctx == "project":
        la = a["links"]
        lb = b["links"]
        ia = list(la["in"])
        sa = list(la["in_slots"])
        ib = list(lb["in"])
        while ib and ib[-1] == -1:
            ib.pop()
        if ia != ib:
            out.append((f"{path}/links/in", ia, ib))
        if lb["in_slots"] is not None:
            sb = list(lb["in_slots"])[:len(ib)]
            if sa != sb:
                out.append((f"{path}/links/in_slots", sa, sb))
        elif any(s not in (0, -1) for s in sa):
            out.append((f"{path}/links/in_slots", sa, "no SLnK chunk although a slot is neither 0 nor -1"))
    pa, pb = a.get("payload") or {}, b.get("payload") or {}
    t = a["type"]
    if t == "MetaModule":
        compare(pa.get("project"), pb.get("project"), f"{path}/payload/project", out)
        for k in ("mappings", "labels", "count"):
            x, y = pa.get(k), pb.get(k)
            if k == "mappings":
                x, y = [tuple(m) for m in x], [tuple(m) for m in (y or [])]
                y = y + [(0, 0)] * (96 - len(y))  # older files carry a shorter table (documented 64 / 27 entries)
            if x != y:
                out.append((f"{path}/payload/{k}", x, y))
        if pa.get("user_values_raw") != b.get("user_values_raw"):
            out.append((f"{path}/payload/user_values_raw", pa.get("user_values_raw"), b.get("user_values_raw")))
    elif t == "Sampler":
        for k in ("samples", "volume_envelope", "panning_envelope", "pitch_envelope", "effect_control_envelopes", "note_samples",
                  "vibrato_type", "vibrato_attack", "vibrato_depth", "vibrato_rate", "volume_fadeout", "instrument_name", "volume_old",
                  "ins_finetune", "ins_relative_note", "editor_cursor", "editor_selected_size", "version", "max_version"):
            for p_, x, y in diff(pa.get(k), pb.get(k), f"{path}/payload/{k}"):
                out.append((p_, x, y))
        ea, eb = pa.get("effect"), pb.get("effect")
        if (ea is None) != (eb is None):
            out.append((f"{path}/payload/effect", ea is not None, eb is not None))
        elif ea is not None:
            compare(ea, eb, f"{path}/payload/effect", out)
    else:
        for p_, x, y in diff({k: ([tuple(i) if isinstance(i, (list, tuple)) else i for i in v] if isinstance(v, list) else v) for k, v in pa.items()},
                             {k: ([tuple(i) if isinstance(i, (list, tuple)) else i for i in v] if isinstance(v, list) else v) for k, v in pb.items()},
                             f"{path}/payload"):
            out.append((p_, x, y))


# =============================================================================== encoder
class Choices:
    """Legal encoding choices the reference encoder makes on its own (none of them is what rv's writer does)."""

    def __init__(self, rng=None, **kw):
        r = rng
        self.header_perm = None            # permutation seed for the independent project header chunks
        self.time_reps_when_zero = False
        self.flgs_when_zero = True
        self.slnk2 = "native"              # native | always | never
        self.slnk_trailing = 0
        self.drawn_always = False          # write the drawn waveform chunk even when unchanged
        self.drawn_omit_ff_fr = False      # CHFF/CHFR are optional when default
        self.np_curve_always = False
        self.cval_keep = None              # {module index: number of CVAL chunks kept}
        self.legacy_header = False         # 1.x header subset: VERS, BPM, SPED, GVOL only
        self.smin_empty = False
        self.stale_after_nul = None        # seed: leave non-zero garbage after the first NUL of cstrings / inside SNAM padding
        self.snam_overlong = False         # older writers stored names longer than the 32-byte field verbatim (set by C05 only)
        if r is not None:
            self.header_perm = r.randrange(1 << 30) if r.random() < 0.5 else None
            self.time_reps_when_zero = r.random() < 0.5
            self.flgs_when_zero = r.random() < 0.5
            self.slnk2 = r.choice(("native", "always", "never", "native"))
            self.slnk_trailing = r.choice((0, 0, 1, 3))
            self.drawn_always = r.random() < 0.5
            self.drawn_omit_ff_fr = r.random() < 0.5
            self.np_curve_always = r.random() < 0.5
            self.stale_after_nul = r.randrange(1 << 30) if r.random() < 0.4 else None
        for k, v in kw.items():
            setattr(self, k, v)

    def describe(self):
        return {k: v for k, v in self.__dict__.items()}


def _c(cid, payload):
    return (cid, payload)


def _cstr_bytes(text, ch, salt=0):
    """A cstring ends at its first NUL; a writer re-using a buffer may leave stale bytes behind it."""
    b = text.encode(ENC) + b"\0"
    if ch is not None and ch.stale_after_nul is not None:
        import random as _random
        r = _random.Random(ch.stale_after_nul + salt)
        if r.random() < 0.6:
            b += bytes(r.choice(b"abcXYZ 0123\xc3\xa9") for _ in range(r.randint(1, 9))) + (b"\0" if r.random() < 0.5 else b"")
    return b


def _p32(v):
    return struct.pack("<I", v & 0xFFFFFFFF)


def _pi32(v):
    return struct.pack("<i", v)


def encode(ad, ch=None, depth=0):
    ch = ch or Choices()
    if ad["kind"] == "project":
        return iffparse.build(encode_project(ad, ch, depth))
    return iffparse.build(encode_synth(ad, ch, depth))


def encode_project(ad, ch, depth=0):
    import random as _random
    out = [_c(b"SVOX", b"")]
    fv = ad["file_version"]
    hdr = [(b"VERS", bytes(reversed(fv)))]
    if ch.legacy_header and depth == 0:
        hdr += [(b"BPM ", _p32(ad["initial_bpm"])), (b"SPED", _p32(ad["initial_tpl"])), (b"GVOL", _p32(ad["global_volume"]))]
    else:
        body = [(b"BVER", bytes(reversed(ad["based_on_version"])))]
        if ad["flags"] or ch.flgs_when_zero:
            body.append((b"FLGS", _p32(ad["flags"])))
        body.append((b"SFGS", _p32(ad["receive_sync_midi"] | (ad["receive_sync_other"] << 3))))
        for cid, key in ((b"BPM ", "initial_bpm"), (b"SPED", "initial_tpl"), (b"TGRD", "time_grid"), (b"TGD2", "time_grid2"), (b"GVOL", "global_volume")):
            body.append((cid, _p32(ad[key])))
        body.append((b"NAME", _cstr_bytes(ad["name"], ch, 1)))
        body += [(b"MSCL", _p32(ad["modules_scale"])), (b"MZOO", _p32(ad["modules_zoom"])), (b"MXOF", _pi32(ad["modules_x_offset"])),
                 (b"MYOF", _pi32(ad["modules_y_offset"])), (b"LMSK", _p32(ad["modules_layer_mask"])), (b"CURL", _p32(ad["modules_current_layer"]))]
        if ad["timeline_position"] or ch.time_reps_when_zero:
            body.append((b"TIME", _pi32(ad["timeline_position"])))
        if ad["restart_position"] or ch.time_reps_when_zero:
            body.append((b"REPS", _pi32(ad["restart_position"])))
        body += [(b"SELS", _p32(ad["selected_module"])), (b"LGEN", _pi32(ad["selected_generator"])), (b"PATN", _p32(ad["current_pattern"])),
                 (b"PATT", _p32(ad["current_track"])), (b"PATL", _p32(ad["current_line"]))]
        if ch.header_perm is not None and depth == 0:
            _random.Random(ch.header_perm).shuffle(body)
        hdr += body
    out += hdr
    for q in ad["patterns"]:
        if q is not None:
            if q["kind"] == "clone":
                out += [(b"PPAR", _p32(q["source"])), (b"PFFF", _p32(q["flags_PFFF"])), (b"PXXX", _pi32(q["x"])), (b"PYYY", _pi32(q["y"]))]
            else:
                out.append((b"PDTA", q["cells"]))
                if q["name"] is not None:
                    out.append((b"PNME", _cstr_bytes(q["name"], ch, 2 + len(out))))
                out += [(b"PCHN", _p32(q["tracks"])), (b"PLIN", _p32(q["lines"])), (b"PYSZ", _p32(q["y_size"])), (b"PFLG", _p32(q["flags_PFLG"])),
                        (b"PICO", q["icon"]), (b"PFGC", bytes(q["fg_color"])), (b"PBGC", bytes(q["bg_color"])), (b"PFFF", _p32(q["flags_PFFF"])),
                        (b"PXXX", _pi32(q["x"])), (b"PYYY", _pi32(q["y"]))]
        out.append((b"PEND", b""))
    for i, m in enumerate(ad["modules"]):
        if m is not None:
            out += encode_module(m, "project", i, ch, depth)
        out.append((b"SEND", b""))
    return out


def encode_synth(ad, ch, depth=0):
    out = [_c(b"SSYN", b""), (b"VERS", bytes(reversed(ad["file_version"])))]
    out += encode_module(ad["module"], "synth", 1, ch, depth)
    out.append((b"SEND", b""))
    return out


def stored_value(c, v, unit_member=None):
    if c.kind in ("bool", "enum"):
        return int(v)
    if c.kind in ("no_offset", "dependent"):
        return v
    return v - c.min if c.min < 0 else v


def encode_module(m, ctx, index, ch, depth):
    t = spec.by_mtype()[m["type"]]
    out = [(b"SFFF", _p32(m["flags"]))]
    name = m["name"].encode(ENC)
    assert len(name) <= 32, "caller must pass names already cut to the documented limit"
    snam = name.ljust(32, b"\0")
    if ch is not None and ch.stale_after_nul is not None and len(name) < 30:
        import random as _random
        r = _random.Random(ch.stale_after_nul + index * 7)
        if r.random() < 0.6:
            tail = bytes(r.choice(b"abcXYZ 0123") for _ in range(31 - len(name)))
            snam = name + b"\0" + tail
    if ch is not None and ch.snam_overlong and name.isascii() and index % 2 == 1:
        # 40 bytes, no terminator, a blank exactly at byte 32
        snam = name[:28].ljust(31, b"_") + b" " + b"overflow"
    out.append((b"SNAM", snam))
    if m["type"] != "Output":
        out.append((b"STYP", m["type"].encode(ENC) + b"\0"))
    out += [(b"SFIN", _pi32(m["finetune"])), (b"SREL", _pi32(m["relative_note"]))]
    if ctx == "project":
        out += [(b"SXXX", _pi32(m["x"])), (b"SYYY", _pi32(m["y"])), (b"SZZZ", _p32(m["layer"]))]
    out.append((b"SSCL", _p32(m["scale"])))
    if ctx == "project":
        out.append((b"SVPR", _p32(m["visualization"])))
    out += [(b"SCOL", bytes(m["color"])), (b"SMII", _p32(int(m["midi_in_always"]) | (m["midi_in_channel"] << 1)))]
    if m["midi_out_name"]:
        out.append((b"SMIN", _cstr_bytes(m["midi_out_name"], ch, 11 + index)))
    out += [(b"SMIC", _p32(m["midi_out_channel"])), (b"SMIB", _pi32(m["midi_out_bank"])), (b"SMIP", _pi32(m["midi_out_program"]))]
    if ctx == "project":
        links, slots = list(m["links"]["in"]), list(m["links"]["in_slots"])
        tail = [-1] * ch.slnk_trailing if links else []
        out.append((b"SLNK", struct.pack("<" + "i" * (len(links) + len(tail)), *(links + tail))))
        native = any(s not in (0, -1) for s in slots)
        if links and (ch.slnk2 == "always" or (ch.slnk2 == "native" and native)):
            out.append((b"SLnK", struct.pack("<" + "i" * (len(slots) + len(tail)), *(slots + tail))))
    # controller values
    names = [c.name for c in t.controllers if c.attached]
    vals = [stored_value(t.ctl(n), m["controllers"][n]) for n in names]
    cm = [m["cmid"].get(n, (0, 0, 0, 0)) for n in names]
    if m["type"] == "MetaModule":
        n_user = m["payload"]["count"]
        for i in range(n_user):
            nm = f"user_defined_{i + 1}"
            vals.append(m["payload"]["user_values_raw"][nm])
            cm.append(m["cmid"].get(nm, (0, 0, 0, 0)))
    keep = len(vals)
    if ch.cval_keep and index in ch.cval_keep and depth == 0 and m["type"] != "MetaModule":
        keep = min(keep, ch.cval_keep[index])
    for v in vals[:keep]:
        out.append((b"CVAL", _pi32(v)))
    if keep:
        out.append((b"CMID", b"".join(struct.pack("<BBBBHBB", mt, chn, sl, 0, par, 0, 0xFF if mt == 0 else 0xC8) for mt, chn, sl, par in cm[:keep])))
    spec_chunks = encode_payload(m, t, ch, depth)
    if spec_chunks:
        top = max(num for num, _d, _ff, _fr in spec_chunks) + 1
        declared = {"MetaModule": 104, "Sampler": 0x10B}.get(m["type"], max(top, 4))
        out.append((b"CHNK", _p32(max(declared, top))))
        for num, data, ff, fr in spec_chunks:
            out.append((b"CHNM", _p32(num)))
            out.append((b"CHDT", data))
            if ff is not None:
                out.append((b"CHFF", _p32(ff)))
            if fr is not None:
                out.append((b"CHFR", _p32(fr)))
    return out


def encode_options(m, t):
    rec = bytearray(max(o.byte for o in t.options) + 1)
    for o in t.options:
        v = m["options"][o.name]
        if o.size == 1:
            v = bool(v)
            if o.inverted:
                v = not v
        rec[o.byte] |= (int(v) & ((1 << o.size) - 1)) << o.bit
    return bytes(rec)


def encode_envelope(e, lo_y):
    flags = int(e["enable"]) | int(e["sustain"]) << 1 | int(e["loop"]) << 2
    b = struct.pack("<HBBB", flags, e["ctl_index"], e["gain_pct"], e["velocity"]) + b"\0\0\0"
    b += struct.pack("<HHHH", len(e["points"]), e["sustain_point"], e["loop_start_point"], e["loop_end_point"]) + b"\0\0\0\0"
    for x, y in e["points"]:
        b += struct.pack("<HH", x, y - lo_y)
    return b


def encode_payload(m, t, ch, depth):
    """-> list of (chnm, data, chff or None, chfr or None) in ascending chunk number."""
    ty = m["type"]
    pl = m.get("payload") or {}
    out = []
    if ty == "MultiSynth":
        out.append((0, bytes(pl["nv_curve"]), None, None))
        out.append((1, encode_options(m, t), None, None))
        out.append((2, bytes(pl["vv_curve"]), None, None))
        if ch.np_curve_always or pl["np_curve"] != _spec_chunk_default(t, "note_pitch_curve"):
            out.append((3, struct.pack("<128H", *pl["np_curve"]), None, None))
    elif ty == "MultiCtl":
        out.append((0, b"".join(struct.pack("<8I", *mp) for mp in pl["mappings"]), None, None))
        out.append((1, struct.pack("<257H", *pl["curve"]), None, None))
    elif ty == "WaveShaper":
        out.append((0, struct.pack("<256H", *pl["curve"]), None, None))
    elif ty == "SpectraVoice":
        out.append((0, struct.pack("<16H", *pl["harmonic_freqs"]), None, None))
        out.append((1, bytes(pl["harmonic_volumes"]), None, None))
        out.append((2, bytes(pl["harmonic_widths"]), None, None))
        out.append((3, bytes(pl["harmonic_types"]), None, None))
    elif ty in ("Analog generator", "Generator"):
        if ch.drawn_always or list(pl["drawn_waveform"]) != DRAWN_DEFAULT or (pl.get("drawn_waveform_format", 1), pl.get("drawn_waveform_freq", 44100)) != (1, 44100):
            fmt, freq = pl.get("drawn_waveform_format", 1), pl.get("drawn_waveform_freq", 44100)
            ff, fr = (None, None) if (ch.drawn_omit_ff_fr and (fmt, freq) == (1, 44100)) else (fmt, freq)
            out.append((0, bytes(v & 0xFF for v in pl["drawn_waveform"]), ff, fr))
        if ty == "Analog generator":
            out.append((1, encode_options(m, t), None, None))
    elif ty == "FMX":
        out.append((0, struct.pack("<256f", *pl["custom_waveform"]), None, None))
    elif ty == "Vorbis player":
        out.append((0, pl["data"], None, None))
    elif ty == "Sound2Ctl":
        out.append((0, encode_options(m, t), None, None))
    elif ty == "MetaModule":
        out.append((0, encode(pl["project"], ch, depth + 1), None, None))
        out.append((1, b"".join(struct.pack("<HH", a, b) for a, b in pl["mappings"]), None, None))
        out.append((2, encode_options(m, t), None, None))
        for i in sorted(pl["labels"]):
            out.append((8 + i, _cstr_bytes(pl["labels"][i], ch, 100 + i), None, None))
    elif ty == "Sampler":
        rec = bytearray(400)
        struct.pack_into("<I", rec, 0, pl.get("unused1", 0))
        rec[4:4 + len(pl["instrument_name"])] = pl["instrument_name"]
        struct.pack_into("<H", rec, 0x1a, pl.get("unused2", 0))
        struct.pack_into("<H", rec, 0x1c, (max(pl["samples"]) + 1) if pl["samples"] else 0)
        struct.pack_into("<H", rec, 0x1e, pl.get("unused3", 0))
        struct.pack_into("<I", rec, 0x20, pl.get("unused4", 0))
        rec[0x24:0x84] = bytes(pl["note_samples"][:96])
        # legacy mirrors are left zero: a current reader must take envelopes from their own chunks
        rec[0xee], rec[0xef], rec[0xf0], rec[0xf1] = pl["vibrato_type"], pl["vibrato_attack"], pl["vibrato_depth"], pl["vibrato_rate"]
        struct.pack_into("<H", rec, 0xf2, pl["volume_fadeout"])
        rec[0xf4] = pl["volume_old"]
        struct.pack_into("<b", rec, 0xf5, pl["ins_finetune"])
        rec[0xf6] = pl.get("unused5", 0)
        struct.pack_into("<b", rec, 0xf7, pl["ins_relative_note"])
        struct.pack_into("<I", rec, 0xf8, pl.get("unused6", 0))
        rec[0xfc:0x100] = b"PMAS"
        struct.pack_into("<I", rec, 0x100, pl["version"])
        rec[0x104:0x104 + 119] = bytes(pl["note_samples"])
        struct.pack_into("<I", rec, 0x184, pl["max_version"])
        struct.pack_into("<ii", rec, 0x188, pl["editor_cursor"], pl["editor_selected_size"])
        out.append((0, bytes(rec), None, None))
        for i in sorted(pl["samples"]):
            s = pl["samples"][i]
            frame = {1: 1, 2: 2, 4: 4}[s["format"]] * (2 if s["channels"] else 1)
            typ = s["loop_type"] | (4 if s["loop_sustain"] else 0) | {1: 0, 2: 0x10, 4: 0x20}[s["format"]] | (0x40 if s["channels"] else 0)
            h = struct.pack("<IIIBbBBbB", len(s["data"]) // frame, s["loop_start"], s["loop_len"], s["volume"], s["finetune"], typ,
                            s["panning"] + 0x80, s["relative_note"], s["reserved2"])
            h += s["name"].ljust(22, b"\0") + struct.pack("<I", s["start_pos"])
            out.append((2 * i + 1, h, None, None))
            out.append((2 * i + 2, s["data"], s["format"] | s["channels"], s["rate"]))
        out.append((0x101, encode_options(m, t), None, None))
        out.append((0x102, encode_envelope(pl["volume_envelope"], 0), None, None))
        out.append((0x103, encode_envelope(pl["panning_envelope"], -0x4000), None, None))
        out.append((0x104, encode_envelope(pl["pitch_envelope"], -0x4000), None, None))
        for k in range(4):
            out.append((0x105 + k, encode_envelope(pl["effect_control_envelopes"][k], 0), None, None))
        if pl["effect"] is not None:
            out.append((0x10a, encode(pl["effect"], ch, depth + 1), None, None))
    return out
