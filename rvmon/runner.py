"""Shard runner, evidence writer, verdict discipline (held / violated / inconclusive)."""
import fnmatch
import hashlib
import importlib
import json
import os
import shutil
import subprocess
import sys
import tempfile
import time

from . import env

PY = sys.executable
KNOWN = os.path.join(env.VERIF, "known_findings.json")
EVIDENCE_DIR = os.environ.get("RVMON_EVIDENCE_DIR") or os.path.join(env.VERIF, "evidence")  # the self-test redirects these
REPLAY_DIR = os.environ.get("RVMON_REPLAY_DIR") or os.path.join(env.VERIF, "replays")

MAX_SAMPLES = 6
MAX_CASES_PER_KEY = 3


def digest(obj) -> int:
    """Stable 64-bit digest of a JSON-able / repr-able case (for distinct counting)."""
    if not isinstance(obj, (bytes, bytearray)):
        obj = repr(obj).encode()
    return int.from_bytes(hashlib.blake2b(obj, digest_size=8).digest(), "big")


def jsonable(x, depth=0):
    if isinstance(x, (bytes, bytearray)):
        return {"hex": bytes(x).hex()} if len(x) <= 4096 else {"hex_prefix": bytes(x[:256]).hex(), "len": len(x)}
    if isinstance(x, dict):
        return {str(k): jsonable(v, depth + 1) for k, v in x.items()}
    if isinstance(x, (list, tuple, set, frozenset)):
        return [jsonable(v, depth + 1) for v in x]
    if isinstance(x, (str, int, float, bool)) or x is None:
        return x
    return repr(x)


class Result:
    """Accumulator used inside a shard."""

    def __init__(self):
        self.evaluations = 0
        self.digests = set()
        self.distinct = 0
        self.samples = []
        self.violations = []
        self.counters = {}
        self.sets = {}
        self.inconclusive = []
        self.exhaustive = None

    def count(self, name, n=1):
        self.counters[name] = self.counters.get(name, 0) + n

    def hist(self, name, key, n=1):
        d = self.counters.setdefault(name, {})
        key = str(key)
        d[key] = d.get(key, 0) + n

    def seen(self, name, item):
        self.sets.setdefault(name, set()).add(item)

    def case(self, case_repr, nontrivial=True):
        """Record one evaluated case; digest counted if non-trivial."""
        self.evaluations += 1
        if nontrivial:
            if len(self.digests) < 400000:
                self.digests.add(digest(case_repr))
            else:
                self.count("digest_cap_hits")

    def sample(self, s):
        if len(self.samples) < MAX_SAMPLES:
            self.samples.append(jsonable(s))

    def violation(self, key, what, case=None):
        n = sum(1 for v in self.violations if v["key"] == key)
        self.count("violations_raw")
        self.hist("violations_by_key", key)
        if n < MAX_CASES_PER_KEY:
            self.violations.append({"key": key, "what": str(what)[:2000], "case": jsonable(case)})

    def as_dict(self):
        return {
            "evaluations": self.evaluations,
            "digests": sorted(self.digests),
            "distinct": self.distinct,
            "samples": self.samples,
            "violations": self.violations,
            "counters": self.counters,
            "sets": {k: sorted(map(str, v)) for k, v in self.sets.items()},
            "inconclusive": self.inconclusive,
            "exhaustive": self.exhaustive,
        }


def _merge_counters(a, b):
    for k, v in b.items():
        if isinstance(v, dict):
            _merge_counters(a.setdefault(k, {}), v)
        elif isinstance(v, (int, float)):
            a[k] = a.get(k, 0) + v
        else:
            a[k] = v


def load_known(prop):
    try:
        with open(KNOWN) as f:
            data = json.load(f)
    except FileNotFoundError:
        return []
    return [e for e in data.get("findings", []) if e.get("property") == prop]


def run_shards(check_name, specs, workers, timeout_s):
    """Run each shard spec in its own interpreter; returns (results, problems)."""
    tmp = tempfile.mkdtemp(prefix="rvmon-")
    results, problems = [], []
    try:
        pending = list(enumerate(specs))
        running = []
        envv = dict(os.environ)
        envv.setdefault("PYTHONHASHSEED", "0")
        envv["PYTHONDONTWRITEBYTECODE"] = "1"
        envv["PYTHONPATH"] = env.VERIF + os.pathsep + envv.get("PYTHONPATH", "")
        while pending or running:
            while pending and len(running) < workers:
                i, spec = pending.pop(0)
                sp = os.path.join(tmp, f"s{i}.json")
                op = os.path.join(tmp, f"o{i}.json")
                with open(sp, "w") as f:
                    json.dump(spec, f)
                log = open(os.path.join(tmp, f"l{i}.txt"), "wb")
                p = subprocess.Popen(
                    [PY, "-B", "-X", "faulthandler"] + list(spec.get("python_flags", [])) + ["-m", "rvmon.worker", check_name, sp, op],
                    cwd=env.VERIF, env=envv, stdout=log, stderr=subprocess.STDOUT)
                running.append((i, p, op, log, time.time()))
            still = []
            for i, p, op, log, t0 in running:
                rc = p.poll()
                if rc is None:
                    if time.time() - t0 > timeout_s:
                        p.kill()
                        p.wait()
                        log.close()
                        problems.append(f"shard {i} exceeded watchdog {timeout_s}s")
                    else:
                        still.append((i, p, op, log, t0))
                    continue
                log.close()
                if rc != 0 or not os.path.exists(op):
                    with open(log.name, "rb") as lf:
                        tail = lf.read()[-1500:].decode("utf8", "replace")
                    problems.append(f"shard {i} exited {rc}: {tail}")
                else:
                    with open(op) as f:
                        results.append(json.load(f))
            running = still
            if running:
                time.sleep(0.05)
    finally:
        shutil.rmtree(tmp, ignore_errors=True)
    return results, problems


def main_check(check_name, tier, replay=None):
    t0 = time.time()
    mod = importlib.import_module(f"rvmon.checks.{check_name.lower()}")
    prop = mod.PROPERTY
    seed = env.seed()
    if replay:
        env.setup()
        with open(replay) as f:
            rep = json.load(f)
        res = Result()
        try:
            mod.replay(rep["case"], res)
        except Exception as e:  # a case-level replay is best effort; fall back to the shard
            res.inconclusive.append(f"case replay raised {e!r}")
        if not res.violations and rep.get("shard_spec") is not None:
            # fall back: re-run the recorded shard (same seed, same inputs) and look for the same mechanism
            os.environ["VERIF_SEED"] = str(rep.get("seed", 0))
            res2 = Result()
            mod.run_shard(rep["shard_spec"], res2)
            res.violations = [v for v in res2.violations if v["key"] == rep["key"]] or res2.violations
            print(f"replay: re-ran the recorded shard ({res2.evaluations} evaluations)")
        for v in res.violations:
            print(f"REPLAY-VIOLATION property={prop} key={v['key']} {v['what']}")
        print(f"replay: {len(res.violations)} violation(s)")
        return 1 if res.violations else 0

    specs = mod.plan(tier, seed)
    # A few shards are run a second time with the library's own logging switched to DEBUG (into a null handler): diagnostic
    # code paths (isEnabledFor-guarded dumps, lazy iterators consumed by a log line) are code of the library like any other.
    # The copies keep their shard parameters, so they replay the same workload and are judged by the same oracles.
    if getattr(mod, "VERBOSE_LOGGING_SHARDS", True) and specs:
        k = 3 if tier == "quick" else 6
        step = max(1, len(specs) // k)
        base = list(specs)
        for sp in [dict(s) for s in base[::step][:k]]:
            sp["rv_loglevel"] = "DEBUG"
            specs.append(sp)
        # ... and a few with the interpreter's optimisation flag (-O: assert statements are not executed) and with warnings
        # turned into errors (-W error::Warning for the library's own warning classes is what strict test suites use)
        for j, sp in enumerate([dict(base[(1 + jj * step) % len(base)]) for jj in range(max(3, k // 2))]):
            sp["python_flags"] = (["-O"], ["-W", "error"], ["-bb"])[j % 3]      # (-bb: comparing bytes with str raises BytesWarning)
            specs.append(sp)
    workers = min(len(specs), getattr(mod, "WORKERS", {}).get(tier, 4 if tier == "quick" else 16))
    timeout_s = getattr(mod, "WATCHDOG", {}).get(tier, 600 if tier == "quick" else 3600)
    results, problems = run_shards(check_name, specs, workers, timeout_s)

    merged = {"evaluations": 0, "distinct": 0, "samples": [], "violations": [], "counters": {},
              "sets": {}, "inconclusive": list(problems), "exhaustive": None}
    digests = set()
    for r in results:
        merged["evaluations"] += r["evaluations"]
        merged["distinct"] += r.get("distinct", 0)
        digests.update(r.get("digests", []))
        for s in r["samples"]:
            if len(merged["samples"]) < MAX_SAMPLES:
                merged["samples"].append(s)
        merged["violations"].extend(r["violations"])
        _merge_counters(merged["counters"], r["counters"])
        for k, v in r.get("sets", {}).items():
            merged["sets"].setdefault(k, set()).update(v)
        merged["inconclusive"].extend(r.get("inconclusive", []))
        if r.get("exhaustive") is not None:
            merged["exhaustive"] = (merged["exhaustive"] is not False) and bool(r["exhaustive"])
    merged["distinct"] += len(digests)
    if hasattr(mod, "finalize"):
        mod.finalize(merged, tier)
    for name in getattr(mod, "REQUIRED_COUNTERS", []):
        v = merged["counters"].get(name, 0)
        if isinstance(v, dict):
            v = sum(v.values())
        if not v:
            merged["inconclusive"].append(f"required monitor counter '{name}' is zero")
    if merged["evaluations"] == 0:
        merged["inconclusive"].append("no case was evaluated")
    if not merged["samples"]:
        merged["inconclusive"].append("no sample case was recorded by the check (evidence would be invalid)")

    # ---- classify violations against the committed known-findings list ----
    known = load_known(prop)
    open_entries = [e for e in known if e.get("status") == "open"]
    by_key = {}
    for v in merged["violations"]:
        by_key.setdefault(v["key"], []).append(v)
    raw_by_key = merged["counters"].get("violations_by_key", {})
    new_keys, known_hits = [], []
    for key, vs in sorted(by_key.items()):
        entry = next((e for e in open_entries if fnmatch.fnmatchcase(key, e["key"])), None)
        if entry:
            known_hits.append((key, entry, vs))
        else:
            new_keys.append((key, vs))
    for key, entry, vs in known_hits:
        print(f"KNOWN-FINDING: property={prop} {entry['what']} [key={key}, "
              f"{raw_by_key.get(key, len(vs))} occurrence(s) this run]")
    exit_code = 0
    if new_keys:
        os.makedirs(REPLAY_DIR, exist_ok=True)
        for key, vs in new_keys:
            v = vs[0]
            name = f"{prop}-{digest(key + json.dumps(v['case'], sort_keys=True, default=str)):016x}.json"
            path = os.path.join(REPLAY_DIR, name)
            with open(path, "w") as f:
                json.dump({"property": prop, "check": check_name, "tier": tier, "seed": seed,
                           "key": key, "what": v["what"], "case": v["case"], "shard_spec": v.get("shard_spec"),
                           "more_cases": [x["case"] for x in vs[1:]]}, f, indent=1, default=str)
            print(f"  witness key={key}: {v['what'][:600]}")
            print(f"VIOLATION property={prop} replay={path}")
        exit_code = 1
    elif merged["inconclusive"]:
        for r in merged["inconclusive"][:3]:
            print(f"INCONCLUSIVE property={prop} reason={r[-500:]}")
        exit_code = 2

    # ---- evidence ----
    cov = {
        "evaluations": merged["evaluations"],
        "distinct_nontrivial": merged["distinct"],
        "rule": getattr(mod, "RULE", ""),
        "samples": merged["samples"] or [],
        "counters": {k: v for k, v in merged["counters"].items()},
        "observed_sets": {k: {"count": len(v), "examples": sorted(v)[:12]}
                          for k, v in merged["sets"].items()},
        "shards": len(specs),
        "shards_completed": len(results),
        "known_findings_hit": sorted(k for k, _e, _v in known_hits),
        "new_violation_keys": sorted(k for k, _v in new_keys),
        "inconclusive_reasons": merged["inconclusive"][:20],
        "verdict": "violated" if new_keys else ("inconclusive" if merged["inconclusive"] else "held_on_observed"),
        "source_root": env.REPO,
    }
    if merged["exhaustive"] is not None:
        cov["exhaustive"] = bool(merged["exhaustive"])
        if hasattr(mod, "EXHAUSTIVE_AXIS"):
            cov["exhaustive_axis"] = mod.EXHAUSTIVE_AXIS
    ev = {
        "property_id": prop,
        "tier": tier,
        "seed": seed,
        "level": mod.LEVEL,
        "coverage": cov,
        "assumptions": list(getattr(mod, "ASSUMPTIONS", [])),
        "wall_s": round(time.time() - t0, 2),
        "violations": len(new_keys),
    }
    os.makedirs(EVIDENCE_DIR, exist_ok=True)
    tmp = os.path.join(EVIDENCE_DIR, f".{prop}.json.tmp")
    with open(tmp, "w") as f:
        json.dump(ev, f, indent=1, default=str)
    os.replace(tmp, os.path.join(EVIDENCE_DIR, f"{prop}.json"))
    print(f"{prop} {tier} seed={seed}: evaluations={cov['evaluations']} distinct={cov['distinct_nontrivial']} "
          f"verdict={cov['verdict']} wall={ev['wall_s']}s")
    return exit_code


def repo_tests_under_monitors(timeout=900):
    """Run the repository's own suite with the ambient monitors attached (thorough tiers of C05/C07/C14/C18)."""
    tmp = tempfile.mkdtemp(prefix="rvmon-pt-")
    try:
        out = os.path.join(tmp, "plugin.json")
        envv = dict(os.environ, RVMON_MONITORS="1", RVMON_PLUGIN_OUT=out, PYTHONDONTWRITEBYTECODE="1",
                    PYTHONPATH=env.VERIF + os.pathsep + env.SRC + os.pathsep + env.DEPS)
        p = subprocess.run([PY, "-B", "-m", "pytest", "-q", "-p", "no:cacheprovider", "-p", "rvmon.pytest_plugin", "--timeout=900",
                            "--continue-on-collection-errors", "tests/python"], cwd=env.REPO, env=envv, capture_output=True, text=True, timeout=timeout)
        tail = p.stdout.strip().splitlines()[-1] if p.stdout.strip() else p.stderr[-300:]
        try:
            with open(out) as f:
                data = json.load(f)
        except Exception:
            data = None
        return {"summary": tail, "plugin": data}
    finally:
        shutil.rmtree(tmp, ignore_errors=True)
